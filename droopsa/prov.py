"""Candidate derivations: from which status selection was this candidate (collection) drawn, and
through which filters?

`Deriv.sources(expr, func)` returns one `Src` per alternative derivation of the expression:
  state    'hopeful' | 'pending' | 'elected' | 'defeated' | 'withdrawn' | 'eligible' | 'all' |
           'notpending' | None (unknown origin)
  filters  tuple of (cond_ast, varname, func, negated) met on the way: comprehension `if`s and the
           tests of `if` statements lexically between a loop variable's `for` and its use
  origin   the selector call (ast.Call) the derivation starts from (or the unknown leaf)
  via      tuple of names of local helper functions the value was returned through

Flow-insensitive inside a function, context-sensitive across the rule-local helper functions
(breakTie, batchDefeat, findCertainLosers, iterate): a call is evaluated with the derivations of
*its own* arguments.  The selector table is read from droop/candidates.py, not hard-coded.
"""
import ast

from .model import need, ForElem, TupleElem, call_name, const_str, orient_text


class Src:
    __slots__ = ('state', 'filters', 'origin', 'via', 'ops')

    def __init__(self, state, filters=(), origin=None, via=(), ops=()):
        self.state = state
        self.filters = tuple(filters)
        self.origin = origin
        self.via = tuple(via)
        self.ops = tuple(ops)     # positional operations applied: 'idx', 'pop', 'slice', sorter names

    def add_filter(self, f):
        return Src(self.state, self.filters + (f,), self.origin, self.via, self.ops)

    def add_via(self, name):
        return Src(self.state, self.filters, self.origin, self.via + (name,), self.ops)

    def add_op(self, op):
        return Src(self.state, self.filters, self.origin, self.via, self.ops + (op,))

    def __repr__(self):
        return 'Src(%s, %d filters, via=%s, ops=%s)' % (self.state, len(self.filters), self.via, self.ops)


class Deriv:
    def __init__(self, ctx):
        self.ctx = ctx
        self.repo = ctx.repo
        self.selectors, self.sorters = self._read_candidates()
        self._active = set()
        self._partial = {}

    # -- tables from candidates.py ------------------------------------------------
    def _read_candidates(self):
        cls = self.repo.cls('droop.candidates.Candidates')
        need('select' in cls.methods, 'Candidates.select missing')
        selectors = {}
        sorters = set()
        for name, f in cls.methods.items():
            rets = [n for n in f.own_nodes() if isinstance(n, ast.Return) and n.value is not None]
            if len(rets) == 1 and isinstance(rets[0].value, ast.Call):
                c = rets[0].value
                kind, recv, nm = call_name(c)
                if kind == 'attr' and nm == 'select' and isinstance(recv, ast.Name) and recv.id == 'self' \
                        and c.args and const_str(c.args[0]):
                    selectors[name] = const_str(c.args[0])
                elif kind == 'name' and nm == 'sorted' and c.args and isinstance(c.args[0], ast.Name) \
                        and c.args[0].id in f.params:
                    sorters.add(name)
        need(len(selectors) >= 5 and len(sorters) >= 3,
             'Candidates selector/sorter methods not recognised (%s / %s)' % (selectors, sorters))
        self._check_select_table(cls)
        return selectors, sorters

    def _check_select_table(self, cls):
        """select(state): the comprehension chosen for each literal state tests c.state (and
        c.pending) the way the status names say.  Read from the AST; a changed table is an
        analysis error for every rule that relies on provenance."""
        sel = cls.methods['select']
        table = {}

        def conj(comp):
            if not (isinstance(comp, ast.ListComp) and len(comp.generators) == 1
                    and isinstance(comp.elt, ast.Name) and isinstance(comp.generators[0].target, ast.Name)
                    and comp.elt.id == comp.generators[0].target.id
                    and isinstance(comp.generators[0].iter, ast.Name) and comp.generators[0].iter.id == 'self'):
                return None
            v = comp.elt.id
            out = set()
            for c in comp.generators[0].ifs:
                parts = c.values if isinstance(c, ast.BoolOp) and isinstance(c.op, ast.And) else [c]
                for q in parts:
                    q2 = ast.parse(ast.unparse(q), mode='eval').body
                    for nn in ast.walk(q2):
                        if isinstance(nn, ast.Name) and nn.id == v:
                            nn.id = 'c'
                    out.add(orient_text(q2))
            return frozenset(out)

        for n in sel.own_nodes():
            if isinstance(n, ast.If) and isinstance(n.test, ast.Compare) and isinstance(n.test.left, ast.Name) \
                    and n.test.left.id == 'state' and len(n.test.ops) == 1 and isinstance(n.test.ops[0], ast.Eq):
                lit = const_str(n.test.comparators[0])
                if lit and n.body and isinstance(n.body[0], ast.Assign):
                    table[lit] = conj(n.body[0].value)
                if n.orelse and not isinstance(n.orelse[0], ast.If) and isinstance(n.orelse[0], ast.Assign):
                    table['*'] = conj(n.orelse[0].value)
        expect = {
            'pending': frozenset(["c.state == 'elected'", "c.pending"]),
            'notpending': frozenset(["c.state == 'elected'", "not c.pending"]),
            'eligible': frozenset(["c.state != 'withdrawn'"]),
            '*': frozenset(["c.state == state"]),
        }
        expect = {k: frozenset(orient_text(x) for x in v) for k, v in expect.items()}
        for k, v in expect.items():
            need(table.get(k) == v, 'Candidates.select(%r) filters on %r, expected %r: provenance tags '
                                    'would be wrong' % (k, sorted(table.get(k) or []), sorted(v)))
        self.select_table = table

    # -- evaluation -------------------------------------------------------------------
    def sources(self, expr, func, env=None):
        if expr is None:
            return []
        if isinstance(expr, ForElem):
            if getattr(expr, 'name', None):
                return self.sources(self._through_pairing(expr.for_node.target, expr.for_node.iter, expr.name), func, env)
            return self.sources(expr.for_node.iter, func, env)
        if isinstance(expr, TupleElem):
            return self._tuple_elem(expr, func, env)
        if isinstance(expr, ast.Constant):
            return []
        if isinstance(expr, (ast.List, ast.Tuple, ast.Set)):
            r = []
            for e in expr.elts:
                r += self.sources(e, func, env)
            return r
        if isinstance(expr, (ast.ListComp, ast.GeneratorExp, ast.SetComp)):
            return self.sources(expr.elt, func, env)
        if isinstance(expr, ast.Subscript):
            op = 'slice' if isinstance(expr.slice, ast.Slice) else 'idx'
            return [s.add_op(op) for s in self.sources(expr.value, func, env)]
        if isinstance(expr, ast.Starred):
            return self.sources(expr.value, func, env)
        if isinstance(expr, ast.BinOp) and isinstance(expr.op, ast.Add):
            return self.sources(expr.left, func, env) + self.sources(expr.right, func, env)
        if isinstance(expr, ast.IfExp):
            return self.sources(expr.body, func, env) + self.sources(expr.orelse, func, env)
        if isinstance(expr, ast.BoolOp):
            if isinstance(expr.op, ast.And):
                # `a and b` yields a only when a is falsy (no candidates in it)
                return self.sources(expr.values[-1], func, env)
            r = []
            for v in expr.values:
                r += self.sources(v, func, env)
            return r
        if isinstance(expr, ast.Call):
            return self._call(expr, func, env)
        if isinstance(expr, ast.Name):
            return self._name(expr, func, env)
        if isinstance(expr, ast.Attribute):
            p = self.ctx.canon(expr, func)
            if p == 'E.C':
                return [Src('all', origin=expr)]
            return [Src(None, origin=expr)]
        if isinstance(expr, (ast.Compare, ast.UnaryOp, ast.JoinedStr)):
            return []
        return [Src(None, origin=expr)]

    def states(self, expr, func, env=None):
        """frozenset of states, or None when some derivation is of unknown origin"""
        ss = self.sources(expr, func, env)
        if any(s.state is None for s in ss):
            return None
        return frozenset(s.state for s in ss)

    def _tuple_elem(self, te, func, env):
        v = te.value
        if isinstance(v, ast.Call):
            kind, recv, nm = call_name(v)
            if kind == 'name':
                callee = self.local_func(nm, func)
                if callee is not None:
                    cenv = self._bind(callee, v, func, env)
                    r = []
                    for n in callee.own_nodes():
                        if isinstance(n, ast.Return) and n.value is not None:
                            if isinstance(n.value, ast.Tuple) and te.index < len(n.value.elts):
                                r += [s.add_via(callee.name)
                                      for s in self.sources(n.value.elts[te.index], callee, cenv)]
                            else:
                                return [Src(None, origin=n.value)]
                    return r
        return [Src(None, origin=v if isinstance(v, ast.AST) else None)]

    def local_func(self, name, func):
        f = func
        while f is not None:
            if name in f.children:
                return f.children[name]
            f = f.parent
        return None

    def _bind(self, callee, call, func, env):
        cenv = {}
        for i, a in enumerate(call.args):
            if i < len(callee.params):
                cenv[callee.params[i]] = self.sources(a, func, env)
        for kw in call.keywords:
            if kw.arg in callee.params:
                cenv[kw.arg] = self.sources(kw.value, func, env)
        return cenv

    def _call(self, call, func, env):
        kind, recv, nm = call_name(call)
        if kind == 'attr':
            rp = self.ctx.canon(recv, func)
            if rp == 'E.C':
                if nm in self.selectors:
                    return [Src(self.selectors[nm], origin=call)]
                if nm == 'select' and call.args and const_str(call.args[0]):
                    return [Src(const_str(call.args[0]), origin=call)]
                if nm in self.sorters and call.args:
                    rev = any(k.arg == 'reverse' for k in call.keywords) or len(call.args) > 1
                    return [s.add_op(nm + ('/rev' if rev else ''))
                            for s in self.sources(call.args[0], func, env)]
                if nm == 'copy':
                    return [Src('all', origin=call)]
                return [Src(None, origin=call)]
            if nm == 'pop':
                return [s.add_op('pop') for s in self.sources(recv, func, env)]
            if nm == 'copy':
                return self.sources(recv, func, env)
            return [Src(None, origin=call)]
        if kind == 'name':
            if nm in ('list', 'set', 'tuple', 'frozenset', 'iter'):
                return self.sources(call.args[0], func, env) if call.args else []
            if nm in ('sorted', 'reversed'):
                return [s.add_op(nm) for s in self.sources(call.args[0], func, env)] if call.args else []
            if nm in ('min', 'max', 'next') and len(call.args) >= 1:
                return [s.add_op(nm) for s in self.sources(call.args[0], func, env)]
            callee = self.local_func(nm, func)
            if callee is not None:
                key = (callee.qualname, id(call))
                if key in self._active:
                    return []
                self._active.add(key)
                try:
                    cenv = self._bind(callee, call, func, env)
                    r = []
                    for n in callee.own_nodes():
                        if isinstance(n, ast.Return) and n.value is not None:
                            r += [s.add_via(callee.name) for s in self.sources(n.value, callee, cenv)]
                    return r
                finally:
                    self._active.discard(key)
            return [Src(None, origin=call)]
        return [Src(None, origin=call)]

    def comp_binding(self, name_node):
        """the comprehension (node, generator) binding this Name, if any"""
        n = getattr(name_node, 'parent', None)
        while n is not None and not isinstance(n, (ast.FunctionDef, ast.Lambda)):
            if isinstance(n, (ast.ListComp, ast.GeneratorExp, ast.SetComp, ast.DictComp)):
                for g in n.generators:
                    for t in ast.walk(g.target):
                        if isinstance(t, ast.Name) and t.id == name_node.id:
                            return n, g
            n = getattr(n, 'parent', None)
        return None, None

    @staticmethod
    def _through_pairing(target, it, name):
        """`for i, x in enumerate(XS)` / `for a, b in zip(AS, BS)` (nested too): the iterable whose elements `name` ranges over.
        Returns `it` itself for a plain target or an iterable that is not such a pairing; an empty tuple for the enumerate counter."""
        def path_of(t, p):
            if isinstance(t, ast.Name):
                return p if t.id == name else None
            if isinstance(t, (ast.Tuple, ast.List)):
                for i, e in enumerate(t.elts):
                    r = path_of(e, p + [i])
                    if r is not None:
                        return r
            return None
        path = path_of(target, [])
        while path:
            if isinstance(it, ast.Call) and isinstance(it.func, ast.Name) and it.func.id == 'enumerate' and it.args:
                if path[0] == 0:
                    return ast.Tuple(elts=[], ctx=ast.Load())
                it, path = it.args[0], path[1:]
            elif isinstance(it, ast.Call) and isinstance(it.func, ast.Name) and it.func.id == 'zip' and path[0] < len(it.args) \
                    and not any(isinstance(a, ast.Starred) for a in it.args):
                it, path = it.args[path[0]], path[1:]
            else:
                break
        return it

    def for_binding(self, name_node):
        """innermost `for <name> in X:` whose *body* lexically encloses this use, together with the
        tests of the `if` statements in between: [(test, negated)]"""
        conds = []
        child = name_node
        n = getattr(name_node, 'parent', None)
        while n is not None and not isinstance(n, (ast.FunctionDef, ast.Lambda)):
            if isinstance(n, ast.If):
                if any(child is b for b in n.body):
                    conds.append((n.test, False))
                elif any(child is b for b in n.orelse):
                    conds.append((n.test, True))
            if isinstance(n, ast.For) and any(child is b for b in n.body):
                for t in ast.walk(n.target):
                    if isinstance(t, ast.Name) and t.id == name_node.id:
                        return n, conds
            child = n
            n = getattr(n, 'parent', None)
        return None, []

    def _name(self, name_node, func, env):
        name = name_node.id
        comp, g = self.comp_binding(name_node)
        if g is not None:
            ss = self.sources(self._through_pairing(g.target, g.iter, name), func, env)
            # filters of this generator apply to the element wherever it is used inside the
            # comprehension's elt (not inside the ifs themselves: harmless over-approximation)
            for cond in g.ifs:
                ss = [s.add_filter((cond, name, func, False)) for s in ss]
            return ss
        if name in ('None', 'True', 'False'):
            return []
        loop, conds = self.for_binding(name_node)
        if loop is not None:
            ss = self.sources(self._through_pairing(loop.target, loop.iter, name), func, env)
            for cond, neg in conds:
                ss = [s.add_filter((cond, name, func, neg)) for s in ss]
            return ss
        if env is not None and name in env and name in func.params:
            return env[name]
        scope = self.ctx.scope(func)
        df, vals = scope.lookup_def(name, func)
        if df is None:
            return [Src(None, origin=name_node)]
        if vals == 'param':
            if df is func and env is not None and name in env:
                return env[name]
            if df.parent is None:
                return [Src(None, origin=name_node)]
            idx = df.params.index(name)
            r = []
            found = False
            for n in df.parent.all_nodes():
                if isinstance(n, ast.Call) and isinstance(n.func, ast.Name) and n.func.id == df.name:
                    caller = self.repo.enclosing_func(n)
                    arg = n.args[idx] if idx < len(n.args) else None
                    if arg is None:
                        for kw in n.keywords:
                            if kw.arg == name:
                                arg = kw.value
                    if arg is not None:
                        found = True
                        r += self.sources(arg, caller, None)
            return r if found else [Src(None, origin=name_node)]
        key = ('name', name, df.qualname, id(env) if env else 0)
        if key in self._active:
            # a definition that mentions the name itself (`xs = xs[:n]`, `xs = sorted(xs)`): the inner occurrence stands for
            # what the other definitions give (computed first, see below)
            return list(self._partial.get(key, []))
        self._active.add(key)
        try:
            r = []

            def _mentions(v_):
                node_ = v_.value if isinstance(v_, ast.AugAssign) else v_
                return isinstance(node_, ast.AST) and any(isinstance(x_, ast.Name) and x_.id == name and isinstance(x_.ctx, ast.Load)
                                                          for x_ in ast.walk(node_))
            vals = sorted(vals, key=lambda vs_: 1 if _mentions(vs_[0]) else 0)
            first_self = True
            for val, st in vals:
                if _mentions(val) and first_self:
                    self._partial[key] = list(r)
                    first_self = False
                e2 = env if df is func else None
                if isinstance(val, ast.AugAssign):
                    r += self.sources(val.value, df, e2)
                elif isinstance(val, ast.FunctionDef) or val is None:
                    return [Src(None, origin=name_node)]
                else:
                    r += self.sources(val, df, e2)
            for n in df.all_nodes():
                recv_ = n.func.value if isinstance(n, ast.Call) and isinstance(n.func, ast.Attribute) else None
                if isinstance(recv_, ast.Subscript) and isinstance(recv_.value, ast.Name):
                    recv_ = recv_.value         # `groups[-1].append(c)`: c ends up inside (an element of) groups
                if isinstance(n, ast.Call) and isinstance(n.func, ast.Attribute) \
                        and isinstance(recv_, ast.Name) and recv_.id == name \
                        and n.func.attr in ('append', 'extend', 'insert', 'add', 'update'):
                    owner = self.repo.enclosing_func(n)
                    if self.ctx.scope(owner).lookup_def(name, owner)[0] is not df:
                        continue
                    a = n.args[-1] if n.args else None
                    r += self.sources(a, owner, env if owner is func else None)
            return r
        finally:
            self._active.discard(key)


def fmt_states(p):
    if p is None:
        return '<unknown>'
    if not p:
        return '<none>'
    return '<' + '|'.join(sorted(p)) + '>'
