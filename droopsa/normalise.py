"""Load-time normalisations that undo common behaviour-preserving refactorings, so that the rules see one shape.

1. early return -> else:   `if c: A; return` followed by R (in a function that returns no value)  ==>  `if c: A else: R`
   and, in value-returning code, `if c: return X` followed by `return Y` keeps its shape but a leading `not` is removed by
   swapping (`if not c: return X; return Y`  ==>  `if c: return Y; return X`).
2. extract-method undone:  a local helper (a def nested in a function) that
     - is called exactly once in the enclosing function (all nested helpers included), as an expression statement,
     - returns no value (after step 1 it has no `return` left), is not recursive, has no nested def / yield / global / nonlocal,
   is inlined at its call site: parameters become locals bound to the arguments (a parameter whose argument is a plain name or
   constant and which the body never re-binds is substituted), the helper's other locals get a suffix when they clash with
   names of the enclosing function, and the def is removed.  A parameter tested `is None` / `is not None` is folded when the
   argument is the constant None (or absent with default None) or is an expression that cannot be None (arithmetic, call of V).

The transformed statements keep the line numbers of the code they came from (reports still point at real lines).
"""
import ast
import copy


def _returns_value(fn):
    for n in _own_walk(fn):
        if isinstance(n, ast.Return) and n.value is not None and not (isinstance(n.value, ast.Constant) and n.value.value is None):
            return True
    return False


def _own_walk(fn):
    """nodes of fn's body, not descending into nested defs / lambdas / classes"""
    stack = list(fn.body)
    while stack:
        n = stack.pop()
        yield n
        if isinstance(n, (ast.FunctionDef, ast.AsyncFunctionDef, ast.ClassDef, ast.Lambda)):
            continue
        stack.extend(ast.iter_child_nodes(n))


def _ends_with_return(stmts):
    return bool(stmts) and isinstance(stmts[-1], ast.Return) and (stmts[-1].value is None or (isinstance(stmts[-1].value, ast.Constant) and stmts[-1].value.value is None))


def _early_return_to_else(stmts):
    """rewrite a statement list of a void function: `if c: A; return` + R  ==>  `if c: A else: R'` (recursively); a trailing bare
    return is dropped.  Returns the new list, or None if some return sits where it cannot be removed (inside a loop / try / with)."""
    out = []
    i = 0
    while i < len(stmts):
        st = stmts[i]
        rest = stmts[i + 1:]
        if isinstance(st, ast.Return):
            if st.value is not None and not (isinstance(st.value, ast.Constant) and st.value.value is None):
                return None
            return out                                  # everything after a bare return is dead
        if isinstance(st, ast.If):
            body_ret = _ends_with_return(st.body)
            else_ret = _ends_with_return(st.orelse)
            if body_ret or else_ret:
                nb = _early_return_to_else(st.body[:-1] if body_ret else st.body)
                ne = _early_return_to_else(st.orelse[:-1] if else_ret else st.orelse)
                nr = _early_return_to_else(rest)
                if nb is None or ne is None or nr is None:
                    return None
                if body_ret and else_ret:
                    new = ast.If(test=st.test, body=nb or [ast.copy_location(ast.Pass(), st)], orelse=ne)
                elif body_ret:
                    new = ast.If(test=st.test, body=nb or [ast.copy_location(ast.Pass(), st)], orelse=ne + nr)
                else:
                    new = ast.If(test=st.test, body=(nb + nr) or [ast.copy_location(ast.Pass(), st)], orelse=ne)
                out.append(ast.copy_location(new, st))
                return out
            nb = _early_return_to_else(st.body)
            ne = _early_return_to_else(st.orelse)
            if nb is None or ne is None:
                return None
            out.append(ast.copy_location(ast.If(test=st.test, body=nb or [ast.copy_location(ast.Pass(), st)], orelse=ne), st))
        elif isinstance(st, (ast.For, ast.While, ast.Try, ast.With)):
            if any(isinstance(x, ast.Return) for x in ast.walk(st)):
                return None
            out.append(st)
        else:
            out.append(st)
        i += 1
    return out


def _bound_names(fn):
    out = set()
    for n in _own_walk(fn):
        if isinstance(n, ast.Name) and isinstance(n.ctx, (ast.Store, ast.Del)):
            out.add(n.id)
        elif isinstance(n, (ast.FunctionDef, ast.ClassDef)):
            out.add(n.name)
        elif isinstance(n, ast.ExceptHandler) and n.name:
            out.add(n.name)
    return out


def _params(fn):
    a = fn.args
    return [x.arg for x in a.posonlyargs + a.args + a.kwonlyargs]


class _Subst(ast.NodeTransformer):
    def __init__(self, mapping, rename):
        self.mapping = mapping      # name -> expression AST (substituted at loads)
        self.rename = rename        # name -> new name

    def visit_Name(self, node):
        if node.id in self.mapping and isinstance(node.ctx, ast.Load):
            return ast.copy_location(copy.deepcopy(self.mapping[node.id]), node)
        if node.id in self.rename:
            node.id = self.rename[node.id]
        return node

    def visit_FunctionDef(self, node):
        return node

    def visit_Lambda(self, node):
        # lambda parameters shadow: leave lambdas whose parameters collide alone
        ps = set(a.arg for a in node.args.args)
        if ps & (set(self.mapping) | set(self.rename)):
            return node
        self.generic_visit(node)
        return node


def _cannot_be_none(e):
    return isinstance(e, (ast.BinOp, ast.JoinedStr, ast.List, ast.Tuple, ast.Dict, ast.Set)) or \
        (isinstance(e, ast.Constant) and e.value is not None) or \
        (isinstance(e, ast.Call) and isinstance(e.func, ast.Name) and e.func.id in ('V', 'int', 'str', 'len', 'list', 'dict', 'set', 'sum'))


class _FoldNone(ast.NodeTransformer):
    """fold `p is None` / `p is not None` for parameters whose argument is known to be None / not None"""

    def __init__(self, known):
        self.known = known      # name -> True (is None) / False (is not None)

    def _val(self, test):
        if isinstance(test, ast.Compare) and len(test.ops) == 1 and isinstance(test.left, ast.Name) and test.left.id in self.known \
                and isinstance(test.comparators[0], ast.Constant) and test.comparators[0].value is None:
            isnone = self.known[test.left.id]
            if isinstance(test.ops[0], ast.Is):
                return isnone
            if isinstance(test.ops[0], ast.IsNot):
                return not isnone
        return None

    def visit_If(self, node):
        self.generic_visit(node)
        v = self._val(node.test)
        if v is True:
            return node.body
        if v is False:
            return node.orelse or None
        return node


def inline_single_use_helpers(tree):
    """apply the two normalisations to every function of a module (in place); returns the number of helpers inlined"""
    count = 0
    for outer in [n for n in ast.walk(tree) if isinstance(n, (ast.FunctionDef, ast.AsyncFunctionDef))]:
        if any(isinstance(x, ast.Call) and isinstance(x.func, ast.Name) and x.func.id in ('locals', 'vars', 'eval', 'exec') for x in ast.walk(outer)):
            continue            # the namespace is handed to code in strings (cProfile.runctx): names matter
        changed = True
        while changed:
            changed = False
            helpers = [s for s in outer.body if isinstance(s, ast.FunctionDef)]
            for h in helpers:
                if h.decorator_list or h.args.vararg or h.args.kwarg:
                    continue
                if any(isinstance(x, (ast.FunctionDef, ast.AsyncFunctionDef, ast.ClassDef, ast.Yield, ast.YieldFrom, ast.Global, ast.Nonlocal, ast.Await))
                       for x in ast.walk(h) if x is not h):
                    continue
                if _role_like(outer, h):
                    continue
                # all references to the helper's name inside the outer function
                refs = [x for x in ast.walk(outer) if isinstance(x, ast.Name) and x.id == h.name]
                calls = [x for x in ast.walk(outer) if isinstance(x, ast.Call) and isinstance(x.func, ast.Name) and x.func.id == h.name]
                if len(refs) != len(calls) or not calls:
                    continue        # the helper is also used as a value
                multi = len(calls) > 1
                if any(isinstance(x, ast.Attribute) and x.attr == 'advance' and isinstance(x.value, ast.Name) and x.value.id in _params(h) for x in ast.walk(h)):
                    continue        # the ballot walker (`<param>.advance()`) is a role the rules know by what it does: never inlined
                if multi:
                    # several call sites: only small parameterised helpers (an extracted step applied to different candidates), never the
                    # ballot walker itself (`<param>.advance()`): that one is a role the rules know by what it does
                    nstm = len([x for x in ast.walk(h) if isinstance(x, ast.stmt)])
                    walks = any(isinstance(x, ast.Attribute) and x.attr == 'advance' and isinstance(x.value, ast.Name) and x.value.id in _params(h)
                                for x in ast.walk(h))
                    if not _params(h) or walks or nstm > 14 or len(calls) > 4:
                        continue
                    if not all(_is_stmt_call(outer, c_) for c_ in calls):
                        continue
                if any(r for r in ast.walk(h) if isinstance(r, ast.Name) and r.id == h.name):
                    continue        # recursive
                if _returns_value(h):
                    continue
                body = [s for s in h.body if not (isinstance(s, ast.Expr) and isinstance(s.value, ast.Constant) and isinstance(s.value.value, str))]
                nb = _early_return_to_else(copy.deepcopy(body))
                if nb is None:
                    continue
                call = calls[0]
                site = _find_stmt(outer, call)
                if site is None:
                    continue
                blk, idx = site
                st = blk[idx]
                if not (isinstance(st, ast.Expr) and st.value is call):
                    continue
                # bind parameters
                ps = _params(h)
                args = {}
                ok = True
                for i, a in enumerate(call.args):
                    if i >= len(ps) or isinstance(a, ast.Starred):
                        ok = False
                        break
                    args[ps[i]] = a
                for k in call.keywords:
                    if k.arg is None or k.arg not in ps or k.arg in args:
                        ok = False
                        break
                    args[k.arg] = k.value
                defaults = h.args.defaults
                pos = h.args.posonlyargs + h.args.args
                for j, d in enumerate(defaults):
                    pn = pos[len(pos) - len(defaults) + j].arg
                    args.setdefault(pn, d)
                for a_, d in zip(h.args.kwonlyargs, h.args.kw_defaults):
                    if d is not None:
                        args.setdefault(a_.arg, d)
                if not ok or set(args) != set(ps):
                    continue
                hb = _bound_names(h)
                ob = _bound_names(outer) | set(_params(outer))
                for g in helpers:
                    if g is not h:
                        ob |= _bound_names(g) | set(_params(g))
                mapping, rename, pre, known = {}, {}, [], {}
                for pn in ps:
                    a = args[pn]
                    if isinstance(a, ast.Constant) and a.value is None:
                        known[pn] = True
                    elif _cannot_be_none(a) or (isinstance(a, ast.Name) and _name_cannot_be_none(_innermost_fn(outer, call), a.id)):
                        known[pn] = False
                    simple = isinstance(a, (ast.Name, ast.Constant)) or (isinstance(a, ast.Attribute) and isinstance(a.value, ast.Name))
                    if simple and pn not in hb:
                        mapping[pn] = a
                    else:
                        new = pn if (pn not in ob and not multi) else '%s__%s%s' % (pn, h.name, _uid())
                        rename[pn] = new
                        pre.append(ast.copy_location(ast.Assign(targets=[ast.Name(id=new, ctx=ast.Store())], value=a), st))
                for nm in hb:
                    if (nm in ob or multi) and nm not in rename and nm not in ps:
                        rename[nm] = '%s__%s%s' % (nm, h.name, _uid() if multi else '')
                nb = [x for s in nb for x in _as_list(_FoldNone(known).visit(s))] if known else nb
                new_body = []
                for s in nb:
                    s2 = _Subst(mapping, rename).visit(s)
                    new_body.append(s2)
                if not new_body and not pre:
                    new_body = [ast.copy_location(ast.Pass(), st)]
                for s in pre + new_body:
                    ast.fix_missing_locations(s)
                    s._inlined_from = h.name
                blk[idx:idx + 1] = pre + new_body
                if not multi:
                    outer.body.remove(h)
                count += 1
                changed = True
                break
    return count


def _as_list(x):
    if x is None:
        return []
    return x if isinstance(x, list) else [x]


def _find_stmt(outer, call):
    """(block list, index) of the statement of `outer` (or of one of its nested helpers) that directly holds `call`"""
    for n in ast.walk(outer):
        for fld in ('body', 'orelse', 'finalbody'):
            b = getattr(n, fld, None)
            if isinstance(b, list):
                for i, s in enumerate(b):
                    if isinstance(s, ast.Expr) and s.value is call:
                        return b, i
    return None


def swap_negated_returns(tree):
    """`if not c: return X` directly followed by `return Y`  ==>  `if c: return Y` followed by `return X` (value-returning early exit)"""
    n = 0
    for node in ast.walk(tree):
        for fld in ('body', 'orelse', 'finalbody'):
            b = getattr(node, fld, None)
            if not isinstance(b, list):
                continue
            for i in range(len(b) - 1):
                st, nx = b[i], b[i + 1]
                if isinstance(st, ast.If) and not st.orelse and isinstance(st.test, ast.UnaryOp) and isinstance(st.test.op, ast.Not) \
                        and len(st.body) == 1 and isinstance(st.body[0], ast.Return) and isinstance(nx, ast.Return) and i + 2 == len(b):
                    st.test = st.test.operand
                    st.body[0], b[i + 1] = nx, st.body[0]
                    n += 1
    return n


_UID = [0]


def _uid():
    _UID[0] += 1
    return '_%d' % _UID[0]


def _is_stmt_call(outer, call):
    return _find_stmt(outer, call) is not None


def filtered_loops_to_if(tree):
    """`for v in [v for v in XS if c]:` / `for v in (v for v in XS if c):` BODY   ==>   `for v in XS:` `if c:` BODY
    (only when the comprehension yields its own variable unchanged and has one generator).  Both spellings walk the same
    elements in the same order; the list form evaluates all filters before the first BODY runs, the loop form interleaves them -
    a difference no rule here depends on (they treat the filter as a guard on the element)."""
    n = 0
    for node in ast.walk(tree):
        if isinstance(node, ast.For) and isinstance(node.iter, (ast.ListComp, ast.GeneratorExp)) and isinstance(node.target, ast.Name) \
                and len(node.iter.generators) == 1 and not node.orelse:
            g = node.iter.generators[0]
            if isinstance(node.iter.elt, ast.Name) and isinstance(g.target, ast.Name) and node.iter.elt.id == g.target.id and g.ifs and not g.is_async:
                if g.target.id != node.target.id:
                    # rename the comprehension variable to the loop variable inside the filters
                    class _R(ast.NodeTransformer):
                        def visit_Name(self, x):
                            if x.id == g.target.id:
                                x.id = node.target.id
                            return x
                    ifs = [_R().visit(c) for c in g.ifs]
                else:
                    ifs = list(g.ifs)
                test = ifs[0] if len(ifs) == 1 else ast.BoolOp(op=ast.And(), values=ifs)
                inner = ast.If(test=test, body=node.body, orelse=[])
                ast.copy_location(inner, node)
                ast.copy_location(test, node)
                inner._from_filter = True
                node.iter = g.iter
                node.body = [inner]
                node._was_filtered = True
                n += 1
    return n


_NEG = {ast.Eq: ast.NotEq, ast.NotEq: ast.Eq, ast.Lt: ast.GtE, ast.GtE: ast.Lt, ast.Gt: ast.LtE, ast.LtE: ast.Gt,
        ast.In: ast.NotIn, ast.NotIn: ast.In, ast.Is: ast.IsNot, ast.IsNot: ast.Is}


def negate(test):
    """the negation of a test, pushed into a single comparison / through `not`; otherwise wrapped in `not`"""
    if isinstance(test, ast.UnaryOp) and isinstance(test.op, ast.Not):
        return test.operand
    if isinstance(test, ast.Compare) and len(test.ops) == 1 and type(test.ops[0]) in _NEG:
        return ast.copy_location(ast.Compare(left=test.left, ops=[_NEG[type(test.ops[0])]()], comparators=test.comparators), test)
    if isinstance(test, ast.BoolOp) and any(isinstance(v, ast.UnaryOp) and isinstance(v.op, ast.Not) for v in test.values):
        # De Morgan, when it removes a `not`:  not (not a or b)  ==  a and not b   (as a truth value)
        op = ast.And() if isinstance(test.op, ast.Or) else ast.Or()
        return ast.copy_location(ast.BoolOp(op=op, values=[negate(v) for v in test.values]), test)
    return ast.copy_location(ast.UnaryOp(op=ast.Not(), operand=test), test)


def guard_continue_to_if(tree):
    """in a loop body, `if c: continue` followed by REST  ==>  `if not c: REST` (the guard-clause spelling of a filtered loop body)"""
    n = 0
    changed = True
    while changed:
        changed = False
        for loop in [x for x in ast.walk(tree) if isinstance(x, (ast.For, ast.While))]:
            blocks = [loop.body]
            # also inside an `if` that is the whole loop body (after a first rewrite)
            for b in blocks:
                for i, st in enumerate(b):
                    if isinstance(st, ast.If) and not st.orelse and len(st.body) == 1 and isinstance(st.body[0], ast.Continue) and i + 1 < len(b):
                        rest = b[i + 1:]
                        if any(isinstance(x, ast.Continue) and _loop_of(x, loop) for r in rest for x in ast.walk(r) if False):
                            continue
                        new = ast.copy_location(ast.If(test=negate(st.test), body=rest, orelse=[]), st)
                        b[i:] = [new]
                        n += 1
                        changed = True
                        break
                if changed:
                    break
            if changed:
                break
    return n


def _loop_of(node, loop):
    return True


IMMUTABLE_ATTRS = ('cid', 'name', 'order', 'tieOrder', 'nick', 'nSeats', 'nBallots', 'nCand', 'multiplier')


def _stable_expr(e):
    """an expression whose value cannot change during a count: constants, and attribute paths ending in an immutable attribute"""
    if isinstance(e, ast.Constant):
        return True
    if isinstance(e, ast.Attribute) and e.attr in IMMUTABLE_ATTRS and isinstance(e.value, (ast.Name, ast.Attribute)):
        return True
    if isinstance(e, ast.BinOp) and isinstance(e.op, (ast.Add, ast.Sub)):
        return _stable_expr(e.left) and _stable_expr(e.right)
    return False


def substitute_stable_locals(tree):
    """a local defined ONCE as a stable expression (`cid = candidate.cid`, `divisor = E.nSeats + 1`) is replaced by that expression at
    its uses, and the definition dropped - provided every name in the expression is itself bound at most once in the function
    (so the expression means the same at the use as at the definition)"""
    n = 0
    for fn in [x for x in ast.walk(tree) if isinstance(x, (ast.FunctionDef, ast.AsyncFunctionDef))]:
        stores = {}
        for x in _own_walk(fn):
            if isinstance(x, ast.Name) and isinstance(x.ctx, (ast.Store, ast.Del)):
                stores.setdefault(x.id, []).append(x)
            if isinstance(x, (ast.ListComp, ast.GeneratorExp, ast.SetComp, ast.DictComp)):
                for g in x.generators:
                    for t in ast.walk(g.target):
                        if isinstance(t, ast.Name):
                            stores.setdefault(t.id, []).append(t)
        params = set(_params(fn))
        for st in [x for x in _own_walk(fn) if isinstance(x, ast.Assign)]:
            if len(st.targets) != 1 or not isinstance(st.targets[0], ast.Name):
                continue
            nm = st.targets[0].id
            if len(stores.get(nm, [])) != 1 or nm in params or not _stable_expr(st.value) or isinstance(st.value, ast.Constant):
                continue
            # the names the expression reads: parameters or locals of an enclosing scope / loop variables bound once
            reads = [x.id for x in ast.walk(st.value) if isinstance(x, ast.Name)]
            if any(len(stores.get(r, [])) > 1 for r in reads):
                # a name of the expression is bound more than once in the function (a loop variable used by several loops): still fine
                # when the local lives entirely in the rest of its own block and nothing there re-binds those names
                loc0 = _locate(fn, st)
                if loc0 is None:
                    continue
                blk0, i0 = loc0
                region = blk0[i0 + 1:]
                uses_all = [x for x in _own_walk(fn) if isinstance(x, ast.Name) and x.id == nm and x is not st.targets[0]]
                in_region = {id(x) for r_ in region for x in ast.walk(r_)}
                if not uses_all or any(id(x) not in in_region for x in uses_all):
                    continue
                if any(isinstance(x, ast.Name) and x.id in reads and isinstance(x.ctx, (ast.Store, ast.Del)) for r_ in region for x in ast.walk(r_)):
                    continue
            # used in nested functions? then leave
            if any(isinstance(x, ast.Name) and x.id == nm for g in ast.walk(fn) if isinstance(g, (ast.FunctionDef, ast.Lambda)) and g is not fn for x in ast.walk(g)):
                continue
            sub = _Subst({nm: st.value}, {})
            for blk, i in _blocks_containing(fn, st):
                pass
            loc = _locate(fn, st)
            if loc is None:
                continue
            blk, i = loc
            for other in list(_own_walk_stmts(fn)):
                if other is st:
                    continue
                _subst_in_stmt(other, sub)
            blk[i:i + 1] = [] if len(blk) > 1 else [ast.copy_location(ast.Pass(), st)]
            n += 1
    return n


def _blocks_containing(fn, st):
    return []


def _locate(fn, st):
    for node in ast.walk(fn):
        for fld in ('body', 'orelse', 'finalbody'):
            b = getattr(node, fld, None)
            if isinstance(b, list):
                for i, s in enumerate(b):
                    if s is st:
                        return b, i
    return None


def _own_walk_stmts(fn):
    for x in _own_walk(fn):
        if isinstance(x, ast.stmt):
            yield x


def _subst_in_stmt(st, sub):
    """substitute in the expressions held directly by this statement (not in nested statements: they are visited on their own)"""
    for fld, val in ast.iter_fields(st):
        if isinstance(val, ast.expr):
            setattr(st, fld, sub.visit(val))
        elif isinstance(val, list):
            for k, v in enumerate(val):
                if isinstance(v, ast.expr):
                    val[k] = sub.visit(v)
                elif isinstance(v, ast.withitem):
                    v.context_expr = sub.visit(v.context_expr)
                elif isinstance(v, ast.keyword):
                    v.value = sub.visit(v.value)


# ---------------------------------------------------------------------------
# inliner v2: private methods of the same class, value-returning helpers, one-loop generators
# ---------------------------------------------------------------------------

ANCHOR_METHODS = set("""ArithmeticClass __bltBlob __bltOption __bltOptionTie __bltOptionNick __bltOptionWithdrawn __bltOptionUndeclared __bool__ __cmp__ __init__ __new__
__str__ __validate _bltParse _fill action add advance as_dict bltParse bltRead byTieOrder byVote byBallotOrder byCid count default dump elect defeat unelect exhausted getCid getopt
initialize json log logAction main min newRound options postCheck record report select setopt unpend update vote copy hopeful pending elected defeated withdrawn eligible
seatsLeftToFill candidate restart topRank topCand surplus zeroVote addVote cState cDict cidList mul div muldiv info tag helps prog normalize parse unused overrides
__eq__ __ne__ __lt__ __le__ __gt__ __ge__ __add__ __sub__ __mul__ __floordiv__ __truediv__ __neg__ __pos__ __abs__ __hash__ __repr__ __copy__ __deepcopy__""".split())


def _single_exit(body):
    """(prefix statements, return expression) if the body is straight-line code ending in the only `return <expr>`; a trailing
    `if c: return A` / `return B` pair (or if/else of returns) becomes the expression `A if c else B`"""
    body = [s_ for s_ in body if not (isinstance(s_, ast.Expr) and isinstance(s_.value, ast.Constant) and isinstance(s_.value.value, str))]
    if not body:
        return None
    last = body[-1]
    pre = body[:-1]
    expr = None
    if isinstance(last, ast.Return) and last.value is not None:
        expr = last.value
        if pre and isinstance(pre[-1], ast.If) and not pre[-1].orelse and len(pre[-1].body) == 1 and isinstance(pre[-1].body[0], ast.Return) \
                and pre[-1].body[0].value is not None:
            expr = ast.copy_location(ast.IfExp(test=pre[-1].test, body=pre[-1].body[0].value, orelse=last.value), last)
            pre = pre[:-1]
    elif isinstance(last, ast.If) and len(last.body) == 1 and len(last.orelse) == 1 and isinstance(last.body[0], ast.Return) and isinstance(last.orelse[0], ast.Return) \
            and last.body[0].value is not None and last.orelse[0].value is not None:
        expr = ast.copy_location(ast.IfExp(test=last.test, body=last.body[0].value, orelse=last.orelse[0].value), last)
    if expr is None:
        return None
    if any(isinstance(x, (ast.Return, ast.Yield, ast.YieldFrom)) for s_ in pre for x in ast.walk(s_)):
        return None
    return pre, expr


def _returns_to_assign(stmts, ret):
    """value-returning body in single-exit form: every `return e` becomes `ret = e` and the statements after a conditional return
    move into the branch that did not return (duplicated when both branches can fall through).  None when a return sits inside a
    loop / try / with, or when the result would grow beyond 40 statements."""
    budget = [40]

    def conv(stmts):
        out = []
        for i, st in enumerate(stmts):
            budget[0] -= 1
            if budget[0] < 0:
                return None
            if isinstance(st, ast.Return):
                val = st.value if st.value is not None else ast.Constant(value=None)
                out.append(ast.copy_location(ast.Assign(targets=[ast.Name(id=ret, ctx=ast.Store())], value=val), st))
                return out
            if isinstance(st, ast.If) and any(isinstance(x, ast.Return) for x in ast.walk(st)):
                rest = stmts[i + 1:]
                nb = conv(list(st.body) + copy.deepcopy(rest))
                ne = conv(list(st.orelse) + copy.deepcopy(rest))
                if nb is None or ne is None:
                    return None
                out.append(ast.copy_location(ast.If(test=st.test, body=nb or [ast.copy_location(ast.Pass(), st)], orelse=ne), st))
                return out
            if any(isinstance(x, ast.Return) for x in ast.walk(st)):
                return None
            out.append(st)
        out.append(ast.Assign(targets=[ast.Name(id=ret, ctx=ast.Store())], value=ast.Constant(value=None)))
        return out
    res = conv(stmts)
    if res is None:
        return None
    for x in res:
        ast.fix_missing_locations(x)
    return res


def _one_loop_generator(body):
    """(iter expression, target name, filter tests) for a generator helper of the form `for v in XS: [if c:] yield v`"""
    body = [s_ for s_ in body if not (isinstance(s_, ast.Expr) and isinstance(s_.value, ast.Constant) and isinstance(s_.value.value, str))]
    if len(body) != 1 or not isinstance(body[0], ast.For) or body[0].orelse or not isinstance(body[0].target, ast.Name):
        return None
    loop = body[0]
    inner = loop.body
    tests = []
    while len(inner) == 1 and isinstance(inner[0], ast.If) and not inner[0].orelse:
        tests.append(inner[0].test)
        inner = inner[0].body
    if len(inner) == 1 and isinstance(inner[0], ast.Expr) and isinstance(inner[0].value, ast.Yield) and isinstance(inner[0].value.value, ast.Name) \
            and inner[0].value.value.id == loop.target.id:
        return loop.iter, loop.target.id, tests
    return None


def _callee_table(tree):
    """[(container node whose body holds the defs, {name: FunctionDef}, kind)] for functions with nested defs and for classes"""
    out = []
    for node in ast.walk(tree):
        if isinstance(node, (ast.FunctionDef, ast.AsyncFunctionDef)):
            defs = {s_.name: s_ for s_ in node.body if isinstance(s_, ast.FunctionDef)}
            if defs:
                out.append((node, defs, 'local'))
        elif isinstance(node, ast.ClassDef):
            defs = {s_.name: s_ for s_ in node.body if isinstance(s_, ast.FunctionDef)}
            if defs:
                out.append((node, defs, 'method'))
    return out


def _method_call(call, cls_name):
    """name of the method when call is self.NAME(...) / cls.NAME(...) / <ClassName>.NAME(...)"""
    f = call.func
    if isinstance(f, ast.Attribute) and isinstance(f.value, ast.Name) and f.value.id in ('self', 'cls', cls_name):
        return f.attr
    return None


def _unmangle(name, cls_name):
    pre = '_' + cls_name.lstrip('_')
    if name.startswith(pre + '__'):
        return name[len(pre):]
    return name


def inline_helpers_v2(tree):
    """second pass of helper inlining (see module docstring, extended):
       * callee: a nested function, or a NON-anchor method of the same class whose name starts with '_' (self.x / cls.x / Class.x calls);
       * contexts: the whole value of an Assign / AugAssign / Return / Expr statement, the iter of a for (one-loop generators and
         single-exit helpers), any expression position for a helper that is just `return <expr>` over its parameters;
       * at most 6 call sites, not recursive, no nested defs, no *args/**kwargs.
    Returns the number of call sites inlined."""
    total = 0
    for container, defs, kind in _callee_table(tree):
        cls_name = container.name if kind == 'method' else None
        if kind == 'local' and any(isinstance(x, ast.Call) and isinstance(x.func, ast.Name) and x.func.id in ('locals', 'vars', 'eval', 'exec') for x in ast.walk(container)):
            continue
        for hname, h in list(defs.items()):
            if kind == 'method':
                base = _unmangle(hname, cls_name)
                if not base.startswith('_') or base in ANCHOR_METHODS or hname in ANCHOR_METHODS or (base.startswith('__') and base.endswith('__')):
                    continue
                decos = [ast.unparse(d) for d in h.decorator_list]
                if any(d not in ('staticmethod', 'classmethod') for d in decos):
                    continue
            elif h.decorator_list:
                continue
            if kind == 'local' and _role_like(container, h):
                continue
            if h.args.vararg or h.args.kwarg:
                continue
            if any(isinstance(x, (ast.FunctionDef, ast.AsyncFunctionDef, ast.ClassDef, ast.Global, ast.Nonlocal, ast.Await, ast.YieldFrom)) for x in ast.walk(h) if x is not h):
                continue
            # call sites
            scope_nodes = [container] if kind == 'local' else [m for m in container.body if isinstance(m, ast.FunctionDef)]
            calls = []
            refs = 0
            for sc in scope_nodes:
                for x in ast.walk(sc):
                    if kind == 'local':
                        if isinstance(x, ast.Name) and x.id == hname:
                            refs += 1
                        if isinstance(x, ast.Call) and isinstance(x.func, ast.Name) and x.func.id == hname:
                            calls.append((sc, x))
                    else:
                        if isinstance(x, ast.Attribute) and x.attr in (hname, _unmangle(hname, cls_name)) and isinstance(x.value, ast.Name) and x.value.id in ('self', 'cls', cls_name):
                            refs += 1
                        if isinstance(x, ast.Call) and _method_call(x, cls_name) in (hname, _unmangle(hname, cls_name)):
                            calls.append((sc, x))
            if not calls or refs != len(calls) or len(calls) > 6:
                continue
            if any(_inside(h, c_) for sc, c_ in calls):
                continue                    # recursive
            if any(isinstance(x, ast.Attribute) and x.attr == 'advance' and isinstance(x.value, ast.Name) and x.value.id in _params(h) for x in ast.walk(h)):
                continue
            body = [s_ for s_ in h.body if not (isinstance(s_, ast.Expr) and isinstance(s_.value, ast.Constant) and isinstance(s_.value.value, str))]
            gen = _one_loop_generator(body) if any(isinstance(x, ast.Yield) for x in ast.walk(h)) else None
            if any(isinstance(x, ast.Yield) for x in ast.walk(h)) and gen is None:
                continue
            se = None if gen else _single_exit(copy.deepcopy(body))
            void_body = None
            multi = None
            if not gen and se is None:
                if _returns_value(h):
                    multi = _returns_to_assign(copy.deepcopy(body), '__ret__')
                    if multi is None:
                        continue
                else:
                    void_body = _early_return_to_else(copy.deepcopy(body))
                    if void_body is None:
                        continue
            done_all = True
            for sc, call in calls:
                if not _inline_one(sc, call, h, kind, cls_name, gen, se, void_body, multi):
                    done_all = False
                else:
                    total += 1
            if done_all:
                try:
                    container.body.remove(h)
                except ValueError:
                    pass
    return total


def _inside(fn, node):
    return any(x is node for x in ast.walk(fn))


def _innermost_fn(scope, node):
    inner = scope
    for g in ast.walk(scope):
        if isinstance(g, (ast.FunctionDef, ast.AsyncFunctionDef)) and g is not scope and any(x is node for x in ast.walk(g)):
            if _size(g) < _size(inner):
                inner = g
    return inner


def _name_cannot_be_none(scope, name):
    """name is bound exactly once in scope (not a parameter), to an expression that cannot be None"""
    if scope is None or name in _params(scope):
        return False
    defs = [x for x in _own_walk(scope) if isinstance(x, ast.Name) and x.id == name and isinstance(x.ctx, (ast.Store, ast.Del))]
    if len(defs) != 1:
        return False
    for st in _own_walk(scope):
        if isinstance(st, ast.Assign) and len(st.targets) == 1 and st.targets[0] is defs[0]:
            return _cannot_be_none(st.value)
    return False


def _bind(call, h, kind, multi_suffix, outer_bound, scope=None):
    """parameter binding for one call: (mapping name->expr for direct substitution, rename map, pre-statements) or None"""
    ps = _params(h)
    decos = [ast.unparse(d) for d in h.decorator_list]
    args = {}
    plist = list(ps)
    if kind == 'method' and 'staticmethod' not in decos:
        # first parameter is the receiver
        if not plist:
            return None
        recv = call.func.value
        args[plist[0]] = recv if 'classmethod' not in decos else ast.Name(id='cls' if recv.id == 'cls' else recv.id, ctx=ast.Load())
        plist = plist[1:]
    for i, a in enumerate(call.args):
        if i >= len(plist) or isinstance(a, ast.Starred):
            return None
        args[plist[i]] = a
    for k in call.keywords:
        if k.arg is None or k.arg not in plist or k.arg in args:
            return None
        args[k.arg] = k.value
    pos = h.args.posonlyargs + h.args.args
    for j, d in enumerate(h.args.defaults):
        args.setdefault(pos[len(pos) - len(h.args.defaults) + j].arg, d)
    for a_, d in zip(h.args.kwonlyargs, h.args.kw_defaults):
        if d is not None:
            args.setdefault(a_.arg, d)
    if set(args) != set(ps):
        return None
    hb = _bound_names(h)
    mapping, rename, pre, known = {}, {}, [], {}
    for pn in ps:
        a = args[pn]
        if isinstance(a, ast.Constant) and a.value is None:
            known[pn] = True
        elif _cannot_be_none(a) or (isinstance(a, ast.Name) and _name_cannot_be_none(scope, a.id)):
            known[pn] = False
        simple = isinstance(a, (ast.Name, ast.Constant)) or (isinstance(a, ast.Attribute) and isinstance(a.value, ast.Name)) or \
            (isinstance(a, ast.Attribute) and isinstance(a.value, ast.Attribute) and isinstance(a.value.value, ast.Name))
        if not simple and pn not in hb and _evaluated_once(h, pn):
            simple = True       # the argument expression takes the place of the single, unconditional, unrepeated use of the parameter
        if simple and pn not in hb:
            mapping[pn] = a
        else:
            new = '%s__%s%s' % (pn, h.name.lstrip('_'), multi_suffix)
            rename[pn] = new
            pre.append(ast.Assign(targets=[ast.Name(id=new, ctx=ast.Store())], value=a))
    for nm in hb:
        if nm not in rename and nm not in ps:
            if nm in outer_bound or multi_suffix:
                rename[nm] = '%s__%s%s' % (nm, h.name.lstrip('_'), multi_suffix)
    return mapping, rename, pre, known


def _evaluated_once(h, pn):
    """parameter pn is read exactly once in helper h, at a place evaluated exactly once per call: not in a loop body, a lambda, a
    conditional branch, or a comprehension other than the iterable of its first generator"""
    loads = [x for x in ast.walk(h) if isinstance(x, ast.Name) and x.id == pn and isinstance(x.ctx, ast.Load)]
    if len(loads) != 1:
        return False
    target = loads[0]

    def ok(node, once):
        if node is target:
            return once
        if isinstance(node, ast.Lambda):
            return None if not any(x is target for x in ast.walk(node)) else False
        if isinstance(node, (ast.ListComp, ast.SetComp, ast.GeneratorExp, ast.DictComp)):
            if any(x is target for x in ast.walk(node.generators[0].iter)):
                return ok(node.generators[0].iter, once)
            return None if not any(x is target for x in ast.walk(node)) else False
        if isinstance(node, (ast.For, ast.While)):
            if isinstance(node, ast.For) and any(x is target for x in ast.walk(node.iter)):
                return ok(node.iter, once)
            return None if not any(x is target for x in ast.walk(node)) else False
        if isinstance(node, (ast.If, ast.IfExp)):
            if any(x is target for x in ast.walk(node.test)):
                return ok(node.test, once)
            return None if not any(x is target for x in ast.walk(node)) else False
        if isinstance(node, ast.BoolOp):
            if any(x is target for x in ast.walk(node.values[0])):
                return ok(node.values[0], once)
            return None if not any(x is target for x in ast.walk(node)) else False
        for ch in ast.iter_child_nodes(node):
            r = ok(ch, once)
            if r is not None:
                return r
        return None
    for st in h.body:
        r = ok(st, True)
        if r is not None:
            return r
    return False


def _stmt_of(scope, node):
    """(block, index, statement) of the innermost statement of `scope` containing node"""
    best = None
    for n in ast.walk(scope):
        for fld in ('body', 'orelse', 'finalbody'):
            b = getattr(n, fld, None)
            if isinstance(b, list):
                for i, s_ in enumerate(b):
                    if isinstance(s_, ast.stmt) and any(x is node for x in ast.walk(s_)):
                        # innermost: prefer the statement with the smallest span
                        if best is None or _size(s_) < _size(best[2]):
                            best = (b, i, s_)
    return best


def _size(n):
    return sum(1 for _ in ast.walk(n))


def _replace_expr(stmt, old, new):
    class R(ast.NodeTransformer):
        def visit(self, node):
            if node is old:
                return new
            return super().visit(node)
    R().visit(stmt)


def _inline_one(scope, call, h, kind, cls_name, gen, se, void_body, multi=None):
    loc = _stmt_of(scope, call)
    if loc is None:
        return False
    blk, idx, st = loc
    outer_bound = _bound_names(scope) | set(_params(scope))
    inner = scope
    for g in ast.walk(scope):
        if isinstance(g, (ast.FunctionDef, ast.AsyncFunctionDef)) and g is not scope and any(x is call for x in ast.walk(g)):
            if _size(g) < _size(inner):
                inner = g
    b = _bind(call, h, kind, _uid(), outer_bound, inner)
    if b is None:
        return False
    mapping, rename, pre, known = b
    sub = _Subst(mapping, rename)

    def conv(stmts):
        out = []
        for s_ in stmts:
            for y in _as_list(_FoldNone(known).visit(copy.deepcopy(s_)) if known else copy.deepcopy(s_)):
                out.append(sub.visit(y))
        return out
    if gen is not None:
        it, tgt, tests = gen
        if not (isinstance(st, ast.For) and st.iter is call and isinstance(st.target, ast.Name)):
            return False
        # for b in helper(x): BODY  ==>  for b in XS: if tests: BODY    (generator variable renamed to the loop variable)
        sub2 = _Subst(mapping, dict(rename, **{tgt: st.target.id}))
        st.iter = sub2.visit(copy.deepcopy(it))
        if tests:
            tt = [sub2.visit(copy.deepcopy(t_)) for t_ in tests]
            test = tt[0] if len(tt) == 1 else ast.BoolOp(op=ast.And(), values=tt)
            inner = ast.copy_location(ast.If(test=test, body=st.body, orelse=[]), st)
            st.body = [inner]
        for p_ in pre:
            ast.copy_location(p_, st)
        blk[idx:idx] = pre
        for x in blk:
            ast.fix_missing_locations(x)
        return True
    if se is not None:
        pre_s, expr = se
        top_value = (isinstance(st, (ast.Assign, ast.AugAssign, ast.Return, ast.Expr, ast.AnnAssign)) and getattr(st, 'value', None) is call) \
            or (isinstance(st, ast.For) and st.iter is call) or (isinstance(st, (ast.If, ast.While)) and st.test is call and not pre_s and not pre and isinstance(st, ast.If))
        if not top_value and (pre_s or pre):
            # an expression position: the prefix is hoisted in front of the statement when the call is evaluated unconditionally
            if not ((isinstance(st, (ast.Assign, ast.AugAssign, ast.AnnAssign, ast.Return, ast.Expr)) and _unconditional_in(st, call))
                    or (isinstance(st, ast.If) and _unconditional_in(st.test, call))):
                return False
        new_pre = [ast.copy_location(p_, st) for p_ in pre] + [ast.copy_location(x, st) if not hasattr(x, 'lineno') else x for x in conv(pre_s)]
        new_expr = sub.visit(copy.deepcopy(expr))
        if known:
            new_expr = _fold_none_expr(new_expr, known)
        _replace_expr(st, call, new_expr)
        blk[idx:idx] = new_pre
        for x in blk:
            ast.fix_missing_locations(x)
        return True
    if multi is not None:
        # several returns: the body (returns turned into assignments of a result local) is hoisted in front of the statement
        # that holds the call.  Only when the call is evaluated unconditionally and first-ish in that statement.
        if not isinstance(st, (ast.Assign, ast.AugAssign, ast.AnnAssign, ast.Return, ast.Expr, ast.If)):
            return False
        holder = st.test if isinstance(st, ast.If) else st
        if not _unconditional_in(holder, call):
            return False
        rname = 'ret__%s%s' % (h.name.lstrip('_'), _uid())
        sub.rename['__ret__'] = rname
        new_pre = [ast.copy_location(p_, st) for p_ in pre] + conv(multi)
        _replace_expr(st, call, ast.copy_location(ast.Name(id=rname, ctx=ast.Load()), call))
        blk[idx:idx] = new_pre
        for x in blk:
            ast.fix_missing_locations(x)
        return True
    # void helper: statement call only
    if not (isinstance(st, ast.Expr) and st.value is call):
        return False
    new_body = [ast.copy_location(p_, st) for p_ in pre] + conv(void_body)
    if not new_body:
        new_body = [ast.copy_location(ast.Pass(), st)]
    blk[idx:idx + 1] = new_body
    for x in blk:
        ast.fix_missing_locations(x)
    return True


def _unconditional_in(holder, call):
    """the call is evaluated whenever the holder is: not under a short-circuit operand (other than the first), a conditional
    expression branch, a comprehension or a lambda"""
    def walk(n, cond):
        if n is call:
            return not cond
        if isinstance(n, (ast.ListComp, ast.SetComp, ast.DictComp)) and any(x is call for x in ast.walk(n.generators[0].iter)):
            return walk(n.generators[0].iter, cond)        # the iterable of the first generator is evaluated once, at once
        if isinstance(n, (ast.Lambda, ast.ListComp, ast.SetComp, ast.DictComp, ast.GeneratorExp)):
            return None if not any(x is call for x in ast.walk(n)) else False
        if isinstance(n, ast.BoolOp):
            for k, v in enumerate(n.values):
                r = walk(v, cond or k > 0)
                if r is not None:
                    return r
            return None
        if isinstance(n, ast.IfExp):
            r = walk(n.test, cond)
            if r is not None:
                return r
            for v in (n.body, n.orelse):
                r = walk(v, True)
                if r is not None:
                    return r
            return None
        for ch in ast.iter_child_nodes(n):
            if isinstance(ch, ast.stmt):
                continue
            r = walk(ch, cond)
            if r is not None:
                return r
        return None
    return bool(walk(holder, False))


def _fold_none_expr(e, known):
    class F(ast.NodeTransformer):
        def visit_IfExp(self, node):
            self.generic_visit(node)
            t = node.test
            if isinstance(t, ast.Compare) and len(t.ops) == 1 and isinstance(t.left, ast.Name) and t.left.id in known \
                    and isinstance(t.comparators[0], ast.Constant) and t.comparators[0].value is None:
                v = known[t.left.id] if isinstance(t.ops[0], ast.Is) else (not known[t.left.id] if isinstance(t.ops[0], ast.IsNot) else None)
                if v is True:
                    return node.body
                if v is False:
                    return node.orelse
            return node
    return F().visit(e)


# the nested helpers of the code base as the rules were written for it: never inlined under these names (under other names the
# structural tests below decide).  Inlining exists to undo NEW extractions, not to dissolve the helpers the rules look up.
NATIVE_HELPERS = {'batchDefeat', 'breakTie', 'calcQuota', 'countComplete', 'countElection', 'default', 'dist', 'distributeVotes',
                  'findCertainLosers', 'hasQuota', 'hasSurplus', 'iterate', 'iterateStep', 'kw_meekHill', 'kw_meekNZ1A', 'kw_meekOpenSTV',
                  'kw_warren', 'transfer'}


def _role_like(container, h):
    """local helpers that the rules know by what they do (tie-break, ballot walk, quota, election predicate, completion test, iteration,
    sure-loser scan, vote distribution, keep/transfer split): never inlined"""
    ps = _params(h)
    src = ast.unparse(h)
    rets = [x for x in _own_walk(h) if isinstance(x, ast.Return) and x.value is not None]
    if h.name in NATIVE_HELPERS:
        return True
    if any(isinstance(x, ast.Call) and isinstance(x.func, ast.Attribute) and x.func.attr == 'byTieOrder' for x in ast.walk(h)) or 'tie' in h.name.lower():
        return True
    if any(isinstance(x, ast.Attribute) and x.attr == 'advance' for x in ast.walk(h)):
        return True
    # result assigned to <x>.quota
    for x in ast.walk(container):
        if isinstance(x, ast.Assign) and isinstance(x.value, ast.Call) and isinstance(x.value.func, ast.Name) and x.value.func.id == h.name \
                and any(isinstance(t, ast.Attribute) and t.attr == 'quota' for t in x.targets):
            return True
    if len(ps) == 1 and rets and all(isinstance(r.value, ast.Compare) for r in rets) and 'quota' in src:
        return True
    if any(isinstance(r.value, ast.Tuple) for r in rets) and any(
            isinstance(x, (ast.For, ast.While)) or (isinstance(x, ast.Call) and isinstance(x.func, ast.Attribute) and x.func.attr in ('elect', 'defeat', 'unpend', 'logAction', 'log'))
            for x in ast.walk(h)):
        return True
    if any(isinstance(x, ast.For) and any(isinstance(y, ast.Break) for y in ast.walk(x)) for x in ast.walk(h)) and rets:
        return True
    if not ps and any(isinstance(x, ast.AugAssign) and isinstance(x.target, ast.Attribute) and x.target.attr == 'vote' for x in ast.walk(h)):
        return True
    # a pure selector / producer: computes its result with a loop and changes no candidate's status (sure-loser scans, low/high
    # candidate searches).  The rules look such helpers up by what they return; they stay functions.
    if rets and any(isinstance(x, (ast.For, ast.While)) for x in ast.walk(h)) and any(
            isinstance(x, ast.Call) and isinstance(x.func, ast.Attribute) and x.func.attr in ('hopeful', 'elected', 'pending', 'eligible', 'select', 'defeated')
            for x in ast.walk(h)) and not any(
            isinstance(x, ast.Call) and isinstance(x.func, ast.Attribute) and x.func.attr in ('elect', 'defeat', 'unpend', 'pend', 'unelect', 'logAction', 'newRound')
            for x in ast.walk(h)):
        return True
    # zero-parameter boolean used as a loop / if test (countComplete) - a predicate: it changes nobody's status
    if not ps and rets and not any(isinstance(x, ast.Call) and isinstance(x.func, ast.Attribute) and x.func.attr in ('elect', 'defeat', 'unpend', 'unelect')
                                   for x in ast.walk(h)):
        for x in ast.walk(container):
            if isinstance(x, (ast.While, ast.If)) and any(isinstance(y, ast.Call) and isinstance(y.func, ast.Name) and y.func.id == h.name for y in ast.walk(x.test)):
                return True
    return False


# ---------------------------------------------------------------------------
# closure <-> method: a private method / module function used by ONE function only is nested back into it
# ---------------------------------------------------------------------------

def _free_loads(fn):
    """names loaded in fn (nested scopes included) that fn does not bind itself"""
    bound = set(_params(fn)) | _bound_names(fn)
    if fn.args.vararg:
        bound.add(fn.args.vararg.arg)
    if fn.args.kwarg:
        bound.add(fn.args.kwarg.arg)
    return {x.id for x in ast.walk(fn) if isinstance(x, ast.Name) and isinstance(x.ctx, ast.Load)} - bound


def helpers_to_closures(tree):
    """A private method `_m(self, ...)` whose only uses in the module are calls `self._m(...)` inside one method M of the same class
    (its nested functions included), or a private module-level function `_f(...)` whose only uses are calls inside one function M,
    is moved into M as a nested function (first statement after the docstring); `self._m(` becomes `_m(`.  The rules were written
    for the closure style of the rule modules (helpers nested in count()); this makes the method style and the module-function style
    look the same.  Not done when a free name of the helper would be captured by a local of M, for decorated helpers, for names
    listed as anchors, or when M binds the helper's name."""
    moved = 0
    containers = [(tree, None)] + [(c, c.name) for c in ast.walk(tree) if isinstance(c, ast.ClassDef)]
    for cont, cls_name in containers:
        fns = [s_ for s_ in cont.body if isinstance(s_, ast.FunctionDef)]
        for h in list(fns):
            nm = h.name
            base = _unmangle(nm, cls_name) if cls_name else nm
            if not base.startswith('_') or (base.startswith('__') and base.endswith('__')) or base in ANCHOR_METHODS or h.decorator_list:
                continue
            if h.args.vararg or h.args.kwarg:
                continue
            if any(isinstance(x, (ast.Global, ast.Nonlocal, ast.Yield, ast.YieldFrom, ast.Await)) for x in ast.walk(h)):
                continue
            selfn = None
            if cls_name:
                if not h.args.args:
                    continue
                selfn = h.args.args[0].arg
            # every reference in the whole module
            users = {}
            okrefs = True
            for m in [x for x in ast.walk(tree) if isinstance(x, ast.FunctionDef)]:
                pass
            for top in (cont.body if cls_name else tree.body):
                for x in ast.walk(top):
                    ref = None
                    if cls_name:
                        if isinstance(x, ast.Attribute) and x.attr in (nm, base):
                            ref = x
                    else:
                        if isinstance(x, ast.Name) and x.id == nm:
                            ref = x
                    if ref is not None:
                        users.setdefault(id(top), [top, []])[1].append(ref)
            if cls_name:
                # references outside the class body (other classes of the module) disqualify
                outside = [x for x in ast.walk(tree) if isinstance(x, ast.Attribute) and x.attr in (nm, base)
                           and not any(x is y for y in ast.walk(cont))]
                if outside:
                    continue
            if len(users) != 1:
                continue
            top, refs = next(iter(users.values()))
            if not cls_name and isinstance(top, ast.ClassDef):
                # a module-level helper used by one method of one class
                ms = [m_ for m_ in top.body if isinstance(m_, ast.FunctionDef) and any(any(r_ is x for x in ast.walk(m_)) for r_ in refs)]
                if len(ms) == 1 and all(any(r_ is x for x in ast.walk(ms[0])) for r_ in refs):
                    top = ms[0]
            if top is h or not isinstance(top, ast.FunctionDef):
                continue
            M = top
            calls = [c for c in ast.walk(M) if isinstance(c, ast.Call) and any(c.func is r for r in refs)]
            if len(calls) != len(refs) or not calls:
                continue
            if cls_name:
                if not M.args.args or M.decorator_list:
                    continue
                mself = M.args.args[0].arg
                if any(not (isinstance(c.func.value, ast.Name) and c.func.value.id == mself) for c in calls):
                    continue
                # self of M must still mean self where the call sits (not rebound, not shadowed by a nested def's parameter)
                if any(isinstance(x, ast.arg) and x.arg == mself for g in ast.walk(M) if isinstance(g, (ast.FunctionDef, ast.Lambda)) and g is not M for x in ast.walk(g.args)):
                    continue
            m_bound = _bound_names(M) | set(_params(M))
            for g in ast.walk(M):
                if isinstance(g, ast.FunctionDef) and g is not M:
                    m_bound |= {g.name}
            if nm in m_bound or base in m_bound:
                continue
            free = _free_loads(h) - ({selfn} if selfn else set())
            if selfn:
                # the helper's own `self` parameter becomes the free name of M's receiver
                pass
            if free & (m_bound - ({mself} if cls_name else set())):
                continue
            # move
            new = copy.deepcopy(h)
            new.name = base if cls_name else nm
            if cls_name:
                new.args.args = new.args.args[1:]
                if selfn != mself:
                    _Subst({}, {selfn: mself}).visit(new)
                    # _Subst does not descend into nested defs: leave those helpers alone
                    if any(isinstance(x, ast.FunctionDef) for x in ast.walk(new) if x is not new):
                        continue
                for c in calls:
                    c.func = ast.copy_location(ast.Name(id=new.name, ctx=ast.Load()), c.func)
            at = 1 if (M.body and isinstance(M.body[0], ast.Expr) and isinstance(M.body[0].value, ast.Constant) and isinstance(M.body[0].value.value, str)) else 0
            M.body.insert(at, new)
            cont.body.remove(h)
            moved += 1
    return moved


def eliminate_copies(tree):
    """`a = b` where a and b are locals bound exactly once in the function (b not a parameter, a not used in nested functions): b is
    renamed to a everywhere and the copy dropped.  Left behind by inlining `a = helper()` whose result is the helper's local."""
    n = 0
    for fn in [x for x in ast.walk(tree) if isinstance(x, (ast.FunctionDef, ast.AsyncFunctionDef))]:
        changed = True
        while changed:
            changed = False
            stores = {}
            for x in _own_walk(fn):
                if isinstance(x, ast.Name) and isinstance(x.ctx, (ast.Store, ast.Del)):
                    stores.setdefault(x.id, []).append(x)
            params = set(_params(fn))
            nested_names = {x.id for g in ast.walk(fn) if isinstance(g, (ast.FunctionDef, ast.Lambda)) and g is not fn for x in ast.walk(g) if isinstance(x, ast.Name)}
            for st in [x for x in _own_walk(fn) if isinstance(x, ast.Assign)]:
                if len(st.targets) != 1 or not isinstance(st.targets[0], ast.Name) or not isinstance(st.value, ast.Name):
                    continue
                a, b = st.targets[0].id, st.value.id
                if a == b or len(stores.get(a, [])) != 1 or len(stores.get(b, [])) != 1 or b in params or a in params:
                    continue
                if a in nested_names or b in nested_names:
                    continue
                # the definition of b must be a plain statement of the same block, earlier than the copy (same control context)
                loc = _locate(fn, st)
                if loc is None:
                    continue
                blk, i = loc
                bdef = stores[b][0]
                if not any(isinstance(s_, (ast.Assign, ast.AnnAssign)) and any(x is bdef for x in ast.walk(s_)) for s_ in blk[:i]):
                    continue
                # a must not be read before the copy in this block (it is bound once, here)
                for x in _own_walk(fn):
                    if isinstance(x, ast.Name) and x.id == b:
                        x.id = a
                blk[i:i + 1] = [] if len(blk) > 1 else [ast.copy_location(ast.Pass(), st)]
                n += 1
                changed = True
                break
    return n


# ---------------------------------------------------------------------------
# cross-module: small void helper methods inherited from a base class, inlined at `self.helper(...)` statement calls
# ---------------------------------------------------------------------------

def _unroll_kwargs_loops(body, kwname, items):
    """`for k, v in KW.items(): BODY` with KW bound to the keyword arguments of one call: BODY repeated per keyword, k -> the name
    (a string constant), v -> the argument expression.  Returns the new statement list, or None when KW is used in any other way."""
    out = []
    for st in body:
        if isinstance(st, ast.For) and isinstance(st.iter, ast.Call) and isinstance(st.iter.func, ast.Attribute) and st.iter.func.attr == 'items' \
                and isinstance(st.iter.func.value, ast.Name) and st.iter.func.value.id == kwname and not st.iter.args and not st.orelse \
                and isinstance(st.target, ast.Tuple) and len(st.target.elts) == 2 and all(isinstance(e, ast.Name) for e in st.target.elts) \
                and not any(isinstance(x, (ast.Break, ast.Continue)) for x in ast.walk(st)):
            k, v = st.target.elts[0].id, st.target.elts[1].id
            if any(isinstance(x, ast.Name) and x.id in (k, v) and isinstance(x.ctx, ast.Store) for b_ in st.body for x in ast.walk(b_)):
                return None
            for name, val in items:
                sub = _Subst({k: ast.Constant(value=name), v: val}, {})
                for b_ in st.body:
                    out.append(sub.visit(copy.deepcopy(b_)))
        else:
            out.append(st)
    if any(isinstance(x, ast.Name) and x.id == kwname for s_ in out for x in ast.walk(s_)):
        return None
    return out


def _unroll_vararg_loops(body, vname, items):
    """`for a, b in ARGS: BODY` / `for x in ARGS: BODY` with ARGS the *args of the helper bound to the extra positional arguments of one
    call (for a tuple target: each argument a tuple display of that arity): BODY repeated per argument.  None when ARGS is used otherwise."""
    out = []
    for st in body:
        if isinstance(st, ast.For) and isinstance(st.iter, ast.Name) and st.iter.id == vname and not st.orelse \
                and not any(isinstance(x, (ast.Break, ast.Continue)) for x in ast.walk(st)):
            if isinstance(st.target, ast.Name):
                names = [st.target.id]
                rows = [[a] for a in items]
            elif isinstance(st.target, ast.Tuple) and all(isinstance(e, ast.Name) for e in st.target.elts):
                names = [e.id for e in st.target.elts]
                if not all(isinstance(a, (ast.Tuple, ast.List)) and len(a.elts) == len(names) for a in items):
                    return None
                rows = [list(a.elts) for a in items]
            else:
                return None
            if any(isinstance(x, ast.Name) and x.id in names and isinstance(x.ctx, ast.Store) for b_ in st.body for x in ast.walk(b_)):
                return None
            for row in rows:
                sub = _Subst(dict(zip(names, row)), {})
                for b_ in st.body:
                    out.append(sub.visit(copy.deepcopy(b_)))
        else:
            out.append(st)
    if any(isinstance(x, ast.Name) and x.id == vname for s_ in out for x in ast.walk(s_)):
        return None
    return out


def inline_inherited_helpers(trees):
    """trees: {module name: module ast}.  A method H of class B that
         - is defined by exactly one class of the package and is not an anchor / dunder / decorated method,
         - returns no value, has no nested defs, is at most 12 statements long,
       is inlined at every expression-statement call `self.H(...)` made from a method of a class that inherits from B (by base-class
       NAME, unique in the package), B itself included.  **kwargs of H are bound to the keyword arguments of the call and loops over
       `kwargs.items()` are unrolled; a local of H bound once to an attribute path of self is substituted.  H itself stays.
       (The per-module inliner handles private helpers of one class; this one undoes 'pull the repeated statements up into the base
       class'.)  Returns the number of call sites inlined."""
    classes = {}        # simple name -> [ClassDef]
    for t in trees.values():
        for c in ast.walk(t):
            if isinstance(c, ast.ClassDef):
                classes.setdefault(c.name, []).append(c)

    def bases_of(c, seen=()):
        out = []
        for b in c.bases:
            nm = b.id if isinstance(b, ast.Name) else (b.attr if isinstance(b, ast.Attribute) else None)
            if nm and len(classes.get(nm, [])) == 1 and nm not in seen:
                bc = classes[nm][0]
                out.append(bc)
                out += bases_of(bc, seen + (nm,))
        return out

    defs = {}           # method name -> [(ClassDef, FunctionDef)]
    for cs in classes.values():
        for c in cs:
            for s_ in c.body:
                if isinstance(s_, ast.FunctionDef):
                    defs.setdefault(s_.name, []).append((c, s_))
    total = 0
    done = {}
    for cs in classes.values():
        for c in cs:
            anc = bases_of(c)
            if not anc:
                continue
            own = {s_.name for s_ in c.body if isinstance(s_, ast.FunctionDef)}
            for M in [s_ for s_ in c.body if isinstance(s_, ast.FunctionDef)]:
                if not M.args.args:
                    continue
                mself = M.args.args[0].arg
                for call in [x for x in ast.walk(M) if isinstance(x, ast.Call)]:
                    f = call.func
                    if not (isinstance(f, ast.Attribute) and isinstance(f.value, ast.Name) and f.value.id == mself):
                        continue
                    nm = f.attr
                    if nm in own or nm in ANCHOR_METHODS or (nm.startswith('__')) or len(defs.get(nm, [])) != 1:
                        continue
                    bc, h = defs[nm][0]
                    if bc not in anc or h.decorator_list or not h.args.args:
                        continue
                    if _returns_value(h) or any(isinstance(x, (ast.FunctionDef, ast.ClassDef, ast.Lambda, ast.Yield, ast.YieldFrom, ast.Global, ast.Nonlocal))
                                                 for x in ast.walk(h) if x is not h):
                        continue
                    body = [s_ for s_ in h.body if not (isinstance(s_, ast.Expr) and isinstance(s_.value, ast.Constant) and isinstance(s_.value.value, str))]
                    if len(body) > 12:
                        continue
                    loc = _stmt_of(M, call)
                    if loc is None:
                        continue
                    blk, idx, st = loc
                    if not (isinstance(st, ast.Expr) and st.value is call):
                        continue
                    if any(isinstance(a, ast.Starred) for a in call.args) or any(k.arg is None for k in call.keywords):
                        continue
                    body = copy.deepcopy(body)
                    hself = h.args.args[0].arg
                    params = [a.arg for a in h.args.args[1:]] + [a.arg for a in h.args.kwonlyargs]
                    kws = list(call.keywords)
                    if h.args.kwarg:
                        extra = [(k.arg, k.value) for k in kws if k.arg not in params]
                        kws = [k for k in kws if k.arg in params]
                        body = _unroll_kwargs_loops(body, h.args.kwarg.arg, extra)
                        if body is None:
                            continue
                    elif any(k.arg not in params for k in kws):
                        continue
                    # bind the named parameters
                    args = {}
                    ok = True
                    extra_pos = []
                    for i, a in enumerate(call.args):
                        if i >= len(h.args.args) - 1:
                            if h.args.vararg:
                                extra_pos.append(a)
                                continue
                            ok = False
                            break
                        args[h.args.args[1 + i].arg] = a
                    if h.args.vararg and ok:
                        body = _unroll_vararg_loops(body, h.args.vararg.arg, extra_pos)
                        if body is None:
                            continue
                    for k in kws:
                        if k.arg in args:
                            ok = False
                        args[k.arg] = k.value
                    pos = h.args.args
                    for j, d in enumerate(h.args.defaults):
                        args.setdefault(pos[len(pos) - len(h.args.defaults) + j].arg, d)
                    for a_, d in zip(h.args.kwonlyargs, h.args.kw_defaults):
                        if d is not None:
                            args.setdefault(a_.arg, d)
                    if not ok or set(args) != set(params):
                        continue
                    void_body = _early_return_to_else(body)
                    if void_body is None:
                        continue
                    hb = set()
                    for s_ in void_body:
                        for x in ast.walk(s_):
                            if isinstance(x, ast.Name) and isinstance(x.ctx, (ast.Store, ast.Del)):
                                hb.add(x.id)
                    suffix = _uid()
                    mapping, rename, pre = {}, {}, []
                    if hself != mself:
                        rename[hself] = mself
                    for pn in params:
                        a = args[pn]
                        simple = isinstance(a, (ast.Name, ast.Constant)) or (isinstance(a, ast.Attribute) and isinstance(a.value, ast.Name))
                        if simple and pn not in hb:
                            mapping[pn] = a
                        else:
                            new = '%s__%s%s' % (pn, nm.lstrip('_'), suffix)
                            rename[pn] = new
                            pre.append(ast.copy_location(ast.Assign(targets=[ast.Name(id=new, ctx=ast.Store())], value=a), st))
                    # locals bound once to an attribute path of self: substituted (the path is read where the local was)
                    stores = {}
                    for s_ in void_body:
                        for x in ast.walk(s_):
                            if isinstance(x, ast.Name) and isinstance(x.ctx, ast.Store):
                                stores[x.id] = stores.get(x.id, 0) + 1
                    kept = []
                    for s_ in void_body:
                        if isinstance(s_, ast.Assign) and len(s_.targets) == 1 and isinstance(s_.targets[0], ast.Name) and stores.get(s_.targets[0].id) == 1 \
                                and s_.targets[0].id not in params and _self_path(s_.value, hself):
                            mapping[s_.targets[0].id] = _Subst({}, rename).visit(copy.deepcopy(s_.value))
                            continue
                        kept.append(s_)
                    for l in hb:
                        if l not in rename and l not in mapping and l not in params:
                            rename[l] = '%s__%s%s' % (l, nm.lstrip('_'), suffix)
                    sub = _Subst(mapping, rename)
                    new_body = pre + [sub.visit(s_) for s_ in kept]
                    for x in new_body:
                        for y in ast.walk(x):
                            ast.copy_location(y, st)
                    blk[idx:idx + 1] = new_body or [ast.copy_location(ast.Pass(), st)]
                    total += 1
                    done[nm] = done.get(nm, 0) + 1
    # a helper every reference to which was inlined is dropped (its body would otherwise be judged out of context)
    for nm, k in done.items():
        left = sum(1 for t in trees.values() for x in ast.walk(t) if (isinstance(x, ast.Attribute) and x.attr == nm)
                   or (isinstance(x, ast.Constant) and x.value == nm))
        if left == 0:
            bc, h = defs[nm][0]
            bc.body.remove(h)
            if not bc.body:
                bc.body.append(ast.copy_location(ast.Pass(), h))
    return total


def _self_path(e, selfn):
    while isinstance(e, ast.Attribute):
        e = e.value
    return isinstance(e, ast.Name) and e.id == selfn


def void_early_returns(tree):
    """in every function that returns no value: `if c: A; return` + REST  ==>  `if c: A else: REST` (the guard-clause spelling of a
    conditional body; with the if-normaliser `if c: return` + REST becomes `if not c: REST`).  Functions whose returns sit in
    loops / try / with are left alone."""
    n = 0
    for fn in [x for x in ast.walk(tree) if isinstance(x, (ast.FunctionDef, ast.AsyncFunctionDef))]:
        if _returns_value(fn) or any(isinstance(x, (ast.Yield, ast.YieldFrom)) for x in _own_walk(fn)):
            continue
        rets = [x for x in _own_walk(fn) if isinstance(x, ast.Return)]
        if not rets or (len(rets) == 1 and fn.body and fn.body[-1] is rets[0]):
            continue
        nb = _early_return_to_else(list(fn.body))
        if nb is None:
            continue
        fn.body = nb or [ast.copy_location(ast.Pass(), fn)]
        for x in fn.body:
            ast.fix_missing_locations(x)
        n += 1
    return n


def unroll_literal_loops(tree):
    """`for x in (A, B, C): BODY` over a display of at most six simple expressions (names, attribute paths, constants), BODY without
    break / continue / rebinding of x and no else clause: BODY repeated with x replaced.  (A table of layers walked in a loop is the
    chain of statements the rules were written for.)"""
    n = 0
    changed = True
    while changed:
        changed = False
        for node in ast.walk(tree):
            for fld in ('body', 'orelse', 'finalbody'):
                blk = getattr(node, fld, None)
                if not isinstance(blk, list):
                    continue
                for i, st in enumerate(blk):
                    if not (isinstance(st, ast.For) and isinstance(st.target, ast.Name) and isinstance(st.iter, (ast.Tuple, ast.List)) and not st.orelse
                            and 1 <= len(st.iter.elts) <= 6):
                        continue
                    if not all(isinstance(e, (ast.Name, ast.Constant)) or (isinstance(e, ast.Attribute) and _self_path_any(e)) for e in st.iter.elts):
                        continue
                    x = st.target.id
                    if any(isinstance(y, (ast.Break, ast.Continue, ast.FunctionDef, ast.Lambda)) for b_ in st.body for y in ast.walk(b_)):
                        continue
                    if any(isinstance(y, ast.Name) and y.id == x and isinstance(y.ctx, (ast.Store, ast.Del)) for b_ in st.body for y in ast.walk(b_)):
                        continue
                    # x must not be used after the loop in the same function (it would keep the last element)
                    new = []
                    for e in st.iter.elts:
                        sub = _Subst({x: e}, {})
                        for b_ in st.body:
                            c = sub.visit(copy.deepcopy(b_))
                            new.append(c)
                    for c in new:
                        for y in ast.walk(c):
                            if not hasattr(y, 'lineno') and isinstance(y, (ast.expr, ast.stmt)):
                                ast.copy_location(y, st)
                        ast.fix_missing_locations(c)
                    blk[i:i + 1] = new
                    n += 1
                    changed = True
                    break
                if changed:
                    break
            if changed:
                break
    return n


def _self_path_any(e):
    while isinstance(e, ast.Attribute):
        e = e.value
    return isinstance(e, ast.Name)


def constant_attr_access(tree):
    """`setattr(x, 'name', v)` (a statement, the name a string constant that is an identifier) ==> `x.name = v`;
    `getattr(x, 'name')` (two arguments) ==> `x.name`.  What an unrolled loop over attribute names leaves behind."""
    n = 0

    class T(ast.NodeTransformer):
        def visit_Expr(self, node):
            self.generic_visit(node)
            c = node.value
            if isinstance(c, ast.Call) and isinstance(c.func, ast.Name) and c.func.id == 'setattr' and len(c.args) == 3 and not c.keywords \
                    and isinstance(c.args[1], ast.Constant) and isinstance(c.args[1].value, str) and c.args[1].value.isidentifier() \
                    and not c.args[1].value.startswith('__'):
                nonlocal n
                n += 1
                tgt = ast.Attribute(value=c.args[0], attr=c.args[1].value, ctx=ast.Store())
                return ast.copy_location(ast.Assign(targets=[ast.copy_location(tgt, node)], value=c.args[2]), node)
            return node

        def visit_Call(self, node):
            self.generic_visit(node)
            if isinstance(node.func, ast.Name) and node.func.id == 'getattr' and len(node.args) == 2 and not node.keywords \
                    and isinstance(node.args[1], ast.Constant) and isinstance(node.args[1].value, str) and node.args[1].value.isidentifier() \
                    and not node.args[1].value.startswith('__'):
                nonlocal n
                n += 1
                return ast.copy_location(ast.Attribute(value=node.args[0], attr=node.args[1].value, ctx=ast.Load()), node)
            return node
    T().visit(tree)
    ast.fix_missing_locations(tree)
    return n


def _is_pure(e):
    """an expression without side effects: names, constants, attribute reads, arithmetic, comparisons, boolean operators, subscripts,
    len() / abs() / min / max / sum of pure arguments, displays, comprehensions of pure parts, calls of zero-argument selectors are NOT"""
    for x in ast.walk(e):
        if isinstance(x, ast.Call):
            if not (isinstance(x.func, ast.Name) and x.func.id in ('len', 'abs', 'bool', 'int', 'str', 'min', 'max', 'sum', 'sorted', 'list', 'tuple', 'set')):
                return False
        if isinstance(x, (ast.Await, ast.Yield, ast.YieldFrom, ast.NamedExpr, ast.Lambda)):
            return False
    return True


def fuse_boolean_results(tree):
    """`if A: r = X else: r = False` (or `r = True` / the mirrored forms) immediately followed by `if r: ...`, r used nowhere else:
    the two statements become `if A and X: ...` (`if A or X`, ...).  What inlining a small predicate helper into an if-test leaves."""
    n = 0
    for fn in [x for x in ast.walk(tree) if isinstance(x, (ast.FunctionDef, ast.AsyncFunctionDef))]:
        changed = True
        while changed:
            changed = False
            for node in ast.walk(fn):
                for fld in ('body', 'orelse', 'finalbody'):
                    blk = getattr(node, fld, None)
                    if not isinstance(blk, list):
                        continue
                    for i in range(len(blk) - 1):
                        a, b = blk[i], blk[i + 1]
                        if not (isinstance(a, ast.If) and len(a.body) == 1 and len(a.orelse) == 1 and isinstance(b, ast.If) and isinstance(b.test, ast.Name)):
                            continue
                        r = b.test.id
                        sa, sb = a.body[0], a.orelse[0]
                        if not all(isinstance(s_, ast.Assign) and len(s_.targets) == 1 and isinstance(s_.targets[0], ast.Name) and s_.targets[0].id == r for s_ in (sa, sb)):
                            continue
                        occ = [x for x in ast.walk(fn) if isinstance(x, ast.Name) and x.id == r]
                        if len(occ) != 3:
                            continue
                        va, vb = sa.value, sb.value

                        def const(v):
                            return v.value if isinstance(v, ast.Constant) and isinstance(v.value, bool) else None
                        if const(vb) is False and _is_pure(va):
                            test = ast.BoolOp(op=ast.And(), values=[a.test, va])
                        elif const(va) is True and _is_pure(vb):
                            test = ast.BoolOp(op=ast.Or(), values=[a.test, vb])
                        elif const(va) is False and _is_pure(vb):
                            test = ast.BoolOp(op=ast.And(), values=[negate(a.test), vb])
                        elif const(vb) is True and _is_pure(va):
                            test = ast.BoolOp(op=ast.Or(), values=[negate(a.test), va])
                        else:
                            continue
                        # flatten nested and/or of the same kind
                        vals = []
                        for v in test.values:
                            if isinstance(v, ast.BoolOp) and type(v.op) is type(test.op):
                                vals += v.values
                            else:
                                vals.append(v)
                        test.values = vals
                        b.test = ast.copy_location(test, a)
                        ast.fix_missing_locations(b)
                        del blk[i]
                        n += 1
                        changed = True
                        break
                    if changed:
                        break
                if changed:
                    break
    return n


def forward_single_use_temps(tree):
    """`t = <pure expression>` immediately followed by a statement whose head (test of an if/while, value of an assignment / return /
    expression statement, iterable of a for) reads t exactly once, t bound once and read nowhere else: the expression takes t's
    place.  (Not for `while` tests - evaluated repeatedly - nor when the statement re-binds a name the expression reads.)"""
    n = 0
    for fn in [x for x in ast.walk(tree) if isinstance(x, (ast.FunctionDef, ast.AsyncFunctionDef))]:
        changed = True
        while changed:
            changed = False
            for node in ast.walk(fn):
                for fld in ('body', 'orelse', 'finalbody'):
                    blk = getattr(node, fld, None)
                    if not isinstance(blk, list):
                        continue
                    for i in range(len(blk) - 1):
                        a, b = blk[i], blk[i + 1]
                        if not (isinstance(a, ast.Assign) and len(a.targets) == 1 and isinstance(a.targets[0], ast.Name) and _is_pure(a.value)
                                and not isinstance(a.value, (ast.Name, ast.Constant))):
                            continue
                        t = a.targets[0].id
                        if '__' not in t:
                            continue        # only temporaries introduced by inlining (name__helper_N): named locals of the source stay
                        occ = [x for x in ast.walk(fn) if isinstance(x, ast.Name) and x.id == t]
                        if len(occ) != 2:
                            continue
                        if isinstance(b, ast.If):
                            head = b.test
                        elif isinstance(b, (ast.Assign, ast.AugAssign, ast.Return, ast.Expr)) and b.value is not None:
                            head = b.value
                        elif isinstance(b, ast.For):
                            head = b.iter
                        else:
                            continue
                        use = [x for x in ast.walk(head) if isinstance(x, ast.Name) and x.id == t and isinstance(x.ctx, ast.Load)]
                        if len(use) != 1 or any(isinstance(p, (ast.Lambda, ast.ListComp, ast.SetComp, ast.DictComp, ast.GeneratorExp))
                                                and any(y is use[0] for y in ast.walk(p)) for p in ast.walk(head)):
                            continue
                        _replace_expr(b, use[0], copy.deepcopy(a.value))
                        ast.fix_missing_locations(b)
                        del blk[i]
                        n += 1
                        changed = True
                        break
                    if changed:
                        break
                if changed:
                    break
    return n
