"""Behaviour-preserving whole-tree transformations used as benign twins by the self-test:

  alpha     every local variable (incl. the conventional aliases E, C, V, V0, V1), every nested helper function and
            every function-local class of every module is renamed consistently (suffix _q); parameters, attributes,
            globals and comprehension/lambda variables keep their names
  reformat  every module is re-emitted by ast.unparse (comments dropped, layout and quoting normalised)
  ifswap    every `if X: A else: B` (B not an elif chain) becomes `if not X: B else: A` (and `if not X` loses its not)
  mirror    every single comparison `a OP b` becomes `b OP' a` (a < b -> b > a, a == b -> b == a, ...)

A check that reports a violation on such a tree which it does not report on the original depends on spelling or
layout, not on behaviour.  (The pinned test suite passes on both transformed trees.)"""
import ast, os, shutil, sys, symtable
KEEP=set(x for x in os.environ.get('ALPHA_KEEP','').split(',') if x)
DO_PARAMS=False

def rename_module(src, fname, suffix='_q', do_funcs=True, do_locals=True):
    tree = ast.parse(src)
    # collect per-function local names via ast: names assigned in function (Store), excluding global/nonlocal decls, params kept
    class Scope:
        def __init__(self, node, parent):
            self.node=node; self.parent=parent; self.locals=set(); self.params=set(); self.globals=set(); self.nonlocals=set(); self.nested=set()
    scopes={}
    def build(node, parent):
        sc=Scope(node,parent); scopes[node]=sc
        a=node.args
        for x in a.posonlyargs+a.args+a.kwonlyargs: sc.params.add(x.arg)
        if a.vararg: sc.params.add(a.vararg.arg)
        if a.kwarg: sc.params.add(a.kwarg.arg)
        def walk(n):
            for c in ast.iter_child_nodes(n):
                if isinstance(c,(ast.FunctionDef,ast.AsyncFunctionDef)):
                    sc.nested.add(c.name); build(c,sc); continue
                if isinstance(c,ast.Lambda):
                    continue
                if isinstance(c,ast.ClassDef):
                    sc.locals.add(c.name);
                    continue
                if isinstance(c,(ast.ListComp,ast.SetComp,ast.DictComp,ast.GeneratorExp)):
                    # comprehension targets are their own scope: leave alone; but walk iter of first generator... skip entirely
                    walk(c); continue
                if isinstance(c,ast.Global): sc.globals|=set(c.names)
                if isinstance(c,ast.Nonlocal): sc.nonlocals|=set(c.names)
                if isinstance(c,ast.Name) and isinstance(c.ctx,(ast.Store,ast.Del)):
                    sc.locals.add(c.id)
                if isinstance(c,ast.ExceptHandler) and c.name: sc.locals.add(c.name)
                if isinstance(c,(ast.Import,ast.ImportFrom)):
                    for al in c.names: sc.globals.add((al.asname or al.name).split('.')[0])
                walk(c)
        for st in node.body: 
            if isinstance(st,(ast.FunctionDef,ast.AsyncFunctionDef)):
                sc.nested.add(st.name); build(st,sc)
            else:
                if isinstance(st,ast.ClassDef): sc.locals.add(st.name); continue
                walkroot(st, walk, sc)
        return sc
    def walkroot(st, walk, sc):
        # handle st itself
        if isinstance(st,ast.Global): sc.globals|=set(st.names)
        if isinstance(st,ast.Nonlocal): sc.nonlocals|=set(st.names)
        if isinstance(st,(ast.Import,ast.ImportFrom)):
            for al in st.names: sc.globals.add((al.asname or al.name).split('.')[0])
        walk(st)
    def top(n):
        for c in ast.iter_child_nodes(n):
            if isinstance(c,(ast.FunctionDef,ast.AsyncFunctionDef)): build(c,None)
            elif isinstance(c,ast.ClassDef): top(c)
    top(tree)
    # comprehension variable names: avoid renaming anything that is also a comprehension target anywhere in the function (simplest safe rule)
    def comp_targets(fn):
        out=set()
        for n in ast.walk(fn):
            if isinstance(n,(ast.ListComp,ast.SetComp,ast.DictComp,ast.GeneratorExp)):
                for g in n.generators:
                    for t in ast.walk(g.target):
                        if isinstance(t,ast.Name): out.add(t.id)
            if isinstance(n,ast.Lambda):
                for a in n.args.args: out.add(a.arg)
        return out
    # renaming: resolve each Name to its binding scope
    # keyword names used in any call of the module: a parameter that some call passes by keyword keeps its name
    kw_used=set()
    for n in ast.walk(tree):
        if isinstance(n,ast.Call):
            for k in n.keywords:
                if k.arg: kw_used.add(k.arg)
    def resolve(name, sc):
        while sc is not None:
            if name in sc.globals: return None
            if name in sc.nonlocals: sc=sc.parent; continue
            if name in sc.params:
                # parameters of nested helpers are positional in this code base: renamable (do_params)
                if DO_PARAMS and sc.parent is not None and name not in kw_used and name not in ('self','cls'): return ('local',sc)
                return None
            if name in sc.locals: return ('local',sc)
            if name in sc.nested: return ('func',sc)
            sc=sc.parent
        return None
    def enclosing(n, parents):
        while n in parents:
            n=parents[n]
            if isinstance(n,(ast.FunctionDef,ast.AsyncFunctionDef)): return n
        return None
    parents={}
    for n in ast.walk(tree):
        for c in ast.iter_child_nodes(n): parents[c]=n
    outer_comp={}
    for fn in scopes:
        # names used as comprehension targets/lambda params anywhere inside outermost function
        o=fn
        while scopes[o].parent is not None: o=scopes[o].parent.node
        outer_comp[fn]=comp_targets(o)
    # functions that hand their namespace to eval-like code (cProfile.runctx(..., locals())) keep their names
    frozen=set()
    for fn in scopes:
        if any(isinstance(x,ast.Call) and isinstance(x.func,ast.Name) and x.func.id in ('locals','vars','eval','exec') for x in ast.walk(fn)):
            for g in ast.walk(fn):
                if g in scopes: frozen.add(g)
    for fn in frozen:
        del scopes[fn]
    cnt=0
    for n in ast.walk(tree):
        if isinstance(n,ast.Name):
            fn=enclosing(n,parents)
            if fn is None or fn not in scopes: continue
            if n.id in outer_comp[fn] or n.id in KEEP: continue
            r=resolve(n.id, scopes[fn])
            if r is None: continue
            if r[0]=='local' and do_locals: n.id+=suffix; cnt+=1
            elif r[0]=='func' and do_funcs and r[1] is not None: n.id+=suffix; cnt+=1
        elif isinstance(n,ast.ExceptHandler) and n.name:
            fn=enclosing(n,parents)
            if fn in scopes and do_locals and n.name not in outer_comp[fn]: n.name+=suffix
        elif isinstance(n,(ast.FunctionDef,ast.AsyncFunctionDef)):
            sc=scopes.get(n)
            if sc and sc.parent is not None and do_funcs and n.name not in outer_comp[n]: n.name+=suffix; cnt+=1
        elif isinstance(n,ast.arg) and DO_PARAMS:
            fn=parents.get(parents.get(n))   # arg -> arguments -> FunctionDef/Lambda
            if isinstance(fn,(ast.FunctionDef,ast.AsyncFunctionDef)) and fn in scopes and scopes[fn].parent is not None \
                    and n.arg not in kw_used and n.arg not in ('self','cls') and n.arg not in outer_comp[fn] and do_locals:
                n.arg+=suffix; cnt+=1
        elif isinstance(n,ast.ClassDef):
            fn=enclosing(n,parents)
            if fn in scopes and do_locals and n.name not in outer_comp[fn] and resolve(n.name,scopes[fn]): n.name+=suffix
    # nonlocal declarations must be renamed too
    for n in ast.walk(tree):
        if isinstance(n,ast.Nonlocal):
            fn=enclosing(n,parents)
            n.names=[x+suffix if (x not in outer_comp[fn] and do_locals) else x for x in n.names]
    return ast.unparse(tree), cnt

def alpha_tree(root, do_funcs=True, do_locals=True, do_params=False):
    """rename in place under root/droop (and the driver scripts)"""
    global DO_PARAMS
    DO_PARAMS = do_params
    total = 0
    files = []
    for dp, dn, fns in os.walk(os.path.join(root, 'droop')):
        dn[:] = [d for d in dn if d != '__pycache__']
        files += [os.path.join(dp, f) for f in fns if f.endswith('.py')]
    for f in os.listdir(root):
        if f.endswith('.py'):
            files.append(os.path.join(root, f))
    for p in files:
        src = open(p, encoding='utf-8').read()
        new, c = rename_module(src, p, do_funcs=do_funcs, do_locals=do_locals)
        compile(new, p, 'exec')
        with open(p, 'w', encoding='utf-8') as fh:
            fh.write(new)
        total += c
    return total


_MIRROR = {ast.Lt: ast.Gt, ast.Gt: ast.Lt, ast.LtE: ast.GtE, ast.GtE: ast.LtE, ast.Eq: ast.Eq, ast.NotEq: ast.NotEq}


class _Mirror(ast.NodeTransformer):
    def visit_Compare(self, n):
        self.generic_visit(n)
        if len(n.ops) == 1 and type(n.ops[0]) in _MIRROR:
            return ast.copy_location(ast.Compare(left=n.comparators[0], ops=[_MIRROR[type(n.ops[0])]()], comparators=[n.left]), n)
        return n


class _IfSwap(ast.NodeTransformer):
    def visit_If(self, n):
        self.generic_visit(n)
        if n.orelse and not (len(n.orelse) == 1 and isinstance(n.orelse[0], ast.If)):
            t = n.test
            nt = t.operand if isinstance(t, ast.UnaryOp) and isinstance(t.op, ast.Not) else ast.UnaryOp(op=ast.Not(), operand=t)
            return ast.copy_location(ast.If(test=nt, body=n.orelse, orelse=n.body), n)
        return n


def shape_tree(root, kind):
    n = 0
    for dp, dn, fns in os.walk(root):
        dn[:] = [d for d in dn if d != '__pycache__']
        for f in fns:
            if f.endswith('.py'):
                p = os.path.join(dp, f)
                t = ast.parse(open(p, encoding='utf-8').read())
                t = (_Mirror() if kind == 'mirror' else _IfSwap()).visit(t)
                ast.fix_missing_locations(t)
                new = ast.unparse(t) + '\n'
                compile(new, p, 'exec')
                with open(p, 'w', encoding='utf-8') as fh:
                    fh.write(new)
                n += 1
    return n


def reformat_tree(root):
    n = 0
    for dp, dn, fns in os.walk(root):
        dn[:] = [d for d in dn if d != '__pycache__']
        for f in fns:
            if f.endswith('.py'):
                p = os.path.join(dp, f)
                src = open(p, encoding='utf-8').read()
                new = ast.unparse(ast.parse(src)) + '\n'
                compile(new, p, 'exec')
                with open(p, 'w', encoding='utf-8') as fh:
                    fh.write(new)
                n += 1
    return n


if __name__ == '__main__':
    # usage: transform.py alpha|alpha-locals|alpha-funcs|reformat <tree root (modified in place)>
    kind, root = sys.argv[1], sys.argv[2]
    if kind == 'reformat':
        print('reformatted', reformat_tree(root))
    elif kind in ('ifswap', 'mirror'):
        print('transformed', shape_tree(root, kind))
    else:
        print('renamed', alpha_tree(root, do_funcs=kind != 'alpha-locals', do_locals=kind != 'alpha-funcs', do_params=kind == 'alpha-params'))
