"""Source model of /repo: modules, classes, functions (incl. closures), parent links,
`do(<genexp>)` normalisation, alias resolution to canonical access paths.

Nothing here executes repository code.
"""
import ast
import copy
import os

REPO = os.environ.get('DROOP_REPO', '/repo')

DRIVERS = ['Droop.py', 'irv.py', 'mpls.py', 'oscar.py', 'scotland.py']
EXCLUDED = ['build/', 'dist/', 'droop.egg-info/', 'test/', 'setup.py']


class AnalysisError(Exception):
    """anchor vanished / shape not recognised / checker cannot decide: exit 2, never a pass"""


def need(cond, msg):
    if not cond:
        raise AnalysisError(msg)


# ---------------------------------------------------------------------------
# normalisation: do(<genexp>)  ==>  for ...: if ...: <elt>
# ---------------------------------------------------------------------------

class _DoRewriter(ast.NodeTransformer):
    """`do(f(x) for x in xs if p)` is droop.common.do applied to a generator: it runs the
    generator to exhaustion, i.e. it *is* the loop `for x in xs: if p: f(x)`."""

    def __init__(self):
        self.count = 0

    def visit_Expr(self, node):
        self.generic_visit(node)
        v = node.value
        if (isinstance(v, ast.Call) and isinstance(v.func, ast.Name) and v.func.id == 'do'
                and len(v.args) == 1 and not v.keywords and isinstance(v.args[0], ast.GeneratorExp)):
            g = v.args[0]
            body = [ast.copy_location(ast.Expr(value=g.elt), node)]
            for comp in reversed(g.generators):
                for cond in reversed(comp.ifs):
                    body = [ast.copy_location(ast.If(test=cond, body=body, orelse=[]), node)]
                f = ast.For(target=comp.target, iter=comp.iter, body=body, orelse=[], type_comment=None)
                f = ast.copy_location(f, node)
                f._from_do = True
                body = [f]
            self.count += 1
            return body[0]
        return node


class _IfNormaliser(ast.NodeTransformer):
    """`if not X: A else: B`  ==>  `if X: B else: A` (when B is not an elif chain): the two spellings are the same program,
    and the rules are written for the positive form"""

    def __init__(self):
        self.count = 0

    @staticmethod
    def _bool_ifexp(t):
        """in a truth-value position: `X if A else False` is `A and X`, `True if A else X` is `A or X`, and the two negated forms"""
        from .normalise import negate
        if isinstance(t, ast.IfExp):
            def const(v):
                return v.value if isinstance(v, ast.Constant) and isinstance(v.value, bool) else None
            a, x, y = t.test, t.body, t.orelse
            new = None
            if const(y) is False:
                new = ast.BoolOp(op=ast.And(), values=[a, x])
            elif const(x) is True:
                new = ast.BoolOp(op=ast.Or(), values=[a, y])
            elif const(y) is True:
                new = ast.BoolOp(op=ast.Or(), values=[negate(a), x])
            elif const(x) is False:
                new = ast.BoolOp(op=ast.And(), values=[negate(a), y])
            if new is not None:
                vals = []
                for v in new.values:
                    if isinstance(v, ast.BoolOp) and type(v.op) is type(new.op):
                        vals += v.values
                    else:
                        vals.append(v)
                new.values = vals
                return ast.copy_location(new, t)
        return t

    def visit_While(self, node):
        self.generic_visit(node)
        node.test = self._bool_ifexp(node.test)
        return node

    def visit_If(self, node):
        self.generic_visit(node)
        node.test = self._bool_ifexp(node.test)
        t = node.test
        if node.orelse and isinstance(t, ast.UnaryOp) and isinstance(t.op, ast.Not):
            node.test = t.operand
            node.body, node.orelse = node.orelse, node.body
            self.count += 1
        if node.orelse and all(isinstance(s_, ast.Pass) for s_ in node.body):
            # `if c: pass else: B`  ==>  `if not c: B`
            from .normalise import negate
            node.test = negate(node.test)
            node.body, node.orelse = node.orelse, []
            self.count += 1
        return node

    _MIRROR = {ast.Lt: ast.Gt, ast.Gt: ast.Lt, ast.LtE: ast.GtE, ast.GtE: ast.LtE, ast.Eq: ast.Eq, ast.NotEq: ast.NotEq,
               ast.Is: ast.Is, ast.IsNot: ast.IsNot}

    def visit_Compare(self, node):
        # a constant on the left goes to the right: `'up' == round` is `round == 'up'`
        self.generic_visit(node)
        if len(node.ops) == 1 and isinstance(node.left, ast.Constant) and not isinstance(node.comparators[0], ast.Constant) \
                and type(node.ops[0]) in self._MIRROR:
            node.left, node.comparators[0] = node.comparators[0], node.left
            node.ops[0] = self._MIRROR[type(node.ops[0])]()
            self.count += 1
        return node

    def visit_IfExp(self, node):
        self.generic_visit(node)
        t = node.test
        if isinstance(t, ast.UnaryOp) and isinstance(t.op, ast.Not):
            node.test = t.operand
            node.body, node.orelse = node.orelse, node.body
            self.count += 1
        return node


def set_parents(tree):
    tree.parent = None
    for node in ast.walk(tree):
        for child in ast.iter_child_nodes(node):
            child.parent = node


def unparse(node):
    try:
        return ast.unparse(node)
    except Exception:  # pragma: no cover
        return '<%s>' % type(node).__name__


def norm_stmt(node):
    """whitespace/quote-normalised one-line text of a statement head (finding keys)"""
    if isinstance(node, (ast.For, ast.While, ast.If, ast.With, ast.Try, ast.FunctionDef, ast.ClassDef)):
        n = copy.copy(node)
        txt = unparse(n).split('\n')[0]
    else:
        txt = unparse(node)
    return ' '.join(txt.split())[:200]


# ---------------------------------------------------------------------------
# comparison modulo consistent renaming of locals
# ---------------------------------------------------------------------------

def _bound_names(fnode):
    """parameters and names bound in a function body (own scope; nested defs contribute their name only)"""
    out = set()
    a = fnode.args
    for x in a.posonlyargs + a.args + a.kwonlyargs:
        out.add(x.arg)
    if a.vararg:
        out.add(a.vararg.arg)
    if a.kwarg:
        out.add(a.kwarg.arg)
    glob = set()
    stack = list(fnode.body) if not isinstance(fnode, ast.Lambda) else [fnode.body]
    while stack:
        n = stack.pop()
        if isinstance(n, (ast.FunctionDef, ast.AsyncFunctionDef, ast.ClassDef)):
            out.add(n.name)
            continue
        if isinstance(n, ast.Global):
            glob |= set(n.names)
        if isinstance(n, ast.Name) and isinstance(n.ctx, (ast.Store, ast.Del)):
            out.add(n.id)
        if isinstance(n, ast.ExceptHandler) and n.name:
            out.add(n.name)
        if isinstance(n, ast.Lambda):
            for x in n.args.args:
                out.add(x.arg)
        stack.extend(ast.iter_child_nodes(n))
    return out - glob


def _shape_key(e):
    """ordering key of an operand that does not depend on how locals are spelled"""
    parts = []
    for x in ast.walk(e):
        parts.append(type(x).__name__)
        if isinstance(x, ast.Attribute):
            parts.append(x.attr)
        elif isinstance(x, ast.Constant):
            parts.append(repr(x.value))
    return (len(parts), parts)


class _Orient(ast.NodeTransformer):
    """one spelling per comparison: `a > b` -> `b < a`, `a >= b` -> `b <= a`; operands of == / != in a name-independent order"""

    def visit_Compare(self, node):
        self.generic_visit(node)
        if len(node.ops) != 1:
            return node
        op, l, r = node.ops[0], node.left, node.comparators[0]
        if isinstance(op, ast.Gt):
            node.left, node.comparators, node.ops = r, [l], [ast.Lt()]
        elif isinstance(op, ast.GtE):
            node.left, node.comparators, node.ops = r, [l], [ast.LtE()]
        elif isinstance(op, (ast.Eq, ast.NotEq)) and _shape_key(r) < _shape_key(l):
            node.left, node.comparators = r, [l]
        return node


def orient_text(x):
    """text of an expression (AST node or source) with every comparison in its one canonical spelling"""
    t = ast.parse(x if isinstance(x, str) else ast.unparse(x), mode='eval').body
    return ast.unparse(_Orient().visit(t))


class _Alpha(ast.NodeTransformer):
    def __init__(self, names):
        self.names = names
        self.map = {}

    def ph(self, nm):
        if nm not in self.names:
            return nm
        if nm not in self.map:
            self.map[nm] = '_%d' % (len(self.map) + 1)
        return self.map[nm]

    def visit_Name(self, node):
        node.id = self.ph(node.id)
        return node

    def visit_arg(self, node):
        node.arg = self.ph(node.arg)
        return node

    def visit_ExceptHandler(self, node):
        if node.name:
            node.name = self.ph(node.name)
        self.generic_visit(node)
        return node

    def visit_FunctionDef(self, node):
        node.name = self.ph(node.name)
        self.generic_visit(node)
        return node

    def visit_Nonlocal(self, node):
        node.names = [self.ph(x) for x in node.names]
        return node


def alpha_texts(nodes, fnode_chain=(), drop_docstring=True, extra_names=None):
    """texts of the statements/expressions `nodes` with every name that is local to one of the functions in
    fnode_chain (or bound inside the nodes themselves: comprehension variables, lambda parameters) replaced by
    a placeholder numbered in order of first occurrence over the whole list: two fragments that differ only
    by a consistent renaming of locals/parameters/local helpers give the same texts"""
    names = set(extra_names or ())
    for fn in fnode_chain:
        names |= _bound_names(fn)
    for n in nodes:
        for x in ast.walk(n):
            if isinstance(x, ast.Name) and isinstance(x.ctx, (ast.Store, ast.Del)):
                names.add(x.id)
            elif isinstance(x, ast.Lambda):
                for a in x.args.args:
                    names.add(a.arg)
            elif isinstance(x, (ast.FunctionDef, ast.AsyncFunctionDef)):
                names |= _bound_names(x)
    tr = _Alpha(names)
    out = []
    for n in nodes:
        if drop_docstring and isinstance(n, ast.Expr) and isinstance(n.value, ast.Constant) and isinstance(n.value.value, str):
            continue
        # a clean copy (the analysed trees carry parent pointers: never deepcopy them)
        c = ast.parse(ast.unparse(n)).body[0]
        if isinstance(n, ast.expr):
            c = c.value
        if drop_docstring:
            for x in ast.walk(c):
                if isinstance(x, (ast.FunctionDef, ast.AsyncFunctionDef, ast.ClassDef)) and x.body and isinstance(x.body[0], ast.Expr) \
                        and isinstance(x.body[0].value, ast.Constant) and isinstance(x.body[0].value.value, str):
                    x.body = x.body[1:] or [ast.Pass()]
        c = _Orient().visit(c)
        c = tr.visit(c)
        out.append(' '.join(ast.unparse(c).split()))
    return out


def alpha_body(fnode):
    """alpha-normalised statement texts of a function body (docstring dropped)"""
    return alpha_texts(list(fnode.body), [fnode])


def alpha_src(src):
    """alpha_body of a reference definition given as source text: `def f(self): ...`"""
    import textwrap
    t = ast.parse(textwrap.dedent(src))
    return alpha_body(t.body[0])


def func_chain(func):
    out = []
    f = func
    while f is not None and hasattr(f, 'node'):
        out.append(f.node)
        f = f.parent
    return out


def alpha_stmt(node, func):
    """alpha-normalised head text of one statement in the context of its function (finding keys that survive renames)"""
    chain = func_chain(func) if func is not None and hasattr(func, 'node') else []
    if isinstance(node, (ast.For, ast.While, ast.If, ast.With, ast.Try, ast.FunctionDef, ast.ClassDef)):
        n = copy.copy(node)
        for fld in ('body', 'orelse', 'finalbody', 'handlers'):
            if hasattr(n, fld):
                setattr(n, fld, [ast.Pass()] if fld == 'body' else [])
        if isinstance(n, ast.Try):
            n.handlers = [ast.ExceptHandler(type=None, name=None, body=[ast.Pass()])]
        txt = alpha_texts([n], chain, drop_docstring=False)[0]
        return txt[:200]
    return alpha_texts([node], chain, drop_docstring=False)[0][:200]


class Module:
    def __init__(self, name, path, relpath):
        self.name = name
        self.path = path
        self.relpath = relpath
        with open(path, encoding='utf-8') as f:
            self.src = f.read()
        self.nlines = self.src.count('\n') + 1
        self.orig = ast.parse(self.src, filename=path)
        tree = ast.parse(self.src, filename=path)
        rw = _DoRewriter()
        self.tree = rw.visit(tree)
        self.do_rewrites = rw.count
        self.imports = {}     # local name -> dotted target

    def normalise(self):
        """second half of loading (after the cross-module pass of Repo._load): per-module normalisations, parents, imports"""
        from .normalise import inline_single_use_helpers, swap_negated_returns, filtered_loops_to_if, guard_continue_to_if, substitute_stable_locals
        from .normalise import helpers_to_closures
        self.nested_helpers = helpers_to_closures(self.tree)
        self.inlined_helpers = inline_single_use_helpers(self.tree)
        from .normalise import inline_helpers_v2
        self.inlined_helpers += inline_helpers_v2(self.tree)
        from .normalise import fuse_boolean_results, forward_single_use_temps
        fuse_boolean_results(self.tree)
        forward_single_use_temps(self.tree)
        from .normalise import eliminate_copies, void_early_returns, unroll_literal_loops
        unroll_literal_loops(self.tree)
        from .normalise import constant_attr_access
        constant_attr_access(self.tree)
        eliminate_copies(self.tree)
        void_early_returns(self.tree)
        filtered_loops_to_if(self.tree)
        guard_continue_to_if(self.tree)
        substitute_stable_locals(self.tree)
        swap_negated_returns(self.tree)
        self.tree = _IfNormaliser().visit(self.tree)
        ast.fix_missing_locations(self.tree)
        set_parents(self.tree)
        for n in ast.walk(self.tree):
            n.srcmod = self
        self._collect_imports()

    def _collect_imports(self):
        pkg = self.name.rsplit('.', 1)[0] if '.' in self.name else ''
        is_pkg = self.path.endswith('__init__.py')
        for n in ast.walk(self.tree):
            if isinstance(n, ast.Import):
                for a in n.names:
                    self.imports[a.asname or a.name.split('.')[0]] = a.name if a.asname else a.name.split('.')[0]
            elif isinstance(n, ast.ImportFrom):
                base = n.module or ''
                if n.level:
                    parts = self.name.split('.')
                    if not is_pkg:
                        parts = parts[:-1]
                    up = n.level - 1
                    if up:
                        parts = parts[:-up]
                    base = '.'.join(parts + ([n.module] if n.module else []))
                for a in n.names:
                    self.imports[a.asname or a.name] = (base + '.' + a.name) if base else a.name


class ClassInfo:
    def __init__(self, qualname, node, module, outer=None):
        self.qualname = qualname
        self.name = node.name
        self.node = node
        self.module = module
        self.outer = outer
        self.base_exprs = node.bases
        self.bases = []          # resolved ClassInfo objects (in-package)
        self.base_names = [unparse(b) for b in node.bases]
        self.methods = {}
        self.class_attrs = {}    # name -> value node (class-level simple assigns)
        for st in node.body:
            if isinstance(st, ast.Assign):
                for t in st.targets:
                    if isinstance(t, ast.Name):
                        self.class_attrs[t.id] = st.value

    def mro(self):
        out = [self]
        for b in self.bases:
            for c in b.mro():
                if c not in out:
                    out.append(c)
        return out

    def find_method(self, name):
        for c in self.mro():
            if name in c.methods:
                return c.methods[name]
        return None

    def find_attr(self, name):
        for c in self.mro():
            if name in c.class_attrs:
                return c.class_attrs[name]
        return None

    def mangle(self, attr):
        if attr.startswith('__') and not attr.endswith('__'):
            return '_%s%s' % (self.name.lstrip('_'), attr)
        return attr


class Func:
    def __init__(self, qualname, node, module, cls=None, parent=None):
        self.qualname = qualname
        self.name = node.name
        self.node = node
        self.module = module
        self.cls = cls
        self.parent = parent
        self.children = {}
        node.func_info = self
        self.params = [a.arg for a in node.args.posonlyargs + node.args.args + node.args.kwonlyargs]
        if node.args.vararg:
            self.params.append(node.args.vararg.arg)
        if node.args.kwarg:
            self.params.append(node.args.kwarg.arg)
        self.decorators = [unparse(d) for d in node.decorator_list]
        self._assigns = None

    @property
    def is_classmethod(self):
        return 'classmethod' in self.decorators

    @property
    def is_staticmethod(self):
        return 'staticmethod' in self.decorators

    @property
    def owner_class(self):
        f = self
        while f is not None:
            if f.cls is not None:
                return f.cls
            f = f.parent
        return None

    @property
    def outermost(self):
        f = self
        while f.parent is not None:
            f = f.parent
        return f

    def own_nodes(self):
        """all AST nodes of this function, not descending into nested defs/classes/lambdas' own
        bodies (nested FunctionDef nodes themselves are yielded, their bodies are not)"""
        stack = list(ast.iter_child_nodes(self.node))
        while stack:
            n = stack.pop()
            yield n
            if isinstance(n, (ast.FunctionDef, ast.AsyncFunctionDef, ast.ClassDef)):
                continue
            stack.extend(ast.iter_child_nodes(n))

    def all_nodes(self):
        """all AST nodes incl. nested functions"""
        for n in ast.walk(self.node):
            if n is not self.node:
                yield n

    def assigns(self):
        """name -> list of (value node or None, stmt) for plain-name bindings in this function
        (own scope only): Assign, AugAssign, For targets, With, comprehension vars excluded."""
        if self._assigns is None:
            d = {}
            for n in self.own_nodes():
                if isinstance(n, ast.Assign):
                    for t in n.targets:
                        for nm, val in _bind_targets(t, n.value):
                            d.setdefault(nm, []).append((val, n))
                elif isinstance(n, ast.AugAssign) and isinstance(n.target, ast.Name):
                    d.setdefault(n.target.id, []).append((n, n))
                elif isinstance(n, ast.AnnAssign) and isinstance(n.target, ast.Name) and n.value is not None:
                    d.setdefault(n.target.id, []).append((n.value, n))
                elif isinstance(n, ast.For):
                    for nm, _ in _bind_targets(n.target, None):
                        d.setdefault(nm, []).append((ForElem(n, nm), n))
                elif isinstance(n, (ast.FunctionDef,)):
                    d.setdefault(n.name, []).append((n, n))
                elif isinstance(n, ast.ExceptHandler) and n.name:
                    d.setdefault(n.name, []).append((None, n))
                elif isinstance(n, ast.With):
                    for it in n.items:
                        if it.optional_vars is not None:
                            for nm, _ in _bind_targets(it.optional_vars, None):
                                d.setdefault(nm, []).append((None, n))
                elif isinstance(n, ast.NamedExpr) and isinstance(n.target, ast.Name):
                    d.setdefault(n.target.id, []).append((n.value, n))
            self._assigns = d
        return self._assigns

    def __repr__(self):
        return '<Func %s>' % self.qualname


class ForElem:
    """marker: 'an element of the iterable of this For statement'"""
    def __init__(self, for_node, name=None):
        self.for_node = for_node
        self.name = name


class TupleElem:
    """marker: element i of the tuple-valued expression"""
    def __init__(self, value, index):
        self.value = value
        self.index = index


def _bind_targets(target, value):
    if isinstance(target, ast.Name):
        yield target.id, value
    elif isinstance(target, (ast.Tuple, ast.List)):
        for i, t in enumerate(target.elts):
            if isinstance(value, (ast.Tuple, ast.List)) and len(value.elts) == len(target.elts):
                yield from _bind_targets(t, value.elts[i])
            else:
                yield from _bind_targets(t, TupleElem(value, i) if value is not None else None)
    elif isinstance(target, ast.Starred):
        yield from _bind_targets(target.value, None)


class Repo:
    def __init__(self, root=None):
        self.root = root or REPO
        self.modules = {}
        self.funcs = {}
        self.classes = {}
        self._load()
        self._index()

    # -- loading -----------------------------------------------------------
    def _load(self):
        pkg = os.path.join(self.root, 'droop')
        need(os.path.isdir(pkg), 'package directory %s missing' % pkg)
        paths = []
        for dp, dns, fns in os.walk(pkg):
            dns[:] = sorted(d for d in dns if d != '__pycache__')
            for fn in sorted(fns):
                if fn.endswith('.py'):
                    paths.append(os.path.join(dp, fn))
        for d in DRIVERS:
            p = os.path.join(self.root, d)
            if os.path.exists(p):
                paths.append(p)
        for p in paths:
            rel = os.path.relpath(p, self.root)
            name = rel[:-3].replace(os.sep, '.')
            if name.endswith('.__init__'):
                name = name[:-9]
            try:
                self.modules[name] = Module(name, p, rel)
            except SyntaxError as e:
                raise AnalysisError('cannot parse %s: %s' % (rel, e))
        from .normalise import inline_inherited_helpers
        self.inherited_inlined = inline_inherited_helpers({n_: m_.tree for n_, m_ in self.modules.items()})
        for m_ in self.modules.values():
            m_.normalise()

    def _index(self):
        for m in self.modules.values():
            self._index_body(m, m.tree.body, m.name, None, None, None)
        # resolve bases
        for c in self.classes.values():
            for b in c.base_exprs:
                t = self.resolve_class_expr(b, c.module)
                if t is not None:
                    c.bases.append(t)

    def _index_body(self, module, body, prefix, cls, parent_func, outer_cls):
        for st in body:
            if isinstance(st, (ast.FunctionDef, ast.AsyncFunctionDef)):
                qn = prefix + '.' + st.name
                f = Func(qn, st, module, cls=cls, parent=parent_func)
                self.funcs[qn] = f
                if cls is not None:
                    cls.methods[st.name] = f
                if parent_func is not None:
                    parent_func.children[st.name] = f
                self._index_nested(module, st, qn, f)
            elif isinstance(st, ast.ClassDef):
                qn = prefix + '.' + st.name
                c = ClassInfo(qn, st, module, outer=cls)
                self.classes[qn] = c
                st.class_info = c
                self._index_body(module, st.body, qn, c, None, cls)
            elif isinstance(st, (ast.If, ast.Try, ast.With, ast.For, ast.While)):
                for sub in _sub_bodies(st):
                    self._index_body(module, sub, prefix, cls, parent_func, outer_cls)

    def _index_nested(self, module, fnode, prefix, f):
        # nested defs anywhere inside the function (not inside nested defs: recursion does that)
        stack = list(fnode.body)
        while stack:
            st = stack.pop()
            if isinstance(st, (ast.FunctionDef, ast.AsyncFunctionDef)):
                qn = prefix + '.' + st.name
                g = Func(qn, st, module, cls=None, parent=f)
                self.funcs[qn] = g
                f.children[st.name] = g
                self._index_nested(module, st, qn, g)
            elif isinstance(st, ast.ClassDef):
                qn = prefix + '.' + st.name
                c = ClassInfo(qn, st, module)
                self.classes[qn] = c
                st.class_info = c
                self._index_body(module, st.body, qn, c, None, None)
            else:
                for sub in _sub_bodies(st):
                    stack.extend(sub)

    # -- lookups -------------------------------------------------------------
    def module(self, name):
        need(name in self.modules, 'module %s not found in /repo' % name)
        return self.modules[name]

    def func(self, qualname):
        need(qualname in self.funcs, 'anchor function %s not found' % qualname)
        return self.funcs[qualname]

    def cls(self, qualname):
        need(qualname in self.classes, 'anchor class %s not found' % qualname)
        return self.classes[qualname]

    def resolve_class_expr(self, expr, module):
        """resolve a base-class expression / class reference to a ClassInfo"""
        dotted = None
        if isinstance(expr, ast.Name):
            qn = module.name + '.' + expr.id
            if qn in self.classes:
                return self.classes[qn]
            dotted = module.imports.get(expr.id)
        elif isinstance(expr, ast.Attribute):
            parts = []
            e = expr
            while isinstance(e, ast.Attribute):
                parts.append(e.attr)
                e = e.value
            if isinstance(e, ast.Name):
                head = module.imports.get(e.id, e.id)
                dotted = '.'.join([head] + list(reversed(parts)))
        if dotted and dotted in self.classes:
            return self.classes[dotted]
        return None

    def enclosing_func(self, node):
        n = getattr(node, 'parent', None)
        while n is not None:
            if isinstance(n, (ast.FunctionDef, ast.AsyncFunctionDef)):
                return n.func_info
            n = getattr(n, 'parent', None)
        return None

    def enclosing_stmt(self, node):
        n = node
        while n is not None and not isinstance(n, ast.stmt):
            n = getattr(n, 'parent', None)
        return n

    def rule_classes(self):
        """the registry, computed the way droop/__init__.py computes it: every class in
        droop/rules/*.py that transitively subclasses ElectionRule and whose name does not start
        with 'Method'"""
        base = self.cls('droop.rules.electionrule.ElectionRule')
        out = []
        for c in self.classes.values():
            if not c.module.name.startswith('droop.rules.'):
                continue
            if c is base or c.name.startswith('Method'):
                continue
            if base in c.mro():
                out.append(c)
        return sorted(out, key=lambda c: c.qualname)

    def rule_names(self, cls):
        """literal rule names returned by cls.ruleNames()"""
        f = cls.find_method('ruleNames')
        need(f is not None, '%s has no ruleNames()' % cls.qualname)
        names = []
        for n in f.own_nodes():
            if isinstance(n, ast.Return) and n.value is not None:
                v = n.value
                if isinstance(v, ast.Attribute) and isinstance(v.value, ast.Name) and v.value.id == 'cls':
                    v = cls.find_attr(v.attr)
                if isinstance(v, ast.Constant) and isinstance(v.value, str):
                    names.append(v.value)
                elif isinstance(v, (ast.Tuple, ast.List)):
                    for e in v.elts:
                        need(isinstance(e, ast.Constant) and isinstance(e.value, str),
                             'non-literal rule name in %s' % f.qualname)
                        names.append(e.value)
                else:
                    raise AnalysisError('ruleNames() of %s is not a literal' % cls.qualname)
        return names

    def stats(self):
        ncalls = 0
        for m in self.modules.values():
            for n in ast.walk(m.tree):
                if isinstance(n, ast.Call):
                    ncalls += 1
        return dict(modules=len(self.modules), functions=len(self.funcs), classes=len(self.classes),
                    call_sites=ncalls, lines=sum(m.nlines for m in self.modules.values()),
                    do_genexp_rewritten=sum(m.do_rewrites for m in self.modules.values()),
                    excluded=EXCLUDED)

    def loc(self, node):
        m = getattr(node, 'srcmod', None)
        return '%s:%s' % (m.relpath if m else '?', getattr(node, 'lineno', '?'))


def _sub_bodies(st):
    for fld in ('body', 'orelse', 'finalbody'):
        b = getattr(st, fld, None)
        if isinstance(b, list) and b and isinstance(b[0], ast.AST):
            yield b
    if isinstance(st, ast.Try):
        for h in st.handlers:
            yield h.body


# ---------------------------------------------------------------------------
# alias resolution / canonical access paths
# ---------------------------------------------------------------------------

ELECTION_CLASS = 'droop.election.Election'

# equivalences between access paths (property wrappers in election.py, read from their bodies
# by check_election_properties() in rules/common.py)
PATH_ALIASES = {
    'E.electionProfile.nSeats': 'E.nSeats',
    'E.electionProfile.nBallots': 'E.nBallots',
    'E.electionProfile.title': 'E.title',
}


class Scope:
    """name resolution for one function, through closures"""

    def __init__(self, repo, func):
        self.repo = repo
        self.func = func
        self._memo = {}

    def lookup_def(self, name, func=None):
        """return (defining Func, list of (value, stmt)) for a name visible in func"""
        f = func or self.func
        while f is not None:
            if name in f.params:
                return f, 'param'
            a = f.assigns()
            if name in a:
                return f, a[name]
            f = f.parent
        return None, None

    def canon(self, expr, func=None, depth=0):
        """canonical access path of an expression ('E.C.hopeful', 'E.quota', 'self.x', ...),
        or None when the expression is not an access path"""
        f = func or self.func
        if depth > 12:
            return None
        if isinstance(expr, ast.Attribute):
            base = self.canon(expr.value, f, depth + 1)
            if base is None:
                return None
            p = base + '.' + expr.attr
            oc = f.owner_class
            if base in ('self', 'cls') and oc is not None and expr.attr.startswith('__') \
                    and not expr.attr.endswith('__'):
                p = base + '.' + oc.mangle(expr.attr)
            return self._alias(p, f)
        if isinstance(expr, ast.Name):
            if depth == 0 and isinstance(expr.ctx, ast.Store):
                return None     # binding a local (perhaps an alias of a path) is not a store to the path
            return self._canon_name(expr.id, f, depth)
        return None

    def _alias(self, p, f):
        oc = f.owner_class
        if oc is not None:
            if oc.qualname == ELECTION_CLASS:
                if p == 'self':
                    return 'E'
            else:
                if p == 'self.E':
                    return 'E'
        return PATH_ALIASES.get(p, p)

    def _canon_name(self, name, f, depth):
        key = (name, f.qualname)
        if key in self._memo:
            return self._memo[key]
        self._memo[key] = name   # cycle guard
        res = self._canon_name2(name, f, depth)
        self._memo[key] = res
        return res

    def _canon_name2(self, name, f, depth):
        if name in ('self', 'cls'):
            oc = f.owner_class
            # closures inside a method see the method's self
            g = f
            while g is not None and name not in g.params:
                g = g.parent
            if g is not None and oc is not None and oc.qualname == ELECTION_CLASS and name == 'self':
                return 'E'
            return name
        df, vals = self.lookup_def(name, f)
        if df is None:
            # module-level / imported / builtin
            return name
        if vals == 'param':
            # parameter of a nested function: resolve through all call sites in the parent
            if df.parent is not None:
                idx = df.params.index(name)
                cands = set()
                ncalls = 0
                for n in df.parent.all_nodes():
                    if isinstance(n, ast.Call) and isinstance(n.func, ast.Name) and n.func.id == df.name:
                        caller = self.repo.enclosing_func(n)
                        ncalls += 1
                        arg = None
                        if idx < len(n.args):
                            arg = n.args[idx]
                        else:
                            for kw in n.keywords:
                                if kw.arg == name:
                                    arg = kw.value
                        cands.add(self.canon(arg, caller, depth + 1) if arg is not None else None)
                if ncalls and len(cands) == 1:
                    c = cands.pop()
                    if c is not None and c != name:
                        return c
            # convention used by the whole package: Rule.__init__(self, E) etc. receive the Election
            if name == 'E':
                return 'E'
            return name
        if len(vals) == 1:
            val = vals[0][0]
            if isinstance(val, ast.AST) and not isinstance(val, (ast.FunctionDef, ast.AugAssign)):
                c = self.canon(val, df, depth + 1)
                if c is not None:
                    return c
        return name


def call_name(call):
    """('attr', recv_expr, name) | ('name', None, name) | (None, None, None)"""
    f = call.func
    if isinstance(f, ast.Attribute):
        return 'attr', f.value, f.attr
    if isinstance(f, ast.Name):
        return 'name', None, f.id
    return None, None, None


def iter_calls(nodes):
    for n in nodes:
        if isinstance(n, ast.Call):
            yield n


def const_str(node):
    if isinstance(node, ast.Constant) and isinstance(node.value, str):
        return node.value
    return None


def get_arg(call, pos, kw):
    if pos is not None and pos < len(call.args):
        return call.args[pos]
    for k in call.keywords:
        if k.arg == kw:
            return k.value
    return None
