"""Self-test of the checkers: apply each mutant of /verif/mutants to a scratch copy of the analysed
sources, byte-compile, run the rule and require the expected outcome.

expect = 'violation'  the rule must report a violation (in the mutated file unless stated)
         'silent'     benign twin: must stay exit 0
         'error'      the rule must refuse to decide (ANALYSIS-ERROR), not pass and not alarm
The scratch copies live under a fresh mkdtemp() and are removed before returning.  The outcome
never turns a clean tree into exit 1: a checker weakness is not a property violation
(`./check selftest --strict` is the developer command that fails on a miss).
"""
import importlib.util
import multiprocessing
import os
import shutil
import sys
import tempfile
import time

HERE = os.path.dirname(os.path.abspath(__file__))
VERIF = os.path.dirname(HERE)


def load_mutants():
    p = os.path.join(VERIF, 'mutants', 'mutants.py')
    if not os.path.exists(p):
        return []
    spec = importlib.util.spec_from_file_location('verif_mutants', p)
    mod = importlib.util.module_from_spec(spec)
    spec.loader.exec_module(mod)
    return mod.MUTANTS


def load_transforms():
    """whole-tree behaviour-preserving transformations (droopsa/transform.py): every claimed property must stay silent"""
    from droopsa.props import PROPS
    out = []
    for pid in sorted(PROPS):
        for t in ('alpha', 'alpha-locals', 'alpha-funcs', 'alpha-params', 'reformat', 'ifswap'):
            out.append(dict(id='twin-%s-%s' % (t, pid), prop=pid, rule=None, expect='silent', transform=t))
    return out


def load_benign():
    """independently written behaviour-preserving refactorings under /verif/benign (confirmed by their authors' equivalence scripts and
    the pinned suite): every claimed property must stay silent on each of them"""
    import json
    from droopsa.props import PROPS
    out = []
    d = os.path.join(VERIF, 'benign')
    if not os.path.isdir(d):
        return out
    for name in sorted(os.listdir(d)):
        mp, pp = os.path.join(d, name, 'meta.json'), os.path.join(d, name, 'patch.diff')
        if not (os.path.exists(mp) and os.path.exists(pp)):
            continue
        with open(mp) as f:
            meta = json.load(f)
        if not meta.get('confirmed'):
            continue
        for pid in sorted(PROPS):
            out.append(dict(id='benign-%s@%s' % (name, pid), prop=pid, rule=None, expect='silent', patch=pp, anyfile=True, benign=True, own=name.startswith(pid + '-'),
                            accept_refusal=meta.get('accepted_refusals', {}).get(pid)))
    return out


def load_seeded():
    """the independently written breaking changes under /verif/seeded: each must be reported under its own property"""
    import json
    out = []
    d = os.path.join(VERIF, 'seeded')
    if not os.path.isdir(d):
        return out
    for name in sorted(os.listdir(d)):
        mp = os.path.join(d, name, 'meta.json')
        pp = os.path.join(d, name, 'patch.diff')
        if not (os.path.exists(mp) and os.path.exists(pp)):
            continue
        with open(mp) as f:
            meta = json.load(f)
        if not meta.get('confirmed'):
            continue
        out.append(dict(id='seeded-' + name, prop=meta['property'], rule=None, expect='violation', patch=pp, anyfile=True))
    return out


def _copy_repo(dst):
    from droopsa.model import REPO, DRIVERS
    shutil.copytree(os.path.join(REPO, 'droop'), os.path.join(dst, 'droop'),
                    ignore=shutil.ignore_patterns('__pycache__', '*.pyc'))
    for d in DRIVERS:
        p = os.path.join(REPO, d)
        if os.path.exists(p):
            shutil.copy(p, os.path.join(dst, d))


def _run_one(m):
    sys.path.insert(0, VERIF)
    from droopsa.cli import run_property
    tmp = tempfile.mkdtemp(prefix='droopsa-mut-')
    res = dict(id=m['id'], prop=m['prop'], rule=m['rule'], expect=m['expect'])
    try:
        _copy_repo(tmp)
        if m.get('transform'):
            from droopsa import transform
            from droopsa.report import load_known
            if m['transform'] == 'reformat':
                transform.reformat_tree(tmp)
            elif m['transform'] in ('ifswap', 'mirror'):
                transform.shape_tree(tmp, m['transform'])
            else:
                transform.alpha_tree(tmp, do_funcs=m['transform'] != 'alpha-locals', do_locals=m['transform'] != 'alpha-funcs',
                                     do_params=m['transform'] == 'alpha-params')
            code, ctx, violations, known, error = run_property(m['prop'], 'quick', only=None, repo_root=tmp, quiet=True, write=False)
            # a recorded finding is keyed by the literal statement: after renaming it is reported again as a violation (it is one);
            # anything else reported on a behaviour-preserving transformation is a false alarm
            kf = [(k.get('rule'), k['key'].get('file'), k['key'].get('function')) for k in load_known().get('findings', [])
                  if m['prop'] in (k.get('properties') or [k.get('property')])]
            extra = [o for o in violations if (o.rule, o.file, o.func) not in kf]
            if error or code == 2:
                res['outcome'] = 'false-alarm(refused: %s)' % (error or '')[:200]
            elif extra:
                res['outcome'] = 'false-alarm(exit %d)' % code
                res['detail'] = '; '.join('%s %s:%s %s' % (o.rule, o.file, o.line, o.how[:100]) for o in extra[:4])
            else:
                res['outcome'] = 'silent'
            return res
        if m.get('patch'):
            import subprocess
            r = subprocess.run(['patch', '-p1', '-s', '-d', tmp, '-i', m['patch']], stdout=subprocess.PIPE, stderr=subprocess.STDOUT, text=True)
            if r.returncode != 0:
                res['outcome'] = 'not-applicable'
                res['detail'] = 'patch does not apply to the current tree: ' + r.stdout[:200]
                return res
            code, ctx, violations, known, error = run_property(m['prop'], 'quick', only=m.get('rule'), repo_root=tmp, quiet=True, write=False)
            if m['expect'] == 'silent':
                res['outcome'] = 'silent' if code == 0 else 'false-alarm(exit %d)' % code
                if code == 2 and m.get('accept_refusal'):
                    res['outcome'] = 'refused'      # a recorded, explained refusal (unrecognised shape): not an alarm
                if code != 0:
                    res['detail'] = (error or '') + '; '.join('%s %s:%s %s' % (o.rule, o.file, o.line, o.how[:120]) for o in violations[:3])
                return res
            res['outcome'] = 'detected' if violations else ('missed(exit %d%s)' % (code, ': ' + error[:200] if error else ''))
            if violations:
                res['rule'] = ','.join(sorted(set(o.rule for o in violations)))
                res['detail'] = '%s:%s %s' % (violations[0].file, violations[0].line, violations[0].how[:160])
            return res
        edits = m.get('edits') or [(m['file'], m['old'], m['new'])]
        for (file, old, new) in edits:
            p = os.path.join(tmp, file)
            with open(p, encoding='utf-8') as f:
                src = f.read()
            if src.count(old) != 1:
                res['outcome'] = 'not-applicable'
                res['detail'] = 'locator found %d times in %s' % (src.count(old), file)
                return res
            src = src.replace(old, new)
            try:
                compile(src, p, 'exec')
            except SyntaxError as e:
                res['outcome'] = 'mutant-does-not-compile'
                res['detail'] = str(e)
                return res
            with open(p, 'w', encoding='utf-8') as f:
                f.write(src)
        code, ctx, violations, known, error = run_property(m['prop'], 'quick', only=m['rule'], repo_root=tmp,
                                                           quiet=True, write=False)
        files = set(e[0] for e in edits)
        if m['expect'] == 'violation':
            hit = [o for o in violations if o.rule == m['rule'] and
                   (m.get('anyfile') or o.file in files)]
            if m.get('must_mention'):
                hit = [o for o in hit if m['must_mention'] in (o.how + o.what + o.func + o.stmt)]
            res['outcome'] = 'detected' if hit else ('missed(exit %d%s)' % (code, ': ' + error[:200] if error else ''))
            if hit:
                res['detail'] = '%s:%s %s' % (hit[0].file, hit[0].line, hit[0].how[:160])
        elif m['expect'] == 'silent':
            res['outcome'] = 'silent' if code == 0 else 'false-alarm(exit %d)' % code
            if code != 0:
                res['detail'] = (error or '') + '; '.join('%s:%s %s' % (o.file, o.line, o.how[:120]) for o in violations[:3])
        elif m['expect'] == 'error':
            res['outcome'] = 'refused' if code == 2 else 'wrong(exit %d)' % code
            if code != 2:
                res['detail'] = '; '.join('%s:%s %s' % (o.file, o.line, o.how[:120]) for o in violations[:3])
        return res
    except Exception as e:   # pragma: no cover
        res['outcome'] = 'selftest-exception'
        res['detail'] = repr(e)
        return res
    finally:
        shutil.rmtree(tmp, ignore_errors=True)


GOOD = ('detected', 'silent', 'refused', 'not-applicable')


def run(mutants, jobs=16):
    if not mutants:
        return []
    with multiprocessing.Pool(min(jobs, len(mutants))) as pool:
        return pool.map(_run_one, mutants)


def run_for_property(pid):
    from droopsa.props import PROPS
    my_fns = dict(PROPS[pid]['rules'])

    class _Same(object):
        def __contains__(self, rid):
            return rid in my_fns
    my_rules = _Same()

    def same_rule(m):
        home = dict(PROPS.get(m['prop'], {}).get('rules', []))
        return m.get('rule') in my_fns and home.get(m['rule']) is my_fns[m['rule']]
    ms = []
    for m in load_mutants() + load_seeded() + load_transforms() + load_benign():
        if m.get('benign') and not m.get('own'):
            continue            # the thorough tier of a property runs the refactorings written for that property; the full cross
                                # product (every refactoring x every property) is `./check selftest benign` / tools/benign_status.py
        if m['prop'] == pid:
            ms.append(m)
        elif same_rule(m) and not m.get('patch') and not m.get('transform'):
            # a mutant written for another property whose rule also runs under this one: it must be reported here as well
            m2 = dict(m)
            m2['prop'] = pid
            m2['id'] = m['id'] + '@' + pid
            ms.append(m2)
    t0 = time.time()
    rs = run(ms)
    return dict(mutants=len(rs),
                detected=len([r for r in rs if r['outcome'] == 'detected']),
                twins_silent=len([r for r in rs if r['outcome'] == 'silent']),
                refused=len([r for r in rs if r['outcome'] == 'refused']),
                not_applicable=[r['id'] for r in rs if r['outcome'] == 'not-applicable'],
                misses=[dict(id=r['id'], outcome=r['outcome'], detail=r.get('detail')) for r in rs
                        if not r['outcome'].startswith(GOOD)],
                wall_s=round(time.time() - t0, 2))


def main(args, strict=False):
    ms = load_mutants() + load_seeded() + load_transforms() + load_benign()
    if args == ['core']:
        # mutants, seeded defects and renaming twins: everything except the (large) benign cross product
        ms = [m for m in ms if not m.get('benign')]
        args = []
    if args:
        ms = [m for m in ms if m['prop'] in args or m['rule'] in args or m['id'] in args or (args == ['seeded'] and m['id'].startswith('seeded-'))
              or (args == ['twins'] and m.get('transform')) or (args == ['benign'] and m.get('benign'))]
    rs = run(ms)
    bad = 0
    for r in rs:
        ok = r['outcome'].startswith(GOOD)
        if not ok:
            bad += 1
        print('%-8s %-5s %-5s %-48s %s%s' % ('ok' if ok else 'MISS', r['prop'], r['rule'] or '-', r['id'], r['outcome'],
                                             ('  -- ' + r['detail']) if r.get('detail') and not ok else ''))
    print('%d mutants/twins, %d not as expected' % (len(rs), bad))
    return 1 if (bad and strict) else 0
