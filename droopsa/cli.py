"""Command-line driver.  Exit codes: 0 ok, 1 VIOLATION, 2 ANALYSIS-ERROR."""
import json
import os
import sys
import time
import traceback

HERE = os.path.dirname(os.path.abspath(__file__))
sys.path.insert(0, os.path.dirname(HERE))

from droopsa.model import AnalysisError          # noqa: E402
from droopsa import report                        # noqa: E402


def run_property(pid, tier='quick', only=None, repo_root=None, quiet=False, write=True):
    """returns (exit_code, ctx, violations, known_matched, error)"""
    from droopsa.props import PROPS
    from droopsa.model import Repo
    t0 = time.time()
    if pid not in PROPS:
        print('ANALYSIS-ERROR property=%s unknown or not claimed' % pid)
        return 2, None, [], [], 'unknown property'
    spec = PROPS[pid]
    ctx = None
    error = None
    try:
        ctx = report.Ctx(Repo(repo_root) if repo_root else None)
        for rid, fn in spec['rules']:
            if only and rid != only:
                continue
            if getattr(fn, 'thorough_only', False) and tier != 'thorough':
                continue
            fn(ctx)
    except AnalysisError as e:
        error = str(e)
    except Exception as e:      # checker bug: never a pass, never a violation
        error = 'checker exception: %r\n%s' % (e, traceback.format_exc())
    known = report.load_known()
    violations = []
    known_matched = []
    if ctx is not None:
        for o in ctx.obligations:
            if o.ok:
                continue
            k = report.match_known(o, pid, known)
            if k is not None:
                known_matched.append(dict(rule=o.rule, file=o.file, function=o.func, what=k.get('what')))
                if not quiet:
                    print('KNOWN-FINDING: property=%s %s [%s %s:%s %s]' % (pid, k.get('what'), o.rule, o.file, o.line, o.func))
            else:
                violations.append(o)
    if ctx is not None and error is None and ctx.floor_failures and not violations:
        error = '; '.join(ctx.floor_failures)
    selftest = None
    if tier == 'thorough' and error is None and write:
        try:
            from droopsa import selftest as st
            selftest = st.run_for_property(pid)
        except Exception as e:
            selftest = dict(error='selftest failed to run: %r' % e)
    if write:
        path = report.write_evidence(pid, tier, ctx, spec, t0, violations, known_matched, selftest, error)
    code = 0
    if error is not None:
        if not quiet:
            print('ANALYSIS-ERROR property=%s %s' % (pid, error))
        code = 2
    if violations:
        for i, o in enumerate(violations):
            rp = report.write_replay(pid, i, o) if write else '-'
            if not quiet:
                print('%s:%s %s [%s] %s -- %s' % (o.file, o.line, o.func, o.rule, o.what, o.how))
                print('  statement: %s' % o.stmt)
                print('VIOLATION property=%s replay=%s' % (pid, rp))
        code = 1
    if not quiet:
        if ctx is not None:
            nob = len(ctx.obligations)
            nok = len([o for o in ctx.obligations if o.ok])
            st = ctx.repo.stats()
            print('%s: %d modules, %d functions, %d call sites analysed; %d obligations, %d discharged, '
                  '%d violation(s), %d known finding(s); %.2fs'
                  % (pid, st['modules'], st['functions'], st['call_sites'], nob, nok, len(violations),
                     len(known_matched), time.time() - t0))
            for k in sorted(ctx.counts):
                pass
    return code, ctx, violations, known_matched, error


def run_all_once(repo_root=None):
    """development helper: parse once, run every distinct rule once, map the (unknown) violations back to the
    properties that claim the rule.  Returns (flagged: {pid: [rules]}, refused: {pid: text})"""
    from droopsa.props import PROPS
    from droopsa.model import Repo
    ctx = report.Ctx(Repo(repo_root) if repo_root else None)
    known = report.load_known()
    done = {}
    for pid in sorted(PROPS):
        for rid, fn in PROPS[pid]['rules']:
            if fn in done:
                continue
            before = len(ctx.obligations)
            err = None
            try:
                fn(ctx)
            except AnalysisError as e:
                err = str(e)
            except Exception as e:
                err = 'checker exception: %r' % e
            done[fn] = ([o for o in ctx.obligations[before:] if not o.ok], err)
    floor_fail = list(ctx.floor_failures)
    flagged, refused = {}, {}
    for pid in sorted(PROPS):
        for rid, fn in PROPS[pid]['rules']:
            bad, err = done[fn]
            vs = [o for o in bad if report.match_known(o, pid, known) is None]
            if vs:
                flagged.setdefault(pid, set()).update(o.rule for o in vs)
            if err:
                refused[pid] = err[:160]
        if pid not in flagged and pid not in refused and floor_fail:
            rules_of = set(r for r, _ in PROPS[pid]['rules'])
            ff = [x for x in floor_fail if x.split(':')[0] in rules_of]
            if ff:
                refused[pid] = ff[0][:160]
    return {k: sorted(v) for k, v in flagged.items()}, refused


def main(argv):
    if not argv:
        print(__doc__)
        return 2
    if argv[0] == '--self-syntax':
        import compileall
        ok = compileall.compile_dir(HERE, quiet=1, force=True, legacy=False)
        import shutil
        for dp, dns, fns in os.walk(HERE):
            for d in dns:
                if d == '__pycache__':
                    shutil.rmtree(os.path.join(dp, d), ignore_errors=True)
        return 0 if ok else 2
    tier = os.environ.get('VERIF_TIER', 'quick')
    only = None
    args = []
    i = 0
    strict = False
    while i < len(argv):
        a = argv[i]
        if a == '--tier':
            tier = argv[i + 1]
            i += 2
        elif a == '--only':
            only = argv[i + 1]
            i += 2
        elif a == '--strict':
            strict = True
            i += 1
        elif a == '--replay':
            args.append(('replay', argv[i + 1]))
            i += 2
        else:
            args.append(a)
            i += 1
    if tier not in ('quick', 'thorough'):
        tier = 'quick'
    if args and args[0] == 'selftest':
        from droopsa import selftest as st
        return st.main(args[1:], strict=strict)
    if args and args[0] == 'replay':
        with open(args[1]) as f:
            rp = json.load(f)
        code, _, _, _, _ = run_property(rp['property'], tier, only=rp['finding']['rule'], write=False)
        return code
    if args and args[0] == 'all':
        from droopsa.props import PROPS
        worst = 0
        for pid in sorted(PROPS):
            code, _, _, _, _ = run_property(pid, tier, only, write=not os.environ.get('VERIF_NOWRITE'))
            worst = max(worst, code) if code != 1 else (1 if worst != 2 else worst)
        return worst
    code = 0
    for pid in args:
        c, _, _, _, _ = run_property(pid, tier, only, write=not os.environ.get('VERIF_NOWRITE'))
        code = max(code, c)
    return code


if __name__ == '__main__':
    try:
        rc = main(sys.argv[1:])
    except Exception as e:    # pragma: no cover
        print('ANALYSIS-ERROR checker crashed: %r' % e)
        traceback.print_exc()
        rc = 2
    sys.stdout.flush()
    sys.exit(rc)
