"""Path-sensitive search over a function CFG with a small set of facts.

Atoms (all about the *current* candidate state or about locals):
  H      C.hopeful() is non-empty
  P      C.pending() is non-empty
  G      len(C.hopeful()) > E.seatsLeftToFill()
  S      E.seatsLeftToFill() > 0
  N:x    local x is truthy (a non-empty list)
  T:x    local x holds the string token K        (value: K, or ('ne', frozenset(tokens)))
  R1     E.round == 1
Implications applied after every update:  G & S => H.

Facts about the candidate state are only meaningful while no status-changing call has been passed;
the searches built on this module never traverse such calls (they are the `cut` nodes), except
calls that may re-open a decided candidate (`unelect`), where H/P/G/S are dropped.
"""
import ast

from .model import call_name, const_str
from .cfg import calls_at


class Atoms:
    """maps condition expressions of one function to literals"""

    def __init__(self, ctx, func, bool_summaries=None, tokens=None):
        self.ctx = ctx
        self.func = func
        self.bool_summaries = bool_summaries or {}   # local function name -> formula
        self.tokens = tokens or {}                   # name -> string constant (IS_elected = 'elected')

    def _res(self, e):
        """a local with a single definition stands for that definition (`seatsLeft = E.seatsLeftToFill()`; `remaining = C.hopeful()`) -
        only for the side-effect-free expressions this fact domain reads"""
        seen = 0
        while isinstance(e, ast.Name) and seen < 3:
            defs = self.func.assigns().get(e.id) if hasattr(self.func, 'assigns') else None
            if not defs or len(defs) != 1 or not isinstance(defs[0][0], ast.Call):
                break
            v = defs[0][0]
            kind = call_name(v)
            ok = (kind[0] == 'attr' and self.ctx.canon(kind[1], self.func) == 'E.C') or self.ctx.canon(v.func, self.func) == 'E.seatsLeftToFill' \
                or (isinstance(v.func, ast.Name) and v.func.id == 'len' and len(v.args) == 1)
            if not ok:
                break
            e = v
            seen += 1
        return e

    def _is_sel(self, e, sel):
        e = self._res(e)
        if isinstance(e, ast.Call):
            kind, recv, nm = call_name(e)
            if kind == 'attr' and nm == sel and self.ctx.canon(recv, self.func) == 'E.C':
                return True
        return False

    def _len_sel(self, e, sel):
        e = self._res(e)
        return (isinstance(e, ast.Call) and isinstance(e.func, ast.Name) and e.func.id == 'len'
                and len(e.args) == 1 and self._is_sel(e.args[0], sel))

    def _is_seats_left(self, e):
        e = self._res(e)
        return isinstance(e, ast.Call) and self.ctx.canon(e.func, self.func) == 'E.seatsLeftToFill' \
            and not e.args

    def token_of(self, e):
        s = const_str(e)
        if s is not None:
            return s
        if isinstance(e, ast.Name) and e.id in self.tokens:
            return self.tokens[e.id]
        return None

    def _cmp(self, left, op, right):
        """formula for `left op right` or None"""
        inv = {ast.Gt: ast.Lt, ast.Lt: ast.Gt, ast.GtE: ast.LtE, ast.LtE: ast.GtE, ast.Eq: ast.Eq,
               ast.NotEq: ast.NotEq}
        for l, o, r in ((left, type(op), right), (right, inv.get(type(op)), left)):
            if o is None:
                continue
            if self._len_sel(l, 'hopeful') and self._is_seats_left(r):
                if o is ast.Gt:
                    return ('lit', 'G', True)
                if o is ast.LtE:
                    return ('lit', 'G', False)
            if self._is_seats_left(l) and isinstance(r, ast.Constant) and r.value == 0:
                if o is ast.Gt:
                    return ('lit', 'S', True)
                if o is ast.LtE:
                    return ('lit', 'S', False)
            # len(hopeful) + len(elected) <= nSeats  <=>  hopeful <= seats left  <=>  not G
            if isinstance(l, ast.BinOp) and isinstance(l.op, ast.Add) and self.ctx.canon(r, self.func) == 'E.nSeats':
                ps = [l.left, l.right]
                if any(self._len_sel(x, 'hopeful') for x in ps) and any(self._len_sel(x, 'elected') for x in ps):
                    if o is ast.LtE:
                        return ('lit', 'G', False)
                    if o is ast.Gt:
                        return ('lit', 'G', True)
            # len(hopeful) > nSeats  (>= seats left): G0, which implies G
            if self._len_sel(l, 'hopeful') and self.ctx.canon(r, self.func) == 'E.nSeats':
                if o is ast.Gt:
                    return ('lit', 'G0', True)
                if o is ast.LtE:
                    return ('lit', 'G0', False)
            if self._len_sel(l, 'hopeful') and isinstance(r, ast.Constant) and r.value == 0:
                if o is ast.Gt:
                    return ('lit', 'H', True)
                if o in (ast.LtE, ast.Eq):
                    return ('lit', 'H', False)
            if isinstance(l, ast.Name) and o in (ast.Eq, ast.NotEq):
                k = self.token_of(r)
                if k is not None and not (isinstance(r, ast.Name) and r.id == l.id):
                    return ('tok', l.id, k, o is ast.Eq)
            if self.ctx.canon(l, self.func) == 'E.round' and isinstance(r, ast.Constant) and r.value == 1 \
                    and o in (ast.Eq, ast.NotEq):
                return ('lit', 'R1', o is ast.Eq)
        return None

    def formula(self, e):
        """boolean formula of an expression: ('lit', atom, pol) | ('tok', var, K, eq) |
        ('and', [..]) | ('or', [..]) | ('not', f) | ('unk',)"""
        if isinstance(e, ast.BoolOp):
            return ('and' if isinstance(e.op, ast.And) else 'or', [self.formula(v) for v in e.values])
        if isinstance(e, ast.UnaryOp) and isinstance(e.op, ast.Not):
            return ('not', self.formula(e.operand))
        if isinstance(e, ast.Compare):
            parts = []
            left = e.left
            for op, right in zip(e.ops, e.comparators):
                f = self._cmp(left, op, right)
                parts.append(f if f is not None else _unk(e))
                left = right
            return parts[0] if len(parts) == 1 else ('and', parts)
        if self._is_sel(e, 'hopeful'):
            return ('lit', 'H', True)
        if self._is_sel(e, 'pending'):
            return ('lit', 'P', True)
        if isinstance(e, ast.Name):
            return ('lit', 'N:' + e.id, True)
        if isinstance(e, ast.Call) and isinstance(e.func, ast.Name) and e.func.id in ('bool', 'len') and len(e.args) == 1 and isinstance(e.args[0], ast.Name) \
                and not e.keywords:
            return ('lit', 'N:' + e.args[0].id, True)       # bool(xs) / len(xs) as a truth value: xs is non-empty
        if isinstance(e, ast.Call) and isinstance(e.func, ast.Name) and e.func.id in self.bool_summaries \
                and not e.args:
            return self.bool_summaries[e.func.id]
        if isinstance(e, ast.Constant):
            return ('const', bool(e.value))
        return _unk(e)


_UNK = [0]


def _unk(e=None):
    """an unknown sub-formula: every occurrence is its own free boolean (the literal tuple ('unk',) is ONE interned object, so two
    different unknown conditions would otherwise be taken for the same atom: `not X and Y` became unsatisfiable)"""
    _UNK[0] += 1
    return ('unk', _UNK[0])


def _atoms_of(f, acc):
    k = f[0]
    if k == 'lit':
        acc.add(('lit', f[1]))
    elif k == 'tok':
        acc.add(('tok', f[1], f[2]))
    elif k == 'not':
        _atoms_of(f[1], acc)
    elif k in ('and', 'or'):
        for g in f[1]:
            _atoms_of(g, acc)
    elif k == 'unk':
        acc.add(('unk', f[1] if len(f) > 1 else id(f)))
    return acc


def _eval(f, env):
    k = f[0]
    if k == 'const':
        return f[1]
    if k == 'lit':
        return env[('lit', f[1])] == f[2]
    if k == 'tok':
        return env[('tok', f[1], f[2])] == f[3]
    if k == 'not':
        return not _eval(f[1], env)
    if k == 'and':
        return all(_eval(g, env) for g in f[1])
    if k == 'or':
        return any(_eval(g, env) for g in f[1])
    return env[('unk', f[1] if len(f) > 1 else id(f))]


def literals(f, truth):
    """the literals entailed by `formula f has value truth` (exact, by enumeration over the atoms of
    f; unknown sub-expressions are free booleans); [] = no information; None = impossible"""
    atoms = sorted(_atoms_of(f, set()), key=repr)
    if len(atoms) > 10:
        return []
    sat = []
    for bits in range(1 << len(atoms)):
        env = {a: bool(bits >> i & 1) for i, a in enumerate(atoms)}
        if _eval(f, env) == truth:
            sat.append(env)
    if not sat:
        return None
    out = []
    for a in atoms:
        if a[0] == 'unk':
            continue
        vals = set(e[a] for e in sat)
        if len(vals) == 1:
            v = vals.pop()
            if a[0] == 'lit':
                out.append(('lit', a[1], v))
            else:
                out.append(('tok', a[1], a[2], v))
    return out


def apply_literals(facts, lits):
    """facts: dict; returns new dict or None on contradiction"""
    if lits is None:
        return None
    new = dict(facts)
    for l in lits:
        if l[0] == 'lit':
            a, v = l[1], l[2]
            if a in new and new[a] != v:
                return None
            new[a] = v
        else:
            _, var, K, eq = l
            key = 'T:' + var
            cur = new.get(key)
            if eq:
                if isinstance(cur, str) and cur != K:
                    return None
                if isinstance(cur, tuple) and K in cur[1]:
                    return None
                new[key] = K
            else:
                if isinstance(cur, str):
                    if cur == K:
                        return None
                elif isinstance(cur, tuple):
                    new[key] = ('ne', cur[1] | frozenset([K]))
                else:
                    new[key] = ('ne', frozenset([K]))
    # implications
    if new.get('G0') is True:          # hopeful > seats >= seats left
        if new.get('G') is False:
            return None
        new['G'] = True
    if new.get('G') is True and new.get('S') is True:
        if new.get('H') is False:
            return None
        new['H'] = True
    if new.get('H') is False and new.get('S') is True:
        if new.get('G') is True:
            return None
        new['G'] = False
    return new


def bool_summary(ctx, func, atoms):
    """formula for the value returned by a small boolean helper (countComplete): a sequence of
    `if c: return True/False` and a final `return <expr>`; None if not of that shape"""
    def walk(stmts):
        # returns formula of 'function returns True' for this statement list (must end in return)
        if not stmts:
            return None
        st = stmts[0]
        if isinstance(st, ast.Expr) and isinstance(st.value, ast.Constant):
            return walk(stmts[1:])
        if isinstance(st, ast.Assign) and len(st.targets) == 1 and isinstance(st.targets[0], ast.Name):
            # a local naming a sub-expression (`seatsLeft = E.seatsLeftToFill()`): Atoms._res reads through it
            return walk(stmts[1:])
        if isinstance(st, ast.Return):
            if st.value is None:
                return None
            return atoms.formula(st.value)
        if isinstance(st, ast.If):
            c = atoms.formula(st.test)
            t = walk(st.body + stmts[1:]) if not _ends_in_return(st.body) else walk(st.body)
            e = walk(st.orelse + stmts[1:]) if not _ends_in_return(st.orelse) else walk(st.orelse)
            if t is None or e is None:
                return None
            return ('or', [('and', [c, t]), ('and', [('not', c), e])])
        return None
    f = walk(func.node.body)
    return simplify(f) if f is not None else None


def _ends_in_return(stmts):
    return bool(stmts) and isinstance(stmts[-1], ast.Return)


def simplify(f):
    k = f[0]
    if k == 'not':
        g = simplify(f[1])
        if g[0] == 'const':
            return ('const', not g[1])
        if g[0] == 'not':
            return g[1]
        return ('not', g)
    if k in ('and', 'or'):
        parts = []
        for g in f[1]:
            g = simplify(g)
            if g[0] == 'const':
                if (k == 'and') != g[1]:
                    return ('const', g[1])      # and-with-False / or-with-True
                continue
            if g[0] == k:
                parts += g[1]
            else:
                parts.append(g)
        if not parts:
            return ('const', k == 'and')
        if len(parts) == 1:
            return parts[0]
        return (k, parts)
    return f


def freeze(facts):
    return frozenset(facts.items())


def search(cfg, start, facts0, target, cut_nodes, atoms, cut_edge=None, on_node=None, nonempty_iter=None,
           accept=None, follow_exc=False):
    """Is `target` reachable from CFG node `start` (start's out-edges are taken first) along a
    path that (a) never enters a node of cut_nodes, (b) never takes an edge for which
    cut_edge(node, label, facts) is true, (c) is consistent with the facts collected from the test
    outcomes along it?  Returns a witness [(node, label)] or None.

    on_node(node, facts) -> facts | None : transfer for assignments etc. (None = prune)
    nonempty_iter(node, facts) -> bool   : a `for` head whose iterable is known non-empty on first
                                           arrival (its exhausted edge is then infeasible)
    """
    seen = set()
    # a start inside the body of `for v in xs` (xs a never-mutated local): xs is non-empty there
    st_ = getattr(start, 'ast', None)
    par_ = getattr(st_, 'parent', None) if st_ is not None else None
    while par_ is not None and not isinstance(par_, (ast.FunctionDef, ast.AsyncFunctionDef)):
        if isinstance(par_, ast.For) and isinstance(par_.iter, ast.Name) and st_ is not par_ and not any(st_ is o or any(st_ is y for y in ast.walk(o)) for o in par_.orelse) \
                and _stable_list_local(par_, par_.iter.id) and ('N:' + par_.iter.id) not in facts0:
            facts0 = dict(facts0)
            facts0['N:' + par_.iter.id] = True
        par_ = getattr(par_, 'parent', None)
    stack = [(start, facts0, [], True)]
    while stack:
        node, facts, path, first = stack.pop()
        key = (node.id, freeze(facts), first)
        if key in seen:
            continue
        seen.add(key)
        for t, lab in node.succ:
            f2 = facts
            if lab == 'exc' and not follow_exc:
                continue
            if node.kind == 'test' and lab in (True, False):
                lits = literals(atoms.formula(node.ast.test), lab)
                f2 = apply_literals(facts, lits)
                if f2 is None:
                    continue
            if node.kind == 'iter' and lab is False and first and nonempty_iter is not None \
                    and nonempty_iter(node, facts):
                continue
            if node.kind == 'iter' and lab in (True, False) and isinstance(getattr(node.ast, 'iter', None), ast.Name) \
                    and _stable_list_local(node.ast, node.ast.iter.id):
                # `for v in xs` over a local that is only ever assigned, looped over and tested: running the body means xs is
                # non-empty, skipping the loop on first arrival means it is empty (the fact dies with the next assignment to xs)
                if lab is True:
                    f2 = apply_literals(f2, [('lit', 'N:' + node.ast.iter.id, True)])
                elif first:
                    f2 = apply_literals(f2, [('lit', 'N:' + node.ast.iter.id, False)])
                if f2 is None:
                    continue
            if cut_edge is not None and cut_edge(node, lab, f2):
                continue
            if t in cut_nodes:
                continue
            p2 = path + [(node, lab)]
            if t is target:
                return p2 + [(t, None)]
            if accept is not None and accept(t, f2):
                return p2 + [(t, None)]
            f3 = f2
            if on_node is not None:
                f3 = on_node(t, f2)
                if f3 is None:
                    continue
            # arriving at a for-head through its back edge is not a "first" arrival
            is_first = True
            if t.kind == 'iter':
                is_first = not _inside(node, t)
            stack.append((t, f3, p2, is_first))
    return None


_STABLE = {}


def _stable_list_local(loop, name):
    """name is a local of the function enclosing `loop` that is never mutated in place: every occurrence is a plain assignment
    target, a for-iterable, a truth test (`if xs`, `not xs`, `while xs`), len(xs), a return value or an element of a returned tuple"""
    fn = loop
    while fn is not None and not isinstance(fn, (ast.FunctionDef, ast.AsyncFunctionDef)):
        fn = getattr(fn, 'parent', None)
    if fn is None:
        return False
    key = (id(fn), name)
    if key in _STABLE and _STABLE[key][0] is fn:
        return _STABLE[key][1]
    ok = name not in [a.arg for a in fn.args.posonlyargs + fn.args.args + fn.args.kwonlyargs]
    for n in ast.walk(fn):
        if not ok:
            break
        if isinstance(n, ast.Name) and n.id == name:
            par = getattr(n, 'parent', None)
            if isinstance(n.ctx, ast.Store):
                ok = isinstance(par, ast.Assign) and n in par.targets
            elif isinstance(par, ast.For) and par.iter is n:
                pass
            elif isinstance(par, (ast.If, ast.While)) and par.test is n:
                pass
            elif isinstance(par, ast.UnaryOp) and isinstance(par.op, ast.Not):
                pass
            elif isinstance(par, ast.BoolOp):
                pass
            elif isinstance(par, ast.Call) and isinstance(par.func, ast.Name) and par.func.id in ('len', 'bool') and par.args == [n]:
                pass
            elif isinstance(par, ast.Return) or (isinstance(par, ast.Tuple) and isinstance(getattr(par, 'parent', None), ast.Return)):
                pass
            else:
                ok = False
        elif isinstance(n, (ast.Global, ast.Nonlocal)) and name in n.names:
            ok = False
    _STABLE[key] = (fn, ok)
    return ok


def _inside(node, loop_head):
    """is `node` (a CFG node) lexically inside the body of the loop whose head is loop_head?"""
    st = node.ast
    loop = loop_head.ast
    while st is not None:
        if st is loop:
            return node is not loop_head
        st = getattr(st, 'parent', None)
    return False


def describe(path):
    out = []
    for n, lab in path:
        ln = n.line
        s = ('L%d' % ln) if ln else n.kind
        if lab in (True, False):
            s += '[%s]' % ('T' if lab else 'F')
        out.append(s)
    return ' -> '.join(out)
