"""Guarded-return summaries: what a small straight-line/branching helper returns, as a list of (conditions, expression) pairs.

The summary is computed by forward substitution of single-assignment style locals (no solver, no values): each path through the
if/else structure of the body contributes one pair, the conditions being the (test, truth) list of the branches taken and the
expression being the returned expression with every local replaced by the expression it was bound to on that path.  Conditional
expressions in a returned value are split into paths as well, and a leading `not` in a condition is folded into its truth value.

This makes a rule that reads "on the exact branch the function returns A, otherwise B" independent of how the branches are
written: if/else with returns, early returns, a conditional expression, a result local updated under a condition, `+=`.

Helpers with loops, try/with or calls evaluated for their effects are not summarised (None): the caller falls back or refuses.
"""
import ast
import copy


class _Sub(ast.NodeTransformer):
    def __init__(self, env):
        self.env = env

    def visit_Name(self, node):
        if isinstance(node.ctx, ast.Load) and node.id in self.env and self.env[node.id] is not None:
            return ast.copy_location(copy.deepcopy(self.env[node.id]), node)
        return node

    def visit_Lambda(self, node):
        return node

    def visit_ListComp(self, node):
        return self._comp(node)

    visit_SetComp = visit_GeneratorExp = visit_DictComp = visit_ListComp

    def _comp(self, node):
        bound = {t.id for g in node.generators for t in ast.walk(g.target) if isinstance(t, ast.Name)}
        if bound & set(self.env):
            return node
        self.generic_visit(node)
        return node


def _subst(e, env):
    return _Sub(env).visit(copy.deepcopy(e))


def _strip_not(test, truth):
    while isinstance(test, ast.UnaryOp) and isinstance(test.op, ast.Not):
        test, truth = test.operand, not truth
    return test, truth


def _split_ifexp(conds, e, deep=False):
    """split conditional expressions of e into paths: the top-level ones, and with deep=True the first one found anywhere inside
    (outside lambdas / comprehensions), repeatedly"""
    if isinstance(e, ast.IfExp):
        t, tr = _strip_not(e.test, True)
        return _split_ifexp(conds + [(t, tr)], e.body, deep) + _split_ifexp(conds + [(t, not tr)], e.orelse, deep)
    if deep:
        target = None
        stack = [e]
        while stack and target is None:
            x = stack.pop(0)
            for ch in ast.iter_child_nodes(x):
                if isinstance(ch, (ast.Lambda, ast.ListComp, ast.SetComp, ast.DictComp, ast.GeneratorExp)):
                    continue
                if isinstance(ch, ast.IfExp):
                    target = ch
                    break
                stack.append(ch)
        if target is not None:
            out = []
            t, tr = _strip_not(target.test, True)
            for branch, truth in ((target.body, tr), (target.orelse, not tr)):
                e2 = _replace_first_ifexp(e, branch)
                out += _split_ifexp(conds + [(t, truth)], e2, deep)
            return out
    return [(conds, e)]


def _replace_first_ifexp(e, branch_of):
    """copy of e with the first (breadth-first, outside lambdas/comprehensions) IfExp replaced by a copy of branch_of"""
    e = copy.deepcopy(e)
    # locate the first IfExp in the copy in the same traversal order
    stack = [e]
    while stack:
        x = stack.pop(0)
        for fld, val in ast.iter_fields(x):
            items = val if isinstance(val, list) else [val]
            for i, ch in enumerate(items):
                if not isinstance(ch, ast.AST) or isinstance(ch, (ast.Lambda, ast.ListComp, ast.SetComp, ast.DictComp, ast.GeneratorExp)):
                    continue
                if isinstance(ch, ast.IfExp):
                    # which branch: compare by dump with the original branches
                    new = copy.deepcopy(ch.body if ast.dump(ch.body) == ast.dump(branch_of) else ch.orelse)
                    if isinstance(val, list):
                        val[i] = new
                    else:
                        setattr(x, fld, new)
                    return e
                stack.append(ch)
    return e


def _never_none(e):
    return isinstance(e, (ast.JoinedStr, ast.List, ast.Tuple, ast.Dict, ast.Set, ast.ListComp, ast.BinOp)) or \
        (isinstance(e, ast.Constant) and e.value is not None) or \
        (isinstance(e, ast.Call) and isinstance(e.func, ast.Name) and e.func.id in ('str', 'int', 'len', 'list', 'dict', 'set', 'tuple', 'repr', 'abs', 'sorted'))


def _decide(t):
    """truth value of a test that needs no knowledge of the state, else None"""
    if isinstance(t, ast.Constant):
        return bool(t.value)
    if isinstance(t, ast.Compare) and len(t.ops) == 1 and isinstance(t.ops[0], (ast.Is, ast.IsNot)) \
            and isinstance(t.comparators[0], ast.Constant) and t.comparators[0].value is None:
        is_ = isinstance(t.ops[0], ast.Is)
        if isinstance(t.left, ast.Constant) and t.left.value is None:
            return is_
        if _never_none(t.left):
            return not is_
    return None


def _first_ifexp(nodes):
    for n in nodes:
        stack = [n]
        while stack:
            x = stack.pop(0)
            if isinstance(x, ast.IfExp):
                return x
            for ch in ast.iter_child_nodes(x):
                if not isinstance(ch, (ast.Lambda, ast.ListComp, ast.SetComp, ast.DictComp, ast.GeneratorExp)):
                    stack.append(ch)
    return None


def _choose(node, test_dump, take_body):
    """copy of node with every IfExp whose test dumps as test_dump replaced by its body / orelse"""
    class R(ast.NodeTransformer):
        def visit_IfExp(self, n):
            self.generic_visit(n)
            if ast.dump(n.test) == test_dump:
                return n.body if take_body else n.orelse
            return n
    return R().visit(copy.deepcopy(node))


def _resolve_all_ifexps(paths, max_paths):
    """every conditional expression left inside a returned expression or a condition is decided: the path forks on its test, and
    all conditional expressions with the same test (in the expression and in the conditions collected so far) take the same branch"""
    work = list(paths)
    done = []
    while work:
        conds, e, st = work.pop()
        nodes = ([e] if e is not None else []) + [t for t, _ in conds]
        ie = _first_ifexp(nodes)
        if ie is None:
            done.append((conds, e, st))
            continue
        if len(done) + len(work) > max_paths:
            return None
        td = ast.dump(ie.test)
        t0, tr0 = _strip_not(copy.deepcopy(ie.test), True)
        for take in (True, False):
            c2 = [(_choose(t, td, take), tr) for t, tr in conds] + [(t0, tr0 if take else not tr0)]
            e2 = _choose(e, td, take) if e is not None else None
            work.append((c2, e2, st))
    return done


def guarded_returns(fn_node, max_paths=64, deep_ifexp=False):
    """[(conds, expr, return_stmt)] or None.  conds: list of (test ast, bool); expr: substituted expression (None for a bare return /
    falling off the end); return_stmt: the Return statement of the real tree the path ends in (None when falling off the end)."""
    out = []

    class Refuse(Exception):
        pass

    def is_doc(st):
        return isinstance(st, ast.Expr) and isinstance(st.value, ast.Constant)

    def run(stmts, env, conds):
        for i, st in enumerate(stmts):
            if is_doc(st) or isinstance(st, ast.Pass):
                continue
            if isinstance(st, ast.Return):
                if st.value is None:
                    out.append((conds, None, st))
                else:
                    for c2, e2 in _split_ifexp(list(conds), _subst(st.value, env)):
                        out.append((c2, e2, st))
                if len(out) > max_paths:
                    raise Refuse()
                return
            if isinstance(st, ast.Assign) and len(st.targets) == 1 and isinstance(st.targets[0], ast.Name):
                v = _subst(st.value, env)
                env = dict(env)
                env[st.targets[0].id] = v
                continue
            if isinstance(st, ast.Assign) and len(st.targets) == 1 and isinstance(st.targets[0], ast.Tuple) \
                    and all(isinstance(t_, ast.Name) for t_ in st.targets[0].elts):
                names = [t_.id for t_ in st.targets[0].elts]
                if isinstance(st.value, ast.IfExp):
                    # `a, b = X if c else Y`: the two assignments under an if
                    syn = ast.copy_location(ast.If(test=st.value.test,
                                                   body=[ast.copy_location(ast.Assign(targets=st.targets, value=st.value.body), st)],
                                                   orelse=[ast.copy_location(ast.Assign(targets=st.targets, value=st.value.orelse), st)]), st)
                    run([syn] + list(stmts[i + 1:]), env, conds)
                    return
                v = _subst(st.value, env)
                vals = None
                if isinstance(v, ast.Tuple) and len(v.elts) == len(names):
                    vals = list(v.elts)
                elif isinstance(v, ast.Call) and isinstance(v.func, ast.Name) and v.func.id == 'divmod' and len(v.args) == 2 and len(names) == 2:
                    vals = [ast.BinOp(left=copy.deepcopy(v.args[0]), op=ast.FloorDiv(), right=copy.deepcopy(v.args[1])),
                            ast.BinOp(left=copy.deepcopy(v.args[0]), op=ast.Mod(), right=copy.deepcopy(v.args[1]))]
                if vals is None:
                    raise Refuse()
                env = dict(env)
                for nm_, vl_ in zip(names, vals):
                    env[nm_] = ast.copy_location(vl_, st)
                continue
            if isinstance(st, ast.AnnAssign) and isinstance(st.target, ast.Name) and st.value is not None:
                v = _subst(st.value, env)
                env = dict(env)
                env[st.target.id] = v
                continue
            if isinstance(st, ast.AugAssign) and isinstance(st.target, ast.Name):
                cur = env.get(st.target.id) or ast.Name(id=st.target.id, ctx=ast.Load())
                v = ast.copy_location(ast.BinOp(left=copy.deepcopy(cur), op=st.op, right=_subst(st.value, env)), st)
                env = dict(env)
                env[st.target.id] = v
                continue
            if isinstance(st, ast.If):
                t, tr = _strip_not(_subst(st.test, env), True)
                rest = stmts[i + 1:]
                known = _decide(t)
                if known is not None:
                    # the substituted test is a constant fact (`None is None`, `str(x) is None`): only one branch exists
                    run(list(st.body if known == tr else st.orelse) + list(rest), env, conds)
                    return
                run(list(st.body) + list(rest), env, conds + [(t, tr)])
                run(list(st.orelse) + list(rest), env, conds + [(t, not tr)])
                return
            if isinstance(st, ast.Assert):
                continue
            if isinstance(st, ast.Raise):
                return              # a path that raises returns nothing: it contributes no pair
            raise Refuse()
        out.append((conds, None, None))
        if len(out) > max_paths:
            raise Refuse()

    try:
        run(list(fn_node.body), {}, [])
    except Refuse:
        return None
    if deep_ifexp:
        out = _resolve_all_ifexps(out, max_paths)
        if out is None:
            return None
    for conds, e, st in out:
        if e is not None:
            ast.fix_missing_locations(e)
    return out


# ---------------------------------------------------------------------------
# canonical path sets: comparison of two value-returning definitions independent of how their branches are written
# ---------------------------------------------------------------------------

def _canon_cond(test, truth, render):
    """one condition as (text, truth) with the four inequality spellings of one relation collapsed:
       a < b | not a >= b | b > a | not b <= a   ->  ('<', a, b) True"""
    test, truth = _strip_not(test, truth)
    if isinstance(test, ast.Compare) and len(test.ops) == 1:
        a, b = render(test.left), render(test.comparators[0])
        op = type(test.ops[0])
        if op is ast.Lt:
            return ('<', a, b), truth
        if op is ast.GtE:
            return ('<', a, b), not truth
        if op is ast.Gt:
            return ('<', b, a), truth
        if op is ast.LtE:
            return ('<', b, a), not truth
        if op in (ast.Eq, ast.NotEq):
            x, y = sorted([a, b])
            return ('==', x, y), truth if op is ast.Eq else not truth
        if op in (ast.Is, ast.IsNot):
            x, y = sorted([a, b])
            return ('is', x, y), truth if op is ast.Is else not truth
    return ('t', render(test)), truth


def expand_properties(e, props, selfname):
    """replace `self.<p>` by the expression a @property p of the same class returns (props: name -> (expr ast, its self name))"""
    class X(ast.NodeTransformer):
        def visit_Attribute(self, node):
            self.generic_visit(node)
            if isinstance(node.value, ast.Name) and node.value.id == selfname and node.attr in props and isinstance(node.ctx, ast.Load):
                pe, pself = props[node.attr]
                c = copy.deepcopy(pe)
                if pself != selfname:
                    for y in ast.walk(c):
                        if isinstance(y, ast.Name) and y.id == pself:
                            y.id = selfname
                return c
            return node
    return X().visit(copy.deepcopy(e))


def canon_paths(fn_node, props=None):
    """frozenset of (frozenset of canonical conditions, canonical expression text) for a value-returning function, parameters renamed
    positionally; None when the function cannot be summarised or some path returns nothing.  Contradictory paths (the same
    condition required both ways) are dropped."""
    gr = guarded_returns(fn_node)
    if gr is None or any(e is None for _, e, _ in gr):
        return None
    params = [a.arg for a in fn_node.args.posonlyargs + fn_node.args.args + fn_node.args.kwonlyargs]
    pmap = {p: '_p%d' % i for i, p in enumerate(params)}
    selfname = params[0] if params else None

    def render(e):
        e = copy.deepcopy(e)
        if props and selfname:
            e = expand_properties(e, props, selfname)
        # comprehension / lambda variables numbered in order of occurrence
        local = {}
        for x in ast.walk(e):
            if isinstance(x, ast.Name) and isinstance(x.ctx, ast.Store) and x.id not in local:
                local[x.id] = '_v%d' % len(local)
            elif isinstance(x, ast.Lambda):
                for a in x.args.args:
                    if a.arg not in local:
                        local[a.arg] = '_v%d' % len(local)
        for x in ast.walk(e):
            if isinstance(x, ast.Name):
                x.id = local.get(x.id, pmap.get(x.id, x.id))
            elif isinstance(x, ast.arg):
                x.arg = local.get(x.arg, x.arg)
        return ast.unparse(e)

    out = set()
    for conds, e, _st in gr:
        cs = {}
        dead = False
        for t, tr in conds:
            t2 = expand_properties(t, props, selfname) if props and selfname else t
            k, v = _canon_cond(t2, tr, render)
            if k in cs and cs[k] != v:
                dead = True
                break
            cs[k] = v
        if dead:
            continue
        ee = expand_properties(e, props, selfname) if props and selfname else e
        for c2, e2 in _split_ifexp([], ee):
            cs2 = dict(cs)
            bad = False
            for t, tr in c2:
                k, v = _canon_cond(t, tr, render)
                if k in cs2 and cs2[k] != v:
                    bad = True
                    break
                cs2[k] = v
            if not bad:
                out.add((frozenset(cs2.items()), render(e2)))
    return frozenset(out)
