"""Obligation bookkeeping, findings, known-findings matching, evidence files."""
import json
import os
import time

from .model import Repo, Scope, AnalysisError, norm_stmt, unparse

VERIF = os.path.dirname(os.path.dirname(os.path.abspath(__file__)))


class Obligation:
    __slots__ = ('rule', 'file', 'func', 'line', 'stmt', 'what', 'how', 'ok', 'nontrivial', 'extra')

    def __init__(self, rule, file, func, line, stmt, what, how, ok, nontrivial=True, extra=None):
        self.rule = rule
        self.file = file
        self.func = func
        self.line = line
        self.stmt = stmt
        self.what = what
        self.how = how
        self.ok = ok
        self.nontrivial = nontrivial
        self.extra = extra

    def key(self):
        return (self.rule, self.file, self.func, self.stmt, self.what)

    def as_dict(self):
        d = dict(rule=self.rule, file=self.file, function=self.func, line=self.line,
                 statement=self.stmt, obligation=self.what,
                 how_discharged=self.how if self.ok else None,
                 ok=self.ok)
        if not self.ok:
            d['violation'] = self.how
        if self.extra:
            d['detail'] = self.extra
        return d


class Ctx:
    """per-run context shared by the rules of one property"""

    def __init__(self, repo=None):
        self.repo = repo or Repo()
        self.obligations = []
        self.info = []
        self.counts = {}
        self._scopes = {}
        self.assumptions = []
        self._seen = set()
        self.floor_failures = []

    def scope(self, func):
        if func.qualname not in self._scopes:
            self._scopes[func.qualname] = Scope(self.repo, func)
        return self._scopes[func.qualname]

    def canon(self, expr, func):
        return self.scope(func).canon(expr, func)

    def _mk(self, rule, node, func, what, how, ok, nontrivial, extra):
        m = getattr(node, 'srcmod', None) if node is not None else None
        if m is None and func is not None and hasattr(func, 'module'):
            m = func.module
        file = m.relpath if m is not None else '?'
        line = getattr(node, 'lineno', 0) if node is not None else 0
        stmt = ''
        if node is not None:
            st = self.repo.enclosing_stmt(node) if not hasattr(node, 'body') else node
            stmt = norm_stmt(st if st is not None else node)
        fq = func.qualname if hasattr(func, 'qualname') else (func or '')
        o = Obligation(rule, file, fq, line, stmt, what, how, ok, nontrivial, extra)
        k = o.key() + (ok,)
        if k in self._seen:
            return None
        self._seen.add(k)
        self.obligations.append(o)
        return o

    def ok(self, rule, node, func, what, how, nontrivial=True, extra=None):
        return self._mk(rule, node, func, what, how, True, nontrivial, extra)

    def bad(self, rule, node, func, what, why, extra=None):
        return self._mk(rule, node, func, what, why, False, True, extra)

    def check(self, cond, rule, node, func, what, how, why, nontrivial=True, extra=None):
        if cond:
            return self.ok(rule, node, func, what, how, nontrivial, extra)
        return self.bad(rule, node, func, what, why, extra)

    def note(self, rule, text):
        self.info.append('%s: %s' % (rule, text))

    def count(self, rule, n=1):
        self.counts[rule] = self.counts.get(rule, 0) + n

    def floor(self, rule, name, got, floor):
        """instance floor: fewer instances than confirmed by reading => analysis error"""
        self.counts['%s.%s' % (rule, name)] = got
        if got < floor:
            # deferred: reported as ANALYSIS-ERROR by the driver unless the run found a violation anyway
            self.floor_failures.append('%s: only %d instance(s) of "%s" found, floor is %d - the rule would pass '
                                'vacuously (anchor moved or idiom changed)' % (rule, got, name, floor))

    def unrecognised(self, rule, node, func, what, detail):
        """the construct this obligation is about was not found in any shape the rule can read: the rule cannot tell a reshaped step
        from a missing one, so it REFUSES (exit 2, deferred like an instance floor) instead of reporting a violation"""
        m = getattr(node, 'srcmod', None) if node is not None else None
        where = '%s:%s' % (m.relpath, getattr(node, 'lineno', 0)) if m is not None else (func.qualname if hasattr(func, 'qualname') else str(func or ''))
        msg = '%s: %s - %s [%s]' % (rule, what, detail, where)
        if msg not in self.floor_failures:
            self.floor_failures.append(msg)

    def assume(self, text):
        if text not in self.assumptions:
            self.assumptions.append(text)


# ---------------------------------------------------------------------------
# known findings
# ---------------------------------------------------------------------------

def load_known():
    p = os.path.join(VERIF, 'known_findings.json')
    if not os.path.exists(p):
        return dict(findings=[], fixed=[])
    with open(p) as f:
        return json.load(f)


def match_known(o, prop, known):
    for k in known.get('findings', []):
        props = k.get('properties') or [k.get('property')]
        if prop not in props:
            continue
        key = k.get('key', {})
        if k.get('rule') == o.rule and key.get('file') == o.file and key.get('function') == o.func \
                and key.get('stmt') == o.stmt and key.get('obligation', o.what) == o.what:
            return k
    return None


# ---------------------------------------------------------------------------
# evidence
# ---------------------------------------------------------------------------

def write_evidence(prop, tier, ctx, spec, t0, violations, known_matched, selftest=None, error=None):
    ev_dir = os.path.join(VERIF, 'evidence')
    os.makedirs(ev_dir, exist_ok=True)
    obs = ctx.obligations if ctx is not None else []
    discharged = [o for o in obs if o.ok]
    nontrivial_keys = set(o.key() for o in obs if o.nontrivial)
    samples = []
    seen_rules = {}
    for o in obs:
        if not o.nontrivial:
            continue
        seen_rules.setdefault(o.rule, 0)
        if seen_rules[o.rule] < 3:
            seen_rules[o.rule] += 1
            samples.append(o.as_dict())
    for o in violations[:10]:
        samples.append(o.as_dict())
    per_rule = {}
    for o in obs:
        r = per_rule.setdefault(o.rule, dict(obligations=0, discharged=0))
        r['obligations'] += 1
        if o.ok:
            r['discharged'] += 1
    seed = 0
    try:
        seed = int(os.environ.get('VERIF_SEED', '0'))
    except ValueError:
        seed = 0
    cov = dict(
        explanation=spec['explanation'] + ('  ANALYSIS-ERROR: %s' % error if error else ''),
        clauses_decided=spec.get('decided', []),
        clauses_declined=spec.get('declined', []),
        obligations=len(obs),
        discharged=len(discharged),
        evaluations=max(len(obs), 1),
        distinct_nontrivial=len(nontrivial_keys),
        rule='obligations are enumerated from /repo\'s current source by the rules listed in per_rule '
             '(each call site / store / loop / path / class attribute that the rule quantifies over is one '
             'obligation); an obligation is non-trivial when discharging it needed a path, dominance, '
             'def-use, provenance or abstract-interpretation argument rather than the mere presence of a '
             'construct; distinct = distinct (rule, file, function, statement, obligation) keys',
        samples=samples or [dict(note='no obligations (analysis error before enumeration)')],
        per_rule=per_rule,
        instance_counts=ctx.counts if ctx is not None else {},
        analysed=ctx.repo.stats() if ctx is not None else {},
        information=ctx.info if ctx is not None else [],
        known_findings_matched=known_matched,
        checker_cmd='./check %s --tier %s' % (prop, tier),
        trusted_base=['CPython ast module (parser)', 'semantics of int, divmod, // and fractions.Fraction',
                      'the access-path conventions of droopsa/model.py (self.E is the Election; '
                      'E.C/E.V/E.ballots attribute types read from Election.__init__)'],
        exhaustive=True,
    )
    if selftest is not None:
        cov['selftest'] = selftest
    ev = dict(property_id=prop, tier=tier, seed=seed, level='other', coverage=cov,
              assumptions=(ctx.assumptions if ctx is not None else []) + spec.get('assumptions', []),
              wall_s=round(time.time() - t0, 3), violations=len(violations))
    path = os.path.join(ev_dir, '%s.json' % prop)
    with open(path, 'w') as f:
        json.dump(ev, f, indent=1, sort_keys=True, default=str)
    return path


def write_replay(prop, k, o):
    d = os.path.join(VERIF, 'evidence', 'replay')
    os.makedirs(d, exist_ok=True)
    p = os.path.join(d, '%s-%d.json' % (prop, k))
    with open(p, 'w') as f:
        json.dump(dict(property=prop, finding=o.as_dict(),
                       replay='./check %s --only %s' % (prop, o.rule)), f, indent=1, sort_keys=True)
    return p
