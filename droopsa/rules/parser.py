"""Profile parser rules: R26 candidate-id sanitiser, R27 typecode capacity, R28 strip completeness,
R29 ballot-count pairing, R30 validation, R31 exception escape, R32 loops consume input, R33 CLI
handler exhaustiveness."""
import ast
import re

from ..model import AnalysisError, need, call_name, const_str, unparse
from ..cfg import cfg_of, calls_at, reaching_defs, binds_name, may_raise
from .common import stmt_text

PROFILE = 'droop.profile.ElectionProfile'
PERR = 'ElectionProfileError'


def _pfuncs(ctx):
    """functions reachable from ElectionProfile.__init__ when data is given (call graph over
    self.<method>() / self.BallotLine / name-mangled private methods)"""
    repo = ctx.repo
    cls = repo.cls(PROFILE)
    init = cls.methods.get('__init__')
    need(init is not None, 'ElectionProfile.__init__ missing')
    seen = {}
    work = [init]
    callers = {}
    while work:
        f = work.pop()
        if f.qualname in seen:
            continue
        seen[f.qualname] = f
        for n in f.all_nodes():
            if isinstance(n, ast.Call) and isinstance(n.func, ast.Attribute) and isinstance(n.func.value, ast.Name) \
                    and n.func.value.id == 'self':
                nm = n.func.attr
                tgt = cls.methods.get(nm) or cls.methods.get(cls.mangle(nm))
                if tgt is None:
                    for k, m in cls.methods.items():
                        if k == nm:
                            tgt = m
                if tgt is None and nm == 'BallotLine':
                    bl = repo.classes.get(PROFILE + '.BallotLine')
                    tgt = bl.methods.get('__init__') if bl else None
                if tgt is not None:
                    callers.setdefault(tgt.qualname, set()).add(f.qualname)
                    work.append(tgt)
    return seen, callers


def _handlers_covering(ctx, f, node):
    """exception class names caught by try statements lexically enclosing node inside f"""
    out = set()
    child = node
    n = getattr(node, 'parent', None)
    while n is not None and n is not f.node:
        if isinstance(n, ast.Try) and any(child is b or _contains(b, child) for b in n.body):
            for h in n.handlers:
                if h.type is None:
                    out.add('*')
                else:
                    for t in (h.type.elts if isinstance(h.type, ast.Tuple) else [h.type]):
                        out.add(unparse(t).split('.')[-1])
        child = n
        n = getattr(n, 'parent', None)
    return out


def _contains(a, b):
    return any(x is b for x in ast.walk(a))


def _global_cover(ctx, funcs, callers):
    """exceptions that bltParse converts for everything called beneath it: {func qualname: set}"""
    repo = ctx.repo
    cls = repo.cls(PROFILE)
    bp = cls.methods.get('bltParse')
    need(bp is not None, 'ElectionProfile.bltParse missing')
    caught = set()
    inner = None
    for t in [n for n in bp.own_nodes() if isinstance(n, ast.Try)]:
        calls = [c for s in t.body for c in ast.walk(s) if isinstance(c, ast.Call) and isinstance(c.func, ast.Attribute)
                 and isinstance(c.func.value, ast.Name) and c.func.value.id == 'self']
        if calls:
            inner = cls.methods.get(calls[0].func.attr)
            for h in t.handlers:
                # the handler must raise the profile error
                raises = [r for r in ast.walk(h) if isinstance(r, ast.Raise)]
                okr = raises and all(isinstance(r.exc, ast.Call) and unparse(r.exc.func).endswith(PERR) for r in raises)
                if not okr:
                    continue
                for ty in (h.type.elts if isinstance(h.type, ast.Tuple) else [h.type]):
                    caught.add(unparse(ty).split('.')[-1])
    need(inner is not None, 'bltParse does not wrap a parser call in try/except')
    # functions all of whose call chains from __init__ pass through `inner` called from bltParse
    covered = set()

    def under(qn, seen=()):
        if qn == inner.qualname:
            return callers.get(qn, set()) == {bp.qualname}
        cs = callers.get(qn, set())
        if not cs or qn in seen:
            return False
        return all(under(c, seen + (qn,)) for c in cs)
    for qn in funcs:
        if under(qn):
            covered.add(qn)
    return caught, covered, inner


# ---------------------------------------------------------------------------
# R26
# ---------------------------------------------------------------------------

def _is_getcid(e):
    return isinstance(e, ast.Call) and unparse(e.func) == 'self.getCid'


def _is_ncand_range(e):
    return isinstance(e, ast.Call) and isinstance(e.func, ast.Name) and e.func.id == 'range' and len(e.args) == 2 \
        and isinstance(e.args[0], ast.Constant) and e.args[0].value == 1 and unparse(e.args[1]) in ('self.nCand + 1',)


def _validated(ctx, f, expr, at):
    """(ok, how): does the candidate-id expression provably come out of getCid / a 1..nCand range?"""
    cfg = cfg_of(f)
    if _is_getcid(expr):
        return True, 'result of self.getCid(...)'
    if isinstance(expr, (ast.ListComp, ast.GeneratorExp)):
        return _validated(ctx, f, expr.elt, at)
    if isinstance(expr, ast.Name):
        # comprehension variable?
        n = getattr(expr, 'parent', None)
        while n is not None and not isinstance(n, ast.FunctionDef):
            if isinstance(n, (ast.ListComp, ast.GeneratorExp)):
                for g in n.generators:
                    if isinstance(g.target, ast.Name) and g.target.id == expr.id:
                        if _is_ncand_range(g.iter):
                            return True, 'comprehension over range(1, self.nCand+1)'
                        return False, 'comprehension variable over %s' % unparse(g.iter)
            n = getattr(n, 'parent', None)
        rd = reaching_defs(cfg, expr.id, at)
        if not rd:
            return False, 'no definition of %s reaches the sink' % expr.id
        hows = []
        for d in rd:
            if d is cfg.entry:
                return False, '%s may be unbound / a parameter' % expr.id
            st = d.ast
            if d.kind == 'iter':
                if _is_ncand_range(st.iter):
                    hows.append('loop variable over range(1, self.nCand+1)')
                    continue
                return False, 'loop variable over %s' % unparse(st.iter)
            if isinstance(st, ast.Assign) and len(st.targets) == 1 and isinstance(st.targets[0], ast.Name):
                if _is_getcid(st.value):
                    hows.append('assigned from self.getCid(...) at line %d' % st.lineno)
                    continue
                if isinstance(st.value, ast.Constant) and st.value.value == 0:
                    hows.append('counter initialised to 0')
                    continue
                return False, 'assigned `%s` (not validated)' % unparse(st.value)
            if isinstance(st, ast.AugAssign) and isinstance(st.op, ast.Add) and isinstance(st.value, ast.Constant) \
                    and st.value.value == 1:
                # counter idiom: bounded by a preceding `len(list) != self.nCand -> raise`
                loop = st
                while loop is not None and not isinstance(loop, ast.For):
                    loop = getattr(loop, 'parent', None)
                ok = False
                if loop is not None and isinstance(loop.iter, ast.Name):
                    lst = loop.iter.id
                    for n in f.own_nodes():
                        if isinstance(n, ast.If) and isinstance(n.test, ast.Compare) and isinstance(n.test.ops[0], ast.NotEq) \
                                and unparse(n.test.left) == 'len(%s)' % lst and unparse(n.test.comparators[0]) == 'self.nCand' \
                                and n.body and isinstance(n.body[0], ast.Raise) and n.lineno < loop.lineno:
                            ok = True
                if ok:
                    hows.append('counter 1..len(list) with len(list) == self.nCand enforced before the loop')
                    continue
                return False, 'counter not bounded by self.nCand'
            return False, 'bound by `%s`' % stmt_text(st)
        return True, '; '.join(sorted(set(hows)))
    return False, 'expression `%s` is not validated' % unparse(expr)


def r26_cid_sanitiser(ctx):
    R = 'R26'
    repo = ctx.repo
    funcs, callers = _pfuncs(ctx)
    cls = repo.cls(PROFILE)
    n = 0
    ID_SETS = ('withdrawn', 'undeclared', 'eligible')
    ID_KEYED = ('tieOrder', 'nickName', 'candidateName', 'candidateOrder')
    for f in funcs.values():
        cfg = cfg_of(f)
        for node in f.own_nodes():
            sink = None
            expr = None
            if isinstance(node, ast.Call) and isinstance(node.func, ast.Attribute) and node.func.attr == 'add' \
                    and isinstance(node.func.value, ast.Attribute) and node.func.value.attr in ID_SETS \
                    and isinstance(node.func.value.value, ast.Name) and node.func.value.value.id == 'self':
                sink, expr = 'self.%s.add' % node.func.value.attr, node.args[0]
            elif isinstance(node, ast.Subscript) and isinstance(node.ctx, ast.Store) and isinstance(node.value, ast.Attribute) \
                    and isinstance(node.value.value, ast.Name) and node.value.value.id == 'self':
                if node.value.attr in ID_KEYED:
                    sink, expr = 'key of self.%s' % node.value.attr, node.slice
                elif node.value.attr == '_nickCid':
                    par = node.parent
                    if isinstance(par, ast.Assign):
                        sink, expr = 'value of self._nickCid', par.value
            elif isinstance(node, ast.Call) and isinstance(node.func, ast.Attribute) and node.func.attr == 'append' \
                    and isinstance(node.func.value, ast.Name) and node.func.value.id == 'ranking':
                sink, expr = 'element of a ballot ranking', node.args[0]
            if sink is None:
                continue
            n += 1
            st = repo.enclosing_stmt(node)
            at = cfg.of_stmt.get(st)
            need(at is not None, 'no CFG node at %s' % repo.loc(node))
            ok, how = _validated(ctx, f, expr, at)
            ctx.check(ok, R, node, f, 'candidate IDs entering %s are range-validated' % sink, how,
                      'unvalidated candidate ID stored (%s): %s' % (sink, how))
    ctx.floor(R, 'candidate-id sinks', n, 7)
    # getCid returns only validated values
    g = cls.methods.get('getCid')
    need(g is not None, 'getCid missing')
    cfg = cfg_of(g)
    for r in [x for x in g.own_nodes() if isinstance(x, ast.Return)]:
        rn = cfg.of_stmt[r]
        v = r.value
        ok = False
        how = ''
        if isinstance(v, ast.Name):
            # dominated by True edge of `0 < v <= self.nCand`
            for t in cfg.nodes:
                if t.kind == 'test' and isinstance(t.ast, ast.If):
                    tt = t.ast.test
                    if isinstance(tt, ast.Compare) and len(tt.ops) == 2 and isinstance(tt.ops[0], ast.Lt) \
                            and isinstance(tt.ops[1], ast.LtE) and isinstance(tt.left, ast.Constant) and tt.left.value == 0 \
                            and isinstance(tt.comparators[0], ast.Name) and tt.comparators[0].id == v.id \
                            and unparse(tt.comparators[1]) == 'self.nCand':
                        if rn not in cfg.reach([cfg.entry], edge_ok=lambda a, b, lab, t=t: not (a is t and lab is True), include_start=True):
                            ok, how = True, 'returned under `0 < %s <= self.nCand`' % v.id
        elif isinstance(v, ast.Subscript) and unparse(v.value) == 'self._nickCid':
            ok, how = True, 'a value of self._nickCid (validated where it is stored)'
        ctx.check(ok, R, r, g, 'getCid returns only IDs in 1..nCand', how, 'getCid can return `%s` without the range test' % unparse(v) if v else 'None')
    _sets_only_grow(ctx, R, funcs)
    _tables_complete(ctx, R, funcs)
    _guard_key_is_store_key(ctx, R, funcs)
    return n


def _sets_only_grow(ctx, R, funcs):
    """self.withdrawn / self.undeclared / self.eligible are re-bound only by __init__ and by the reset in _bltParse that
    precedes every option and withdrawal; an option handler that assigns the set forgets earlier withdrawals"""
    repo = ctx.repo
    for f in funcs.values():
        for n in f.own_nodes():
            if isinstance(n, (ast.Assign, ast.AugAssign)):
                tgs = n.targets if isinstance(n, ast.Assign) else [n.target]
                for t in tgs:
                    if isinstance(t, ast.Attribute) and isinstance(t.value, ast.Name) and t.value.id == 'self' \
                            and t.attr in ('withdrawn', 'undeclared', 'eligible'):
                        what = 'the withdrawn/undeclared/eligible sets only grow while the file is read'
                        if f.name == '__init__':
                            ctx.ok(R, n, f, what, 'initialisation in ElectionProfile.__init__', nontrivial=False)
                            continue
                        empty = isinstance(n, ast.Assign) and unparse(n.value) in ('set()', 'set([])')
                        ok = False
                        if empty and f.name == '_bltParse':
                            cfg = cfg_of(f)
                            rn = cfg.of_stmt[n]
                            users = {x for x in cfg.stmt_nodes() if x is not rn and any(
                                (isinstance(c.func, ast.Attribute) and c.func.attr == 'add' and unparse(c.func.value) == 'self.' + t.attr)
                                or unparse(c.func).startswith(('self.__bltOption', 'self._ElectionProfile__bltOption')) for c in calls_at(x))}
                            ok = all(cfg.dominates(rn, u) for u in users) and rn not in cfg.reach([rn])
                        ctx.check(ok, R, n, f, what, 'empty-set reset that dominates every option and withdrawal, executed once',
                                  '`%s` in %s re-binds the set: candidates recorded earlier in the header are forgotten' % (stmt_text(n), f.qualname))


def _guard_key_is_store_key(ctx, R, funcs):
    """a table filled under a membership test is tested and filled with the SAME key: `if k in T: raise ...; T[k'] = v` needs k' == k
    (otherwise two entries that the test tells apart collapse to one, or a repeated entry is not noticed); and a lookup
    `if k in T: return T[k']` reads the entry it tested for"""
    from .common import ctext
    n = 0
    for f in funcs.values():
        tests = []     # (table text, key text, node)
        for x in f.own_nodes():
            if isinstance(x, ast.Compare) and len(x.ops) == 1 and isinstance(x.ops[0], (ast.In, ast.NotIn)) \
                    and isinstance(x.comparators[0], ast.Attribute) and unparse(x.comparators[0].value) == 'self':
                tests.append((unparse(x.comparators[0]), ctext(ctx, f, x.left), x))
        if not tests:
            continue
        for x in f.own_nodes():
            if isinstance(x, ast.Subscript) and isinstance(x.value, ast.Attribute) and unparse(x.value.value) == 'self':
                tbl = unparse(x.value)
                mine = [t for t in tests if t[0] == tbl]
                if not mine:
                    continue
                n += 1
                key = ctext(ctx, f, x.slice)
                ok = any(t[1] == key for t in mine)
                kind = 'stored' if isinstance(x.ctx, ast.Store) else 'looked up'
                ctx.check(ok, R, x, f, 'a table guarded by a membership test is tested and %s with the same key' % ('filled' if kind == 'stored' else 'read'),
                          '%s[%s] and `%s in %s`' % (tbl, unparse(x.slice), unparse(mine[0][2].left), tbl),
                          '%s is %s under the key `%s` but the membership test in this function uses `%s`: entries the test distinguishes '
                          'collapse into one (or a repeated entry goes unnoticed)' % (tbl, kind, unparse(x.slice), unparse(mine[0][2].left)))
    ctx.floor(R, 'guarded table accesses', n, 1)


def _tables_complete(ctx, R, funcs):
    """every per-candidate table that Election.__init__ indexes by candidate id has an entry for each of 1..nCand"""
    repo = ctx.repo
    cls = repo.cls(PROFILE)
    ei = repo.func('droop.election.Election.__init__')
    tables = set()
    pparam = ei.params[1] if len(ei.params) > 1 else 'electionProfile'

    def is_profile(e):
        """the profile handed to the election: the parameter, self.electionProfile, or a local bound once to either"""
        if isinstance(e, ast.Name):
            if e.id == pparam:
                return True
            ds = ei.assigns().get(e.id, [])
            return len(ds) == 1 and isinstance(ds[0][0], ast.AST) and not isinstance(ds[0][0], ast.Name) and is_profile(ds[0][0]) or \
                (len(ds) == 1 and isinstance(ds[0][0], ast.Name) and ds[0][0].id == pparam)
        return isinstance(e, ast.Attribute) and e.attr == 'electionProfile' and isinstance(e.value, ast.Name) and e.value.id == 'self'
    for n in ei.own_nodes():
        if isinstance(n, ast.Subscript) and isinstance(n.ctx, ast.Load) and isinstance(n.value, ast.Attribute) and is_profile(n.value.value):
            tables.add(n.value.attr)
    need(tables, 'R26: Election.__init__ indexes no profile table')
    pinit = cls.methods['__init__']
    for T in sorted(tables):
        what = 'profile.%s has an entry for every candidate 1..nCand (Election.__init__ indexes it by candidate id)' % T
        proofs = []
        problems = []
        for f in funcs.values():
            stores = [x for x in f.own_nodes() if isinstance(x, ast.Subscript) and isinstance(x.ctx, ast.Store) and unparse(x.value) == 'self.' + T]
            rebinds = [x for x in f.own_nodes() if isinstance(x, ast.Assign) and unparse(x.targets[0]) == 'self.' + T]
            if not stores:
                continue
            cfg = cfg_of(f)
            for st in stores:
                stmt = repo.enclosing_stmt(st)
                loop = stmt.parent
                while loop is not None and not isinstance(loop, (ast.For, ast.FunctionDef)):
                    loop = loop.parent
                if isinstance(loop, ast.For) and _is_ncand_range(loop.iter) and unparse(st.slice) == unparse(loop.target):
                    # unconditional in the loop body (every completing iteration stores)
                    ln = cfg.of_stmt[loop]
                    sn = cfg.of_stmt[stmt]
                    body_entry = [t for t, lab in ln.succ if lab is True]
                    if ln not in cfg.reach(body_entry, avoid=[sn], include_start=True):
                        proofs.append('%s: stored for every cid in range(1, nCand+1)' % f.name)
                        continue
                    problems.append('%s: store at line %d can be skipped inside the 1..nCand loop' % (f.name, st.lineno))
                    continue
                # an option handler: keys come from a list; completeness needs a count check
                # (a) counter keys 1..len(list) with len(list) == nCand enforced (the nick idiom, R26 checks the bound)
                key = st.slice
                if isinstance(key, ast.Name):
                    rd = reaching_defs(cfg, key.id, cfg.of_stmt[stmt])
                    if rd and all(d is not cfg.entry and isinstance(d.ast, ast.AugAssign) for d in rd) and \
                            any(isinstance(x, ast.If) and unparse(x.test).startswith('len(') and unparse(x.test).endswith('!= self.nCand')
                                and x.body and isinstance(x.body[0], ast.Raise) for x in f.own_nodes()):
                        proofs.append('%s: keys are the counter 1..len(list) and len(list) == nCand is enforced' % f.name)
                        continue
                # (b) validated ids (possibly repeated): the number of DISTINCT keys must be checked after filling
                checks = [x for x in f.own_nodes() if isinstance(x, ast.If) and x.body and isinstance(x.body[0], ast.Raise)
                          and unparse(x.test) == 'len(self.%s) != self.nCand' % T]
                sn = cfg.of_stmt[stmt]
                if checks and all(cfg.exit not in cfg.reach([sn], avoid=[cfg.of_stmt[c] for c in checks]) for c in checks[:1]):
                    proofs.append('%s: after filling, `len(self.%s) != self.nCand` raises (all keys are valid ids, so nCand distinct keys '
                                  'means every candidate is listed)' % (f.name, T))
                    continue
                problems.append('%s: keys of self.%s come from the file and nothing checks afterwards that every candidate 1..nCand is '
                                'listed (a repeated id leaves another candidate without an entry: KeyError in Election.__init__)' % (f.name, T))
        ctx.check(bool(proofs) and not problems, R, pinit.node if not problems else cls.node, cls.qualname, what,
                  '; '.join(proofs), '; '.join(problems) or 'no store into self.%s found' % T)



# ---------------------------------------------------------------------------
# R27
# ---------------------------------------------------------------------------

CAPACITY = {'b': 127, 'B': 255, 'h': 32767, 'H': 65535, 'i': 32767, 'I': 65535, 'l': 2 ** 31 - 1, 'L': 2 ** 32 - 1,
            'q': 2 ** 63 - 1, 'Q': 2 ** 64 - 1}      # guaranteed minimum capacities (array module docs)
UNBOUNDED_NEEDS = 2 ** 32 - 1


class _NotAboutIds(Exception):
    pass


def _tc_alternatives(ctx, f, expr, at):
    """[(typecode, upper bound on nCand or None)] for a typecode expression"""
    def bound_of(test, truth):
        # profile.nCand < K  / <= K ; returns inclusive upper bound on nCand when test has value `truth`
        if isinstance(test, ast.Compare) and len(test.ops) == 1 and unparse(test.left).endswith('nCand') \
                and isinstance(test.comparators[0], ast.Constant) and isinstance(test.comparators[0].value, int):
            K = test.comparators[0].value
            op = test.ops[0]
            if truth and isinstance(op, ast.Lt):
                return K - 1
            if truth and isinstance(op, ast.LtE):
                return K
            return None
        if isinstance(test, ast.Compare) and len(test.ops) == 1 and isinstance(test.comparators[0], ast.Constant) \
                and isinstance(test.comparators[0].value, int) and isinstance(test.ops[0], (ast.Lt, ast.LtE)):
            # a size test on something that is not the declared candidate count: it bounds nothing about the ids stored
            raise _NotAboutIds(unparse(test.left))
        if isinstance(test, ast.Compare) and any(isinstance(x, ast.Attribute) and x.attr == 'nCand' for x in ast.walk(test)):
            return 'unknown'          # a test on nCand of a shape this rule does not read
        return None                   # a test about something else: says nothing about the ids
    if isinstance(expr, ast.Constant) and isinstance(expr.value, str):
        return [(expr.value, None)]
    if isinstance(expr, ast.IfExp):
        b = bound_of(expr.test, True)
        if b == 'unknown':
            raise AnalysisError('R27: typecode condition `%s` not understood' % unparse(expr.test))
        out = [(tc, b if ub is None else (min(ub, b) if b is not None else ub)) for tc, ub in _tc_alternatives(ctx, f, expr.body, at)]
        return out + _tc_alternatives(ctx, f, expr.orelse, at)
    if isinstance(expr, ast.Name):
        cfg = cfg_of(f)
        out = []
        for d in reaching_defs(cfg, expr.id, at):
            need(d is not cfg.entry and isinstance(d.ast, ast.Assign), 'R27: typecode variable %s not a simple assignment' % expr.id)
            # bound from the enclosing if/elif chain
            ub = None
            child = d.ast
            n = child.parent
            while n is not None and n is not f.node:
                if isinstance(n, ast.If) and any(child is b for b in n.body):
                    b = bound_of(n.test, True)
                    if b == 'unknown':
                        raise AnalysisError('R27: typecode condition `%s` not understood' % unparse(n.test))
                    if b is not None:
                        ub = b if ub is None else min(ub, b)
                child = n
                n = n.parent
            for tc, u2 in _tc_alternatives(ctx, f, d.ast.value, d):
                out.append((tc, ub if u2 is None else u2))
        return out
    raise AnalysisError('R27: typecode expression `%s` not understood' % unparse(expr))


def r26d_tokenizer_precedence(ctx):
    """the tokenizer's three lexical states nest the way the file format says: a '#' starts a comment only outside
    quotes and outside block comments; '/*' opens a block comment only outside quotes; lines are split on every kind
    of line end that str.split() treats as white space"""
    R = 'R26d'
    repo = ctx.repo
    cls = repo.cls(PROFILE)
    tk = cls.methods.get(cls.mangle('__bltBlob')) or cls.methods.get('__bltBlob')
    need(tk is not None, 'tokenizer __bltBlob missing')
    cfg = cfg_of(tk)
    blob = tk.params[1] if len(tk.params) > 1 else 'blob'
    # (1) line iteration
    lines_src = None
    for n in tk.own_nodes():
        if isinstance(n, ast.For) and any(isinstance(x, ast.For) for x in n.body):
            it = n.iter
            if isinstance(it, ast.Name):
                df, vals = ctx.scope(tk).lookup_def(it.id, tk)
                if vals and vals != 'param' and len(vals) == 1 and isinstance(vals[0][0], ast.AST):
                    it = vals[0][0]
            lines_src = it
            break
    need(lines_src is not None, 'R26: line loop of the tokenizer not found')
    txt = unparse(lines_src)
    what = 'the tokenizer ends a line (and with it a # comment) at every character that its token split treats as a line break'
    if txt == '%s.splitlines()' % blob:
        ctx.ok(R, lines_src, tk, what, '%s.splitlines(): universal line ends, consistent with str.split() on white space' % blob)
    elif 'StringIO' in txt or txt in ("%s.split('\\n')" % blob, '%s.split("\\n")' % blob) or 'readlines' in txt:
        ctx.bad(R, lines_src, tk, what, '`%s` ends lines at LF only: a bare CR (or FF, NEL, U+2028) is white space for the token split but no '
                                        'longer ends a # comment, so the ballots that follow it on the "same line" vanish' % txt)
    else:
        raise AnalysisError('R26: the tokenizer iterates over `%s` - line splitting of unrecognised form' % txt)
    # (2) precedence of the lexical states
    depth = None     # block-comment depth variable: incremented under startswith('/*')
    quote = None     # in-quote flag: set True under startswith('"')
    for n in tk.own_nodes():
        if isinstance(n, ast.If):
            t = unparse(n.test)
            if "startswith('/*')" in t:
                for s_ in n.body:
                    if isinstance(s_, ast.AugAssign) and isinstance(s_.target, ast.Name):
                        depth = s_.target.id
            if "startswith('\"')" in t:
                for s_ in n.body:
                    if isinstance(s_, ast.Assign) and isinstance(s_.targets[0], ast.Name):
                        quote = s_.targets[0].id
    need(depth is not None and quote is not None, 'R26: tokenizer state variables (comment depth / in-quote flag) not recognised')

    def guarded_by_not(testnode, var):
        """the test's own conjuncts contain `not var`, or the False edge of `if var:` dominates it"""
        t = testnode.ast.test
        parts = t.values if isinstance(t, ast.BoolOp) and isinstance(t.op, ast.And) else [t]
        if any(isinstance(p_, ast.UnaryOp) and isinstance(p_.op, ast.Not) and isinstance(p_.operand, ast.Name) and p_.operand.id == var for p_ in parts):
            return True
        for g in cfg.nodes:
            if g.kind == 'test' and isinstance(g.ast, ast.If) and isinstance(g.ast.test, ast.Name) and g.ast.test.id == var:
                # within one token: cut the loop back edges by avoiding the for-heads
                heads = [h for h in cfg.nodes if h.kind == 'iter']
                inner = heads[-1] if heads else None
                starts = [t_ for t_, lab in inner.succ if lab is True] if inner is not None else [cfg.entry]
                r = cfg.reach(starts, avoid=[inner] if inner is not None else [], include_start=True,
                              edge_ok=lambda a, b, lab, g=g: not (a is g and lab is False))
                if testnode not in r:
                    return True
        return False
    # the in-quote flag is cleared when a token closes the quote
    closes = [x for x in tk.own_nodes() if isinstance(x, ast.Assign) and isinstance(x.targets[0], ast.Name) and x.targets[0].id == quote
              and ((isinstance(x.value, ast.Constant) and x.value.value is False) or 'endswith' in unparse(x.value))]
    okc = False
    for x in closes:
        par = x.parent
        if isinstance(x.value, ast.Constant):
            okc = okc or (isinstance(par, ast.If) and "endswith('\"')" in unparse(par.test))
        else:
            okc = okc or "endswith('\"')" in unparse(x.value)
    ctx.check(okc, R, closes[0] if closes else tk.node, tk, 'a quoted string ends at the token that ends with a quote',
              '%s is cleared under `token.endswith(\'"\')`' % quote,
              'the in-quote flag is never cleared at the closing quote: everything after the first quoted name is read as quoted text '
              '(comments in the names section become data)')
    for n in cfg.nodes:
        if n.kind == 'test' and isinstance(n.ast, ast.If):
            t = unparse(n.ast.test)
            if "startswith('#')" in t:
                ok1 = guarded_by_not(n, quote)
                ok2 = guarded_by_not(n, depth)
                ctx.check(ok1 and ok2, R, n.ast, tk, "a '#' starts a comment only outside quoted strings and outside /* */ comments",
                          "the '#' test is reached only with `not %s` and `not %s`" % (quote, depth),
                          "the '#' test can fire %s: the rest of the line (e.g. the closing */ or quote) is dropped"
                          % ('inside a quoted string' if not ok1 else 'inside a block comment'))
            if "startswith('/*')" in t:
                ctx.check(guarded_by_not(n, quote), R, n.ast, tk, "'/*' opens a comment only outside quoted strings",
                          "the '/*' test is reached only with `not %s`" % quote, "'/*' inside a quoted name would start a comment")
            if "startswith('\"')" in t:
                ctx.check(guarded_by_not(n, depth), R, n.ast, tk, "a quote opens a string only outside /* */ comments",
                          "the quote test is reached only with `not %s`" % depth, "a '\"' inside a block comment would open a string")


def r27_typecode_capacity(ctx):
    R = 'R27'
    n = 0
    for f in ctx.repo.funcs.values():
        if not f.module.name.startswith('droop'):
            continue
        for c in f.own_nodes():
            if isinstance(c, ast.Call) and unparse(c.func) in ('array.array', 'array') and c.args:
                n += 1
                cfg = cfg_of(f)
                at = cfg.of_stmt[ctx.repo.enclosing_stmt(c)]
                try:
                    alts = _tc_alternatives(ctx, f, c.args[0], at)
                except _NotAboutIds as e:
                    ctx.bad(R, c, f, 'ranking array item type can hold every valid candidate ID',
                            'the item type is chosen by the size of `%s`, which is not the declared candidate count: candidate IDs run up to nCand '
                            'whatever that size is (withdrawals lower a count, not the IDs): OverflowError' % e.args[0])
                    continue
                for tc, ub in alts:
                    cap = CAPACITY.get(tc)
                    if cap is None:
                        ctx.bad(R, c, f, 'ranking array item type can hold every valid candidate ID', 'unknown/unsuitable typecode %r' % tc)
                        continue
                    needed = ub if ub is not None else UNBOUNDED_NEEDS
                    ctx.check(cap >= needed, R, c, f,
                              "ranking array item type '%s' can hold every valid candidate ID of its branch" % tc,
                              "typecode '%s' holds 0..%d; candidate IDs are <= nCand <= %s on this branch"
                              % (tc, cap, ub if ub is not None else 'unbounded (needs >= 2^32-1; larger values are converted by the OverflowError handler, R31)'),
                              "typecode '%s' holds 0..%d but candidate IDs up to %s reach this branch: OverflowError"
                              % (tc, cap, ub if ub is not None else 'any size'))
    ctx.floor(R, 'array constructions', n, 1)


# ---------------------------------------------------------------------------
# R28
# ---------------------------------------------------------------------------

def r28_strip_complete(ctx):
    R = 'R28'
    repo = ctx.repo
    bl = repo.cls(PROFILE + '.BallotLine')
    f = bl.methods.get('__init__')
    need(f is not None, 'BallotLine.__init__ missing')
    what = 'every occurrence of a withdrawn candidate is removed from every rank of a ballot'
    # anti-pattern: iterate over set(X) (or X itself) and X.remove(e)
    for n in f.own_nodes():
        if isinstance(n, ast.Call) and isinstance(n.func, ast.Attribute) and n.func.attr == 'remove' \
                and isinstance(n.func.value, ast.Name):
            X = n.func.value.id
            loop = n
            while loop is not None and not isinstance(loop, ast.For):
                loop = getattr(loop, 'parent', None)
            it = unparse(loop.iter) if loop is not None else ''
            ctx.bad(R, n, f, what, '`%s.remove(...)` while iterating over `%s`: remove() deletes only the first occurrence '
                                   '(and mutating a list under iteration skips elements)' % (X, it))
            return
    # the strip: a comprehension over the rank with `not in <profile>.withdrawn`, stored back in place
    found = False
    for n in f.own_nodes():
        if isinstance(n, (ast.ListComp, ast.GeneratorExp)) and len(n.generators) == 1:
            g = n.generators[0]
            wd = [c for c in g.ifs if isinstance(c, ast.Compare) and isinstance(c.ops[0], ast.NotIn)
                  and unparse(c.comparators[0]).endswith('.withdrawn') and isinstance(c.left, ast.Name)
                  and isinstance(g.target, ast.Name) and c.left.id == g.target.id]
            if not wd or not (isinstance(n.elt, ast.Name) and n.elt.id == g.target.id):
                continue
            found = True
            src = g.iter
            st = repo.enclosing_stmt(n)
            ok = False
            how = ''
            if isinstance(st, ast.Assign) and isinstance(src, ast.Name):
                t = st.targets[0]
                # rank[:] = [...]  (in place)
                if isinstance(t, ast.Subscript) and isinstance(t.slice, ast.Slice) and t.slice.lower is None \
                        and t.slice.upper is None and isinstance(t.value, ast.Name) and t.value.id == src.id:
                    ok, how = True, '`%s[:] = [c for c in %s if c not in ...withdrawn]`: filters every element, in place' % (src.id, src.id)
                elif isinstance(t, ast.Name) and t.id == src.id:
                    # rebinding the loop variable does not change the enclosing list
                    loop = st
                    while loop is not None and not isinstance(loop, ast.For):
                        loop = getattr(loop, 'parent', None)
                    if loop is not None and isinstance(loop.target, ast.Name) and loop.target.id == src.id:
                        how = 'the filtered list is bound to the loop variable only; the ranking keeps the unfiltered rank'
                    else:
                        ok, how = True, 'filtered list rebinds %s' % src.id
                elif isinstance(t, ast.Name):
                    ok, how = True, 'filtered copy stored in %s' % t.id
            elif isinstance(src, ast.Name):
                ok, how = True, 'filter over %s' % src.id
            ctx.check(ok, R, n, f, what, how, how or 'strip construct not stored back')
    if not found:
        refs = [n for n in f.own_nodes() if isinstance(n, ast.Attribute) and n.attr == 'withdrawn']
        if refs:
            ctx.bad(R, refs[0], f, what, 'withdrawn candidates are not filtered out element by element (`%s`): a rank that mixes a withdrawn and a '
                                         'continuing candidate keeps the withdrawn one' % stmt_text(repo.enclosing_stmt(refs[0])))
        else:
            ctx.bad(R, f.node, f, what, 'BallotLine.__init__ never consults the withdrawn set: withdrawn candidates stay on the ballots')
        return
    # empty ranks are dropped afterwards and an empty ranking becomes None
    drops = [n for n in f.own_nodes() if isinstance(n, ast.ListComp) and any(
        isinstance(g.target, ast.Name) and nonempty_filter(c, g.target.id) for g in n.generators for c in g.ifs)]
    ctx.check(bool(drops), R, f.node, f, 'ranks left empty by the strip are dropped', unparse(drops[0]) if drops else '',
              'no statement drops empty ranks', nontrivial=False)
    # what the ballot is taken to be (equal rankings or not, empty or not) is decided on the STRIPPED ranks: every size test on a rank
    # (`len(rank) > 1`) comes after the strip on every path - apart from paths on which the withdrawn set is empty, where there was
    # nothing to strip.  (A rank [withdrawn, x] is the single preference x, not an equal ranking.)
    cfg = cfg_of(f)
    strip_nodes = set()
    for n in f.own_nodes():
        if isinstance(n, ast.Compare) and len(n.ops) == 1 and isinstance(n.ops[0], ast.NotIn) and unparse(n.comparators[0]).endswith('.withdrawn'):
            st_ = repo.enclosing_stmt(n)
            while st_ is not None and st_ not in cfg.of_stmt:
                st_ = getattr(st_, 'parent', None)
            if st_ is not None:
                strip_nodes.add(cfg.of_stmt[st_])

    def edge_ok(a, b, lab):
        # the edge on which the withdrawn set is known to be empty needs no strip
        if a.kind == 'test' and isinstance(a.ast, ast.If):
            t = a.ast.test
            if isinstance(t, ast.Attribute) and t.attr == 'withdrawn' and lab is False:
                return False
            if isinstance(t, ast.UnaryOp) and isinstance(t.op, ast.Not) and isinstance(t.operand, ast.Attribute) and t.operand.attr == 'withdrawn' and lab is True:
                return False
        return True
    # a strip inside `for rank in ranking:` - the loop as a whole is the strip: what follows the loop is "after", the part of an
    # iteration that precedes the strip statement is "before"
    heads = set()
    for sn in strip_nodes:
        lp = getattr(sn.ast, 'parent', None)
        while lp is not None and not isinstance(lp, (ast.For, ast.FunctionDef)):
            lp = getattr(lp, 'parent', None)
        if isinstance(lp, ast.For) and lp in cfg.of_stmt:
            heads.add(cfg.of_stmt[lp])
    early = cfg.reach([cfg.entry], avoid=strip_nodes | heads, edge_ok=edge_ok, include_start=True)
    if heads and cfg.entry not in heads:
        body_starts = [t_ for h_ in heads for t_, lab_ in h_.succ if lab_ is True and h_ in cfg.reach([cfg.entry], avoid=strip_nodes, edge_ok=edge_ok, include_start=True)]
        early |= cfg.reach(body_starts, avoid=strip_nodes | heads, edge_ok=edge_ok, include_start=True) - strip_nodes
    for n in f.own_nodes():
        if isinstance(n, ast.Compare) and len(n.ops) == 1 and isinstance(n.ops[0], (ast.Gt, ast.GtE)) and isinstance(n.left, ast.Call) \
                and isinstance(n.left.func, ast.Name) and n.left.func.id == 'len' and isinstance(n.comparators[0], ast.Constant) \
                and n.comparators[0].value in (1, 2):
            st_ = repo.enclosing_stmt(n)
            while st_ is not None and st_ not in cfg.of_stmt:
                st_ = getattr(st_, 'parent', None)
            if st_ is None:
                continue
            node_ = cfg.of_stmt[st_]
            # a size test in the very statement / loop body that strips (after the in-place strip of that rank) is fine: it is not "early"
            ctx.check(node_ not in early or node_ in strip_nodes, R, n, f, 'a ballot is classified as having equal rankings by its ranks as they are AFTER withdrawn candidates were removed',
                      '`%s` is evaluated after the strip on every path' % unparse(n),
                      '`%s` can be evaluated before the withdrawn candidates are stripped: a rank [withdrawn, x] makes the ballot an equal-ranking ballot' % unparse(n))


# ---------------------------------------------------------------------------
# R29
# ---------------------------------------------------------------------------

def r29_ballot_count_pairing(ctx):
    R = 'R29'
    repo = ctx.repo
    bl = repo.cls(PROFILE + '.BallotLine')
    f = bl.methods['__init__']
    cfg = cfg_of(f)
    inc, sn, sr = set(), set(), set()
    pmult = f.params[2] if len(f.params) > 2 else 'multiplier'
    for n in cfg.stmt_nodes():
        st = n.ast
        if n.kind != 'stmt':
            continue
        if isinstance(st, ast.AugAssign) and unparse(st.target).endswith('.nBallots'):
            ok = isinstance(st.op, ast.Add) and isinstance(st.value, ast.Name) and st.value.id == pmult
            ctx.check(ok, R, st, f, 'the ballot total grows by exactly the multiplier of a kept line',
                      'profile.nBallots += %s' % pmult, 'nBallots is changed by `%s`' % stmt_text(st))
            inc.add(n)
        elif isinstance(st, ast.Assign) and unparse(st.targets[0]).endswith('.nBallots'):
            ctx.bad(R, st, f, 'the ballot total grows by exactly the multiplier of a kept line', 'nBallots is reassigned: `%s`' % stmt_text(st))
        elif isinstance(st, ast.Assign) and unparse(st.targets[0]) == 'self.ranking':
            if isinstance(st.value, ast.Constant) and st.value.value is None:
                sn.add(n)
            else:
                sr.add(n)
    need(inc and sr and sn, 'R29: BallotLine.__init__ shape not recognised (inc=%d kept=%d dropped=%d)' % (len(inc), len(sr), len(sn)))
    # every kept line is counted exactly once; a dropped line is not counted
    for r in sr:
        before = r not in cfg.reach([cfg.entry], avoid=inc, include_start=True)
        after = cfg.exit not in cfg.reach([r], avoid=inc)
        twice = any(i2 in cfg.reach([i1]) for i1 in inc for i2 in inc)
        ctx.check((before or after) and not twice, R, r.ast, f, 'a ballot line that is kept is counted exactly once',
                  'every path through `%s` passes one `nBallots += %s`' % (stmt_text(r.ast), pmult),
                  'a kept ballot line (line %d) can bypass the nBallots increment, or be counted twice' % r.line)
    for s in sn:
        touched = any(s in cfg.reach([i]) for i in inc) or any(i in cfg.reach([s]) for i in inc)
        ctx.check(not touched, R, s.ast, f, 'a ballot line left empty (only withdrawn candidates) is not counted',
                  'no nBallots increment on any path through `self.ranking = None`',
                  'an empty (dropped) ballot line is still added to nBallots')
    # _bltParse keeps exactly the lines whose ranking is not None
    p = repo.cls(PROFILE).methods['_bltParse']
    apps = [c for c in p.own_nodes() if isinstance(c, ast.Call) and isinstance(c.func, ast.Attribute) and c.func.attr == 'append'
            and unparse(c.func.value) in ('self.ballotLines', 'self.ballotLinesEqual')]
    need(len(apps) >= 2, 'R29: appends to ballotLines/ballotLinesEqual not found')
    for c in apps:
        st = repo.enclosing_stmt(c)
        par = st.parent
        tgt = unparse(c.func.value)
        if tgt == 'self.ballotLinesEqual':
            ok = isinstance(par, ast.If) and 'isinstance' in unparse(par.test) and 'tuple' in unparse(par.test) and st in par.body
            how = 'appended under `%s`' % (unparse(par.test) if isinstance(par, ast.If) else '?')
        else:
            ok = isinstance(par, ast.If) and unparse(par.test).endswith('.ranking is not None') and st in par.body
            # and this `if` is the elif of the tuple test: non-tuple, non-None
            how = 'appended under `%s`' % (unparse(par.test) if isinstance(par, ast.If) else '?')
        ctx.check(ok, R, c, p, 'a parsed line is kept exactly when its ranking survived the strip', how,
                  '%s.append is not guarded by the ranking test' % tgt)
    # a ballot line introduced by a ballot id stands for exactly one ballot
    # the local that becomes the multiplier of the line: second argument of the BallotLine(...) construction
    mk = [c for c in p.own_nodes() if isinstance(c, ast.Call) and unparse(c.func) == 'self.BallotLine' and len(c.args) == 3]
    need(len(mk) == 1 and isinstance(mk[0].args[1], ast.Name), 'R29: the BallotLine(self, multiplier, ranking) construction of _bltParse not found')
    mname = mk[0].args[1].id

    def _is_m(s_):
        return isinstance(s_, ast.Assign) and isinstance(s_.targets[0], ast.Name) and s_.targets[0].id == mname
    ids = [n for n in p.own_nodes() if isinstance(n, ast.If) and "startswith('(')" in unparse(n.test) and any(_is_m(s_) for s_ in n.body)]
    for n in ids:
        asg = [s_ for s_ in n.body if _is_m(s_)]
        ctx.check(len(asg) == 1 and isinstance(asg[0].value, ast.Constant) and asg[0].value.value == 1, R, asg[0], p,
                  'a ballot written with a ballot id counts as one ballot', 'multiplier = 1 in the "(id)" branch',
                  'a ballot-id line gets multiplier `%s`' % unparse(asg[0].value))
    ctx.check(bool(ids), R, p.node, p, 'the ballot-id branch of the parser sets the multiplier', 'found', 'ballot-id branch not found', nontrivial=False)
    # the multiplier of an ordinary line is the integer read from the file: int(<the token the enclosing test matched>)
    ms = [s_ for s_ in p.own_nodes() if _is_m(s_) and not isinstance(s_.value, ast.Constant)]
    okm = False
    if len(ms) == 1:
        v_ = ms[0].value
        par = ms[0].parent
        okm = isinstance(v_, ast.Call) and unparse(v_.func) == 'int' and len(v_.args) == 1 and isinstance(v_.args[0], ast.Name) \
            and isinstance(par, ast.If) and any(isinstance(x, ast.Name) and x.id == v_.args[0].id for x in ast.walk(par.test))
    ctx.check(okm, R, ms[0] if ms else p.node, p,
              'the multiplier of a ballot line is the number written in the file', 'multiplier = int(tok) under the test that matched tok',
              'multiplier is `%s`' % (unparse(ms[0].value) if ms else None))
    # the ballot total and the multipliers have no other writer
    for fq, g in ctx.repo.funcs.items():
        for n in g.own_nodes():
            if isinstance(n, ast.Attribute) and isinstance(n.ctx, (ast.Store, ast.Del)) and n.attr in ('nBallots', 'multiplier'):
                if n.attr == 'nBallots':
                    okw = fq in (PROFILE + '.BallotLine.__init__', PROFILE + '.__init__')
                else:
                    okw = fq in (PROFILE + '.BallotLine.__init__', 'droop.election.Election.Ballot.__init__')
                ctx.check(okw, R, n, g, 'the ballot total and the line multipliers are written only when a ballot line is constructed',
                          'store to .%s inside %s' % (n.attr, fq.split('.')[-2] + '.' + fq.split('.')[-1]),
                          'store to .%s in %s: the ballot total / a line multiplier is changed outside BallotLine.__init__, where kept and '
                          'dropped lines are told apart' % (n.attr, fq), nontrivial=False)
    # every counting ballot is built with the multiplier of the line it stands for: Election.Ballot(...) constructions (also
    # `type(self)(...)` / `self.__class__(...)` inside Ballot) pass `<line>.multiplier` (the default multiplier=1 is for tests)
    nb_ = 0
    for fq, g in ctx.repo.funcs.items():
        if not g.module.name.startswith('droop'):
            continue
        in_ballot = g.owner_class is not None and g.owner_class.qualname == 'droop.election.Election.Ballot'
        for c in g.own_nodes():
            if not isinstance(c, ast.Call):
                continue
            fn = unparse(c.func)
            is_ctor = fn.split('.')[-1] == 'Ballot' and fn in ('self.Ballot', 'Ballot', 'E.Ballot', 'Election.Ballot', 'self.E.Ballot') \
                or (in_ballot and fn in ('type(self)', 'self.__class__'))
            if not is_ctor:
                continue
            nb_ += 1
            m_ = c.args[1] if len(c.args) > 1 else next((k.value for k in c.keywords if k.arg == 'multiplier'), None)
            okm_ = isinstance(m_, ast.Attribute) and m_.attr == 'multiplier'
            ctx.check(okm_, R, c, g, 'a counting ballot is built with the multiplier of the ballot line it stands for',
                      'multiplier argument `%s`' % (unparse(m_) if m_ is not None else None),
                      '`%s` builds a ballot %s: it counts as one ballot however many the line stands for'
                      % (unparse(c), 'without a multiplier' if m_ is None else 'with multiplier `%s`' % unparse(m_)))
    ctx.floor(R, 'Ballot constructions', nb_, 2)
    # no other writer of the two lists
    for fq, g in ctx.repo.funcs.items():
        for n in g.own_nodes():
            if isinstance(n, ast.Call) and isinstance(n.func, ast.Attribute) and n.func.attr in ('append', 'extend', 'insert', 'pop', 'remove', 'clear') \
                    and unparse(n.func.value).endswith(('ballotLines', 'ballotLinesEqual')) and n not in apps:
                ctx.bad(R, n, g, 'ballot lines are added only by the parser', 'other writer: %s' % stmt_text(n))


# ---------------------------------------------------------------------------
# R30
# ---------------------------------------------------------------------------

def nonempty_filter(cond, var):
    """cond keeps exactly the non-empty values of var: `var`, `len(var)`, `len(var) > 0`, `len(var) >= 1`, `len(var) != 0`"""
    def is_len(e):
        return isinstance(e, ast.Call) and isinstance(e.func, ast.Name) and e.func.id == 'len' and len(e.args) == 1 \
            and isinstance(e.args[0], ast.Name) and e.args[0].id == var
    if isinstance(cond, ast.Name) and cond.id == var:
        return True
    if is_len(cond):
        return True
    if isinstance(cond, ast.Compare) and len(cond.ops) == 1 and is_len(cond.left) and isinstance(cond.comparators[0], ast.Constant):
        k, op = cond.comparators[0].value, type(cond.ops[0])
        return (op, k) in ((ast.Gt, 0), (ast.GtE, 1), (ast.NotEq, 0))
    return False


def r30_validation(ctx):
    R = 'R30'
    repo = ctx.repo
    cls = repo.cls(PROFILE)
    init = cls.methods['__init__']
    cfg = cfg_of(init)
    val = cls.methods.get(cls.mangle('__validate')) or cls.methods.get('__validate')
    need(val is not None, '__validate missing')
    vcalls = {n for n in cfg.stmt_nodes() if any(unparse(c.func) == 'self.__validate' for c in calls_at(n))}
    pcalls = {n for n in cfg.stmt_nodes() if any(unparse(c.func) == 'self.bltParse' for c in calls_at(n))}
    ok = bool(vcalls) and bool(pcalls) and cfg.exit not in cfg.reach([cfg.entry], avoid=vcalls, include_start=True) \
        and all(cfg.exit not in cfg.reach([p], avoid=vcalls) for p in pcalls)
    ctx.check(ok, R, init.node, init, 'every accepted profile passed __validate after parsing',
              'every path from bltParse(...) to the normal end of __init__ calls self.__validate()',
              '__init__ can return an accepted profile without calling __validate')
    txt = unparse(val.node)
    raises = [r for r in val.own_nodes() if isinstance(r, ast.Raise)]
    okr = all(isinstance(r.exc, ast.Call) and unparse(r.exc.func).endswith(PERR) for r in raises)
    ctx.check(okr and len(raises) >= 4, R, val.node, val, '__validate rejects with the profile error', '%d raise statements, all ElectionProfileError' % len(raises),
              '__validate raises something else or lost a check (%d raises)' % len(raises), nontrivial=False)

    singles = {nm: d[0][0] for nm, d in val.assigns().items() if len(d) == 1 and isinstance(d[0][0], ast.AST) and isinstance(d[0][1], ast.Assign)
               and d[0][1] in val.node.body}

    def expand(t):
        """the test with locals bound once at the top level of __validate replaced by what they are bound to"""
        import copy as _copy

        class X(ast.NodeTransformer):
            def visit_Name(self, node):
                if isinstance(node.ctx, ast.Load) and node.id in singles:
                    return ast.parse(unparse(singles[node.id]), mode='eval').body
                return node
        return X().visit(ast.parse(unparse(t), mode='eval').body)

    def has_if(pred):
        for n in val.own_nodes():
            if isinstance(n, ast.If) and n.body and isinstance(n.body[0], ast.Raise) and (pred(n.test) or pred(expand(n.test))):
                return n
        return None
    seats = has_if(lambda t: 'self.nSeats > len(self.eligible)' in unparse(t) and 'not self.nSeats' in unparse(t))
    ctx.check(seats is not None, R, seats or val.node, val, 'no accepted profile has zero seats or more seats than eligible candidates',
              '`if not self.nSeats or self.nSeats > len(self.eligible): raise`', 'seat validation missing or weakened')
    ballots = has_if(lambda t: unparse(t) == 'self.nBallots < len(self.eligible)')
    ctx.check(ballots is not None, R, ballots or val.node, val, 'no accepted profile has fewer ballots than eligible candidates',
              '`if self.nBallots < len(self.eligible): raise`', 'ballot-count validation missing or weakened')
    for lst in ('self.ballotLines', 'self.ballotLinesEqual'):
        loops = [n for n in val.node.body if isinstance(n, ast.For) and unparse(n.iter) == lst]
        ok = False
        if loops:
            L = loops[0]
            # per ballot: a fresh accumulator A (dict / set / list), `if x in A: raise`, then x recorded in A (A[x] = .., A.add(x), A.append(x))
            resets = {n.targets[0].id for n in L.body if isinstance(n, ast.Assign) and len(n.targets) == 1 and isinstance(n.targets[0], ast.Name)
                      and unparse(n.value) in ('dict()', '{}', 'set()', '[]', 'list()')}
            ifs = [n for n in ast.walk(L) if isinstance(n, ast.If) and n.body and isinstance(n.body[0], ast.Raise)
                   and isinstance(n.test, ast.Compare) and len(n.test.ops) == 1 and isinstance(n.test.ops[0], ast.In)
                   and isinstance(n.test.left, ast.Name) and isinstance(n.test.comparators[0], ast.Name) and n.test.comparators[0].id in resets]
            ok = False
            for i_ in ifs:
                x_, a_ = i_.test.left.id, i_.test.comparators[0].id
                for n in ast.walk(L):
                    if isinstance(n, ast.Subscript) and isinstance(n.ctx, ast.Store) and isinstance(n.value, ast.Name) and n.value.id == a_ \
                            and isinstance(n.slice, ast.Name) and n.slice.id == x_:
                        ok = True
                    if isinstance(n, ast.Call) and isinstance(n.func, ast.Attribute) and n.func.attr in ('add', 'append') and isinstance(n.func.value, ast.Name) \
                            and n.func.value.id == a_ and len(n.args) == 1 and isinstance(n.args[0], ast.Name) and n.args[0].id == x_:
                        ok = True
        ctx.check(ok, R, loops[0] if loops else val.node, val, 'no accepted ballot in %s ranks a candidate twice' % lst.split('.')[-1],
                  'per ballot: fresh seen-set, `if cid in seen: raise`, seen[cid] = cid', 'duplicate check over %s missing or broken' % lst)


# ---------------------------------------------------------------------------
# R52 optional trailing strings
# ---------------------------------------------------------------------------

def _is_stopiter_handler(h):
    return isinstance(h, ast.ExceptHandler) and h.type is not None and 'StopIteration' in unparse(h.type)


def _is_unquoted_test(t):
    """`not X.startswith('"')` -> True-edge means: the next token is not a quoted string"""
    return isinstance(t, ast.UnaryOp) and isinstance(t.op, ast.Not) and isinstance(t.operand, ast.Call) \
        and isinstance(t.operand.func, ast.Attribute) and t.operand.func.attr == 'startswith' and t.operand.args \
        and const_str(t.operand.args[0]) == '"'


def _none_only_at_end_of_input(h):
    """helper summary: every `return None` / bare return of h is inside an `except StopIteration` handler or under
    `if not tok.startswith('"')` - i.e. None means 'no (quoted) token left', never 'an empty string'"""
    rets = [r for r in h.own_nodes() if isinstance(r, ast.Return) and (r.value is None or (isinstance(r.value, ast.Constant) and r.value.value is None))]
    if not rets:
        return False
    for r in rets:
        ok = False
        n = r.parent
        child = r
        while n is not None and n is not h.node:
            if _is_stopiter_handler(n):
                ok = True
            if isinstance(n, ast.If) and _is_unquoted_test(n.test) and any(child is b or _contains(b, child) for b in n.body):
                ok = True
            child = n
            n = n.parent
        if not ok:
            return False
    # and no other return can yield None: the remaining returns return a str expression
    return True


def r52_optional_tail(ctx):
    """After the election title a blt file may carry a source string and then a comment string.  Whether they are there is
    a fact about the token stream (end of input, or unquoted material), not about the value read: an empty source string
    `""` is a source string, and the comment after it must still be read."""
    R = 'R52'
    cls = ctx.repo.cls(PROFILE)
    p = cls.methods['_bltParse']
    cfg = cfg_of(p)

    def stores(attr):
        return {n for n in cfg.stmt_nodes() if n.kind == 'stmt' and isinstance(n.ast, ast.Assign) and unparse(n.ast.targets[0]) == 'self.' + attr}
    src, com, tit = stores('source'), stores('comment'), stores('title')
    need(src and com and tit, 'R52: _bltParse does not assign self.title / self.source / self.comment')
    # end-of-input witnesses
    handlers = {n for n in cfg.nodes if n.kind == 'join' and _is_stopiter_handler(n.ast)}
    wit_edges = set()

    def none_at_end(lhs, at):
        """every definition of the local reaching the test is `next(<iterator>, None)` or a helper of the class that returns None only
        at end of input"""
        rd = reaching_defs(cfg, lhs, at) if lhs.isidentifier() else []
        if rd and all(d_ is not cfg.entry and d_.kind == 'stmt' and isinstance(d_.ast, ast.Assign) for d_ in rd):
            defs = [d_.ast.value for d_ in rd]
        else:
            defs = [n.ast.value for n in cfg.stmt_nodes() if n.kind == 'stmt' and isinstance(n.ast, ast.Assign) and unparse(n.ast.targets[0]) == lhs]
        okh = bool(defs)
        for d_ in defs:
            if isinstance(d_, ast.Call) and isinstance(d_.func, ast.Name) and d_.func.id == 'next' and len(d_.args) == 2 \
                    and isinstance(d_.args[1], ast.Constant) and d_.args[1].value is None:
                continue
            h = None
            if isinstance(d_, ast.Call) and isinstance(d_.func, ast.Attribute) and unparse(d_.func.value) == 'self':
                h = cls.methods.get(cls.mangle(d_.func.attr)) or cls.methods.get(d_.func.attr)
            elif isinstance(d_, ast.Call) and isinstance(d_.func, ast.Name):
                h = p.children.get(d_.func.id)          # a helper nested in the parser
            if h is None or not _none_only_at_end_of_input(h):
                okh = False
        return okh

    def witness(tt, at):
        """the truth value of the test that witnesses 'no further quoted token' (True / False), or None"""
        if _is_unquoted_test(tt):
            return True
        if isinstance(tt, ast.Call) and isinstance(tt.func, ast.Attribute) and tt.func.attr == 'startswith' and tt.args and const_str(tt.args[0]) == '"':
            return False
        if isinstance(tt, ast.Compare) and len(tt.ops) == 1 and isinstance(tt.comparators[0], ast.Constant) and tt.comparators[0].value is None \
                and isinstance(tt.ops[0], (ast.Is, ast.IsNot)) and none_at_end(unparse(tt.left), at):
            return isinstance(tt.ops[0], ast.Is)
        if isinstance(tt, ast.UnaryOp) and isinstance(tt.op, ast.Not):
            w = witness(tt.operand, at)
            return None if w is None else (not w)
        if isinstance(tt, ast.BoolOp):
            ws = [witness(v, at) for v in tt.values]
            if isinstance(tt.op, ast.Or) and all(w is True for w in ws):
                return True         # any disjunct true: end of input or unquoted material
            if isinstance(tt.op, ast.And) and all(w is False for w in ws):
                return False        # the conjunction fails only when one of them witnesses the end
        return None
    for t in cfg.nodes:
        if t.kind == 'test' and isinstance(t.ast, ast.If):
            w = witness(t.ast.test, t)
            if w is not None:
                wit_edges.add((t, w))

    def edge_ok(a, b, lab):
        return (a, lab) not in wit_edges
    for name, starts, nxt in (('source', tit, src), ('comment', src, com)):
        r = cfg.reach(list(starts), avoid=nxt | handlers, edge_ok=edge_ok)
        bad = cfg.exit in r
        pth = None
        if bad:
            for s0 in starts:
                pth = pth or cfg.find_path(s0, cfg.exit, avoid=nxt | handlers, edge_ok=edge_ok)
        ctx.check(not bad, R, list(nxt)[0].ast, p,
                  'the optional %s string is read whenever another quoted token follows (its absence is decided by the token stream, not by a value)' % name,
                  'every path from the preceding string to the end of _bltParse reads it, or leaves through end of input / an unquoted token',
                  'the parser can finish without reading the %s string although a quoted token may follow: %s'
                  % (name, cfg.describe_path(pth) if pth else ''))


# ---------------------------------------------------------------------------
# R31 exception escape
# ---------------------------------------------------------------------------

BUILTINS = set(dir(__builtins__)) if not isinstance(__builtins__, dict) else set(__builtins__)


def _definite_assignment(ctx, f):
    """yield (name_node, ok) for every local-name load: every path entry -> load passes a binding,
    where a binding inside a try body does not count on the exception edge out of it"""
    cfg = cfg_of(f)
    locals_ = set(f.assigns().keys())
    params = set(f.params)
    out = []
    # map every Name load to its CFG node
    for node in cfg.stmt_nodes():
        heads = []
        if node.kind == 'test':
            heads = [node.ast.test]
        elif node.kind == 'iter':
            heads = [node.ast.iter]
        elif node.kind == 'stmt':
            st = node.ast
            if isinstance(st, (ast.FunctionDef, ast.ClassDef)):
                continue
            if isinstance(st, ast.With):
                heads = [i.context_expr for i in st.items]
            else:
                heads = [st]
        for h in heads:
            comp_bound = set()
            for sub in ast.walk(h):
                if isinstance(sub, (ast.ListComp, ast.GeneratorExp, ast.SetComp, ast.DictComp)):
                    for g in sub.generators:
                        for t in ast.walk(g.target):
                            if isinstance(t, ast.Name):
                                comp_bound.add(t.id)
            for sub in ast.walk(h):
                if isinstance(sub, ast.Name) and isinstance(sub.ctx, ast.Load) and sub.id in locals_ \
                        and sub.id not in params and sub.id not in comp_bound:
                    out.append((sub, node))
    # handler bodies: `except X as e` binds e - handled by assigns() (val None)
    results = []
    memo = {}
    for name_node, at in out:
        key = (name_node.id, at.id)
        if key not in memo:
            memo[key] = _reaches_unbound(cfg, name_node.id, at)
        results.append((name_node, at, memo[key]))
    return results


def _reaches_unbound(cfg, name, at):
    """witness path entry -> at on which `name` is never bound, or None"""
    seen = set()
    stack = [(cfg.entry, None)]
    prev = {}
    while stack:
        n, _ = stack.pop()
        if n in seen:
            continue
        seen.add(n)
        b = binds_name(n, name) or (n.kind == 'join' and isinstance(n.ast, ast.ExceptHandler) and n.ast.name == name)
        # an augmented assignment loads before it stores
        if n is at and not (b and not (n.kind == 'stmt' and isinstance(n.ast, ast.AugAssign))):
            path = [n]
            while path[-1] in prev:
                path.append(prev[path[-1]])
            return list(reversed(path))
        if n is at and b and n.kind == 'stmt' and isinstance(n.ast, ast.AugAssign):
            path = [n]
            while path[-1] in prev:
                path.append(prev[path[-1]])
            return list(reversed(path))
        for t, lab in n.succ:
            if lab == 'exc' and not may_raise(n):
                continue          # this statement cannot raise: no exception edge out of it
            if b and lab != 'exc':
                continue          # the binding completed: name is bound on this edge
            if n.kind == 'iter' and b and lab is False:
                pass
            if t not in seen:
                prev.setdefault(t, n)
                stack.append((t, lab))
    return None


_FMT = re.compile(r'%(?:\([^)]*\))?[#0\- +]*(?:\*|\d+)?(?:\.(?:\*|\d+))?([diouxXeEfFgGcrsa%])')


def _int_typed(ctx, f, e, at):
    """is expression e certainly an int?"""
    if isinstance(e, ast.Constant):
        return isinstance(e.value, int)
    if isinstance(e, ast.Call) and isinstance(e.func, ast.Name) and e.func.id in ('len', 'int'):
        return True
    if isinstance(e, ast.Attribute) and isinstance(e.value, ast.Name):
        if e.attr in ('lineNumber', 'line'):
            return True
        if e.attr in ('nSeats', 'nBallots', 'nCand'):
            return True        # assigned int(tok) / int sums before any use (definite: R31 attribute-order note)
    if isinstance(e, ast.Name):
        cfg = cfg_of(f)
        rd = reaching_defs(cfg, e.id, at)
        if not rd:
            return False
        for d in rd:
            if d is cfg.entry:
                # parameter: int only under an isinstance(<param>, int) guard dominating `at`
                for t in cfg.nodes:
                    if t.kind == 'test' and unparse(t.ast.test) == 'isinstance(%s, int)' % e.id:
                        if at not in cfg.reach([cfg.entry], edge_ok=lambda a, b, lab, t=t: not (a is t and lab is True), include_start=True):
                            break
                else:
                    return False
                continue
            if d.kind == 'iter':
                it = d.ast.iter
                if isinstance(it, ast.Call) and isinstance(it.func, ast.Name) and it.func.id == 'range':
                    continue
                return False
            st = d.ast
            if isinstance(st, ast.Assign) and _int_typed(ctx, f, st.value, d):
                continue
            if isinstance(st, ast.AugAssign) and isinstance(st.value, ast.Constant) and isinstance(st.value.value, int):
                continue
            return False
        return True
    return False


def r31_exception_escape(ctx):
    R = 'R31'
    repo = ctx.repo
    funcs, callers = _pfuncs(ctx)
    caught, covered, inner = _global_cover(ctx, funcs, callers)
    ctx.note(R, 'bltParse converts %s for %d function(s) beneath it: %s' % (sorted(caught), len(covered), sorted(q.split('.')[-1] for q in covered)))
    n = 0
    for qn, f in sorted(funcs.items()):
        if f.name == 'bltRead':
            continue
        cfg = cfg_of(f)
        under = qn in covered

        def discharged(exc, node):
            local = _handlers_covering(ctx, f, node)
            if exc in local or '*' in local or 'Exception' in local:
                return 'caught locally'
            if under and exc in caught:
                return 'converted to ElectionProfileError by bltParse (every call chain enters through its try block)'
            return None
        for node in f.own_nodes():
            # (a) next()
            if isinstance(node, ast.Call) and isinstance(node.func, ast.Name) and node.func.id == 'next':
                n += 1
                d = discharged('StopIteration', node)
                is_gen = any(isinstance(y, (ast.Yield, ast.YieldFrom)) for y in f.own_nodes())
                if is_gen and 'StopIteration' not in _handlers_covering(ctx, f, node):
                    ctx.bad(R, node, f, 'next() at end of input ends in the profile error',
                            'next() inside the generator %s: a StopIteration raised in a generator body becomes RuntimeError (PEP 479), '
                            'which nothing converts to the profile error' % f.name)
                    continue
                ctx.check(d is not None, R, node, f, 'next() at end of input ends in the profile error', d,
                          'StopIteration from next() is not handled on this path')
            # (b) int()
            elif isinstance(node, ast.Call) and isinstance(node.func, ast.Name) and node.func.id == 'int':
                n += 1
                d = discharged('ValueError', node)
                ctx.check(d is not None, R, node, f, 'int() of a token cannot escape as ValueError '
                          '(non-digits, or more digits than the interpreter converts)', d,
                          'int(%s) is guarded at most by a \\d+ pattern: CPython >= 3.11 raises ValueError for digit strings '
                          'over its conversion limit (4300 digits)' % unparse(node.args[0]) if node.args else 'int()')
            # (g) array.array
            elif isinstance(node, ast.Call) and unparse(node.func) == 'array.array':
                n += 1
                d = discharged('OverflowError', node)
                ctx.check(d is not None, R, node, f, 'array construction cannot escape as OverflowError', d,
                          'array.array raises OverflowError for an ID that does not fit its item type (declared candidate '
                          'count beyond the C type) and nothing converts it')
            # (f) list.remove
            elif isinstance(node, ast.Call) and isinstance(node.func, ast.Attribute) and node.func.attr == 'remove':
                n += 1
                d = discharged('ValueError', node)
                ctx.check(d is not None, R, node, f, 'list.remove cannot escape as ValueError', d, 'list.remove(x) raises ValueError when x is absent')
            # (c) subscript loads
            elif isinstance(node, ast.Subscript) and isinstance(node.ctx, ast.Load):
                if isinstance(node.slice, ast.Slice):
                    continue
                n += 1
                ok, how = _subscript_safe(ctx, f, node)
                ctx.check(ok, R, node, f, 'subscript `%s` cannot raise KeyError/IndexError' % unparse(node), how, how)
            # (e) string formatting
            elif isinstance(node, ast.BinOp) and isinstance(node.op, ast.Mod) and const_str(node.left) is not None:
                n += 1
                specs = [m for m in _FMT.findall(const_str(node.left)) if m != '%']
                args = node.right.elts if isinstance(node.right, ast.Tuple) else [node.right]
                ok = len(specs) == len(args)
                why = 'format has %d specifier(s), %d argument(s)' % (len(specs), len(args))
                if ok:
                    st = repo.enclosing_stmt(node)
                    s2 = st
                    while s2 is not None and s2 not in cfg.of_stmt:
                        s2 = getattr(s2, 'parent', None)
                    at = cfg.of_stmt.get(s2)
                    for sp, a in zip(specs, args):
                        if sp in 'diouxX' and not _int_typed(ctx, f, a, at):
                            ok = False
                            why = '%%%s argument `%s` is not certainly an int' % (sp, unparse(a))
                ctx.check(ok, R, node, f, 'message formatting cannot raise TypeError', why, why, nontrivial=False)
            # (h) raise
            elif isinstance(node, ast.Raise):
                n += 1
                ok = node.exc is None or (isinstance(node.exc, ast.Call) and unparse(node.exc.func).split('.')[-1] == PERR)
                ctx.check(ok, R, node, f, 'the parser raises only its own profile error', unparse(node.exc) if node.exc else 're-raise',
                          'raises %s' % (unparse(node.exc) if node.exc else '?'), nontrivial=False)
        # (d) definite assignment incl. exception edges
        for name_node, at, witness in _definite_assignment(ctx, f):
            n += 1
            ctx.check(witness is None, R, name_node, f, 'local `%s` is bound on every path to this use (incl. exception edges)' % name_node.id,
                      'definite assignment on the CFG with try/except edges',
                      'local `%s` can be unbound here (UnboundLocalError): path %s'
                      % (name_node.id, cfg.describe_path(witness) if witness else ''))
    ctx.floor(R, 'partial operations', n, 120)
    # escape through generator: __bltBlob has no partial operation other than the above
    # attribute order: nCand/nSeats are assigned before the first getCid / validate call
    p = repo.cls(PROFILE).methods['_bltParse']
    pcfg = cfg_of(p)
    for attr in ('nCand', 'nSeats'):
        stores = {x for x in pcfg.stmt_nodes() if x.kind == 'stmt' and isinstance(x.ast, ast.Assign)
                  and unparse(x.ast.targets[0]) == 'self.' + attr and isinstance(x.ast.value, ast.Call)
                  and unparse(x.ast.value.func) == 'int'}
        users = {x for x in pcfg.stmt_nodes() if any(unparse(c.func) in ('self.getCid', 'self.BallotLine') or
                                                     unparse(c.func).startswith('self._ElectionProfile__bltOption') or
                                                     unparse(c.func).startswith('self.__bltOption') for c in calls_at(x))}
        early = pcfg.reach([pcfg.entry], avoid=stores, include_start=True) & users
        ctx.check(bool(stores) and not early, R, p.node, p, 'self.%s is an int before anything compares with it' % attr,
                  'assigned int(tok) before the first getCid/option/BallotLine call', 'self.%s may still be None when first used' % attr)


def _subscript_safe(ctx, f, node):
    cfg = cfg_of(f)
    v = node.value
    sl = node.slice
    # dict lookups: dominated by `k in d`
    vt = unparse(v)
    kt = unparse(sl)
    st = ctx.repo.enclosing_stmt(node)
    s2 = st
    while s2 is not None and s2 not in cfg.of_stmt:
        s2 = getattr(s2, 'parent', None)
    at = cfg.of_stmt.get(s2)
    for t in cfg.nodes:
        if t.kind == 'test':
            parts = t.ast.test.values if isinstance(t.ast.test, ast.BoolOp) and isinstance(t.ast.test.op, ast.And) else [t.ast.test]
            for p in parts:
                if isinstance(p, ast.Compare) and len(p.ops) == 1 and isinstance(p.ops[0], ast.In) \
                        and unparse(p.left) == kt and unparse(p.comparators[0]) == vt:
                    if at is not None and at not in cfg.reach([cfg.entry], edge_ok=lambda a, b, lab, t=t: not (a is t and lab is True),
                                                             include_start=True):
                        return True, 'dominated by `%s in %s`' % (kt, vt)
            # `if k not in d: raise/return` before the lookup: the lookup is reached only on the False edge
            p = t.ast.test
            if isinstance(p, ast.Compare) and len(p.ops) == 1 and isinstance(p.ops[0], ast.NotIn) \
                    and unparse(p.left) == kt and unparse(p.comparators[0]) == vt:
                if at is not None and at not in cfg.reach([cfg.entry], edge_ok=lambda a, b, lab, t=t: not (a is t and lab is False),
                                                         include_start=True):
                    return True, 'dominated by the False edge of `%s not in %s`' % (kt, vt)
    # x[0] where x is a comprehension variable filtered on len(x)
    if isinstance(sl, ast.Constant) and sl.value == 0 and isinstance(v, ast.Name):
        n = node.parent
        while n is not None and not isinstance(n, ast.FunctionDef):
            if isinstance(n, (ast.ListComp, ast.GeneratorExp)):
                for g in n.generators:
                    if isinstance(g.target, ast.Name) and g.target.id == v.id and isinstance(g.iter, ast.Name):
                        # the iterated list was itself built with a len() filter
                        rd = reaching_defs(cfg, g.iter.id, at) if at is not None else []
                        if rd and all(d is not cfg.entry and isinstance(d.ast, ast.Assign) and isinstance(d.ast.value, ast.ListComp)
                                      and any(isinstance(gg.target, ast.Name) and nonempty_filter(c, gg.target.id)
                                              for gg in d.ast.value.generators for c in gg.ifs) for d in rd):
                            return True, 'element of a list filtered on len(...) (non-empty ranks)'
            n = n.parent
    # result of str.split(...)[0]
    if isinstance(sl, ast.Constant) and sl.value == 0 and isinstance(v, ast.Call) and isinstance(v.func, ast.Attribute) \
            and v.func.attr == 'split':
        return True, 'str.split() always has an element 0'
    return False, 'no dominating membership/length test found for `%s`' % unparse(node)


# ---------------------------------------------------------------------------
# R32
# ---------------------------------------------------------------------------

def r32_loops_consume(ctx):
    R = 'R32'
    funcs, callers = _pfuncs(ctx)
    nw = 0
    for f in funcs.values():
        cfg = cfg_of(f)
        for n in f.own_nodes():
            if not isinstance(n, ast.While):
                continue
            nw += 1
            head = cfg.of_stmt[n]
            consumers = {x for x in cfg.nodes_in(n) if any(isinstance(c.func, ast.Name) and c.func.id == 'next' for c in calls_at(x))}
            ok = bool(consumers) and head not in cfg.reach([head], avoid=consumers,
                                                           edge_ok=lambda a, b, lab: not (a is head and lab is False))
            ctx.check(ok, R, n, f, 'every iteration of a parser loop consumes a token (finite input => termination)',
                      'every path round `while %s` passes a next(...) call' % unparse(n.test)[:40],
                      'a path round `while %s` consumes no token: the parser can hang' % unparse(n.test)[:40])
    ctx.floor(R, 'parser while-loops', nw, 6)
    # work proportional to the DECLARED number of candidates (the first token of the file, any size) happens only once the file
    # has shown that many names: a loop over range(.. nCand ..) either consumes a token per iteration, or runs after such a
    # loop / after the parse has returned.  Otherwise a one-token file can make the reader allocate without bound.
    nr = 0
    pcls = ctx.repo.cls(PROFILE)
    init = pcls.methods['__init__']
    for f in funcs.values():
        cfg = cfg_of(f)
        fors = [n for n in f.own_nodes() if isinstance(n, ast.For) and isinstance(n.iter, ast.Call) and unparse(n.iter.func) == 'range'
                and any(isinstance(x, ast.Attribute) and x.attr == 'nCand' for x in ast.walk(n.iter))]

        def consuming(n):
            head = cfg.of_stmt[n]
            consumers = {x for x in cfg.nodes_in(n) if any(isinstance(c.func, ast.Name) and c.func.id == 'next' for c in calls_at(x))}
            return bool(consumers) and head not in cfg.reach([t for t, lab in head.succ if lab is True], avoid=consumers, include_start=True)
        cons = [n for n in fors if consuming(n)]
        for n in fors:
            nr += 1
            head = cfg.of_stmt[n]
            how = None
            if n in cons:
                how = 'each iteration reads a token'
            elif any(head not in cfg.reach([cfg.entry], avoid=[cfg.of_stmt[c_]], include_start=True) for c_ in cons if c_ is not n):
                how = 'runs after the loop that read one name per candidate'
            elif f is init:
                pc = {x for x in cfg.stmt_nodes() if any(unparse(c.func) in ('self.bltParse', 'self._bltParse') for c in calls_at(x))}
                if pc and head not in cfg.reach([cfg.entry], avoid=pc, include_start=True):
                    how = 'runs after the parse has returned (nCand names were read)'
            elif f.name.endswith('validate'):
                how = 'validation runs after the parse'
            ctx.check(how is not None, R, n, f, 'work proportional to the declared candidate count is done only after that many names were read',
                      how or '', '`%s` runs as soon as the candidate count is read: a file that merely claims a huge number of candidates makes '
                      'the reader loop / allocate without bound (MemoryError or a hang instead of a profile error)' % stmt_text(n))
    ctx.floor(R, 'loops over the declared candidate count', nr, 3)
    # the tokenizer has only for-loops over finite sequences
    tk = ctx.repo.cls(PROFILE).methods.get(ctx.repo.cls(PROFILE).mangle('__bltBlob')) or ctx.repo.cls(PROFILE).methods.get('__bltBlob')
    need(tk is not None, 'tokenizer __bltBlob missing')
    ctx.check(not any(isinstance(n, ast.While) for n in tk.own_nodes()), R, tk.node, tk,
              'the tokenizer iterates over finite sequences only', 'only for-loops over splitlines()/split()', 'while-loop in the tokenizer',
              nontrivial=False)


# ---------------------------------------------------------------------------
# R33
# ---------------------------------------------------------------------------

def r33_cli_handlers(ctx):
    R = 'R33'
    repo = ctx.repo
    # exception classes defined in the package
    exc = []
    for c in repo.classes.values():
        if any(b in ('Exception', 'BaseException') or b.endswith('Error') for b in c.base_names) and c.module.name.startswith('droop'):
            exc.append(c)
    names = sorted(c.name for c in exc)
    need(len(names) >= 4, 'R33: only %d exception classes found' % len(names))
    raised = set()
    for f in repo.funcs.values():
        for r in f.own_nodes():
            if isinstance(r, ast.Raise) and isinstance(r.exc, ast.Call):
                raised.add(unparse(r.exc.func).split('.')[-1])
    m = repo.module('Droop')
    main_if = [s for s in m.tree.body if isinstance(s, ast.If) and '__main__' in unparse(s.test)]
    need(main_if, 'Droop.py has no __main__ block')
    caught = set()
    for t in [n for n in ast.walk(main_if[0]) if isinstance(n, ast.Try)]:
        body_calls_main = any(isinstance(c, ast.Call) and isinstance(c.func, ast.Name) and c.func.id == 'main'
                              for s in t.body for c in ast.walk(s))
        if body_calls_main:
            for h in t.handlers:
                for ty in (h.type.elts if isinstance(h.type, ast.Tuple) else [h.type]):
                    caught.add(unparse(ty).split('.')[-1])
    for t in [n for n in ast.walk(main_if[0]) if isinstance(n, ast.Try)]:
        for h in t.handlers:
            last = h.body[-1] if h.body else None
            oke = isinstance(last, ast.Expr) and isinstance(last.value, ast.Call) and unparse(last.value.func) == 'sys.exit' \
                and last.value.args and isinstance(last.value.args[0], ast.Constant) and last.value.args[0].value not in (0, None)
            oke = oke or isinstance(last, ast.Raise)
            ctx.check(oke, R, h, 'Droop.__main__', 'after reporting a package exception the command line exits with a failure status',
                      'handler for %s ends in sys.exit(<non-zero>)' % (unparse(h.type) if h.type else 'everything'),
                      'the handler for %s does not end the program: control falls through to `print(report)` with `report` unbound '
                      '(NameError traceback) or exits with status 0' % (unparse(h.type) if h.type else 'everything'))
    for nm in names:
        if nm not in raised:
            continue
        ctx.check(nm in caught, R, main_if[0], 'Droop.__main__', 'the command line catches the package exception %s' % nm,
                  'handler for %s around main(...)' % nm, '%s raised by the package is not caught by the CLI: traceback instead of a message' % nm)
    # sibling drivers
    for d in ('irv', 'mpls', 'oscar', 'scotland'):
        if d not in repo.modules:
            continue
        dm = repo.modules[d]
        tries = [n for n in dm.tree.body if isinstance(n, ast.Try)]
        need(tries, '%s.py has no try block' % d)
        t = tries[0]
        dcaught = set()
        for h in t.handlers:
            for ty in (h.type.elts if isinstance(h.type, ast.Tuple) else [h.type]):
                dcaught.add(unparse(ty).split('.')[-1])
        call = [c for s in t.body for c in ast.walk(s) if isinstance(c, ast.Call) and unparse(c.func) == 'Droop.main']
        need(call, '%s.py does not call Droop.main' % d)
        opts = {}
        a0 = call[0].args[0] if call[0].args else None
        if isinstance(a0, ast.Call) and isinstance(a0.func, ast.Name) and a0.func.id == 'dict':
            for k in a0.keywords:
                opts[k.arg] = const_str(k.value)
        from .optionrules import STATUTORY
        arith_fixed = opts.get('arithmetic') in ('fixed', 'integer', 'rational', 'guarded') or opts.get('rule') in STATUTORY
        for nm in names:
            if nm not in raised:
                continue
            if nm == 'ArithmeticValuesError':
                ctx.check(nm in dcaught or arith_fixed, R, t, d, 'driver %s.py cannot die of %s' % (d, nm),
                          'arithmetic is hard-wired (%s): the unknown-arithmetic error is unreachable' % (opts.get('arithmetic') or 'forced by rule ' + str(opts.get('rule'))),
                          '%s.py neither catches %s nor fixes the arithmetic' % (d, nm))
            else:
                ctx.check(nm in dcaught, R, t, d, 'driver %s.py catches the package exception %s' % (d, nm),
                          'listed in its except clause', '%s.py does not catch %s' % (d, nm))


# ---------------------------------------------------------------------------
# R58 what counts as a number, and who reads the file
# ---------------------------------------------------------------------------

def _digit_regex(e, f):
    """is e a call `re.match(<digits pattern>, X)` / `<compiled digits>.match(X)` (or that `is not None`); returns (X name, signed?) or None"""
    if isinstance(e, ast.Compare) and len(e.ops) == 1 and isinstance(e.ops[0], ast.IsNot) and isinstance(e.comparators[0], ast.Constant) \
            and e.comparators[0].value is None:
        e = e.left
    if isinstance(e, ast.Call) and isinstance(e.func, ast.Name) and e.func.id == 'bool' and len(e.args) == 1:
        e = e.args[0]
    if not (isinstance(e, ast.Call) and isinstance(e.func, ast.Attribute) and e.func.attr in ('match', 'fullmatch')):
        return None
    pat = None
    arg = None
    if unparse(e.func.value) == 're' and len(e.args) == 2:
        pat, arg = const_str(e.args[0]), e.args[1]
    elif isinstance(e.func.value, ast.Name) and len(e.args) == 1:
        defs = f.assigns().get(e.func.value.id, [])
        for v, st in defs:
            if isinstance(v, ast.Call) and unparse(v.func) == 're.compile' and v.args:
                pat = const_str(v.args[0])
        arg = e.args[0]
    if pat is None or not isinstance(arg, ast.Name):
        return None
    if pat in (r'\d+$', r'^\d+$', r'\d+\Z', r'[0-9]+$'):
        return arg.id, False
    if pat in (r'-?\d+$', r'^-?\d+$'):
        return arg.id, True
    return None


def r58_numbers_and_files(ctx):
    """(a) a token is read as a number only if it consists of decimal digits (an optional leading minus where the format has one):
    every int(<token>) in the reader and the option parser is dominated by the true edge of a full-digit regular-expression match on
    that token.  int() alone also accepts '1_2', '+3', ' 7 ', non-ASCII digits: nicknames and words would be read as candidate ids.
    (b) a ballot file is opened in one place, ElectionProfile.bltRead, with encoding utf-8-sig (the byte-order mark is not a token)."""
    R = 'R58'
    repo = ctx.repo
    n = 0
    for f in repo.funcs.values():
        if f.module.name not in ('droop.profile', 'droop.options', 'droop.common'):
            continue
        cfg = None
        for c in f.own_nodes():
            if not (isinstance(c, ast.Call) and isinstance(c.func, ast.Name) and c.func.id == 'int' and len(c.args) == 1):
                continue
            a = c.args[0]
            if not isinstance(a, ast.Name):
                continue
            # only string tokens: skip ints that are provably numbers already (int(precision) in the arithmetic classes is elsewhere)
            n += 1
            cfg = cfg or cfg_of(f)
            at = cfg.of_stmt[repo.enclosing_stmt(c)]
            ok = False
            # `int(x) if <digits match on x> else x`: guarded inside the expression
            par_, child_ = getattr(c, 'parent', None), c
            while par_ is not None and isinstance(par_, ast.expr):
                if isinstance(par_, ast.IfExp) and child_ is par_.body:
                    tt_ = par_.test
                    for p_ in (tt_.values if isinstance(tt_, ast.BoolOp) and isinstance(tt_.op, ast.And) else [tt_]):
                        r_ = _digit_regex(p_, f)
                        if r_ and r_[0] == a.id:
                            ok = True
                if isinstance(par_, ast.BoolOp) and isinstance(par_.op, ast.And):
                    k_ = next((i_ for i_, v_ in enumerate(par_.values) if v_ is child_), 0)
                    for p_ in par_.values[:k_]:
                        r_ = _digit_regex(p_, f)
                        if r_ and r_[0] == a.id:
                            ok = True
                child_, par_ = par_, getattr(par_, 'parent', None)
            for t in cfg.nodes:
                if t.kind != 'test':
                    continue
                tests = []
                tt = t.ast.test
                neg = False
                if isinstance(tt, ast.UnaryOp) and isinstance(tt.op, ast.Not):
                    tt, neg = tt.operand, True
                parts = tt.values if isinstance(tt, ast.BoolOp) and isinstance(tt.op, ast.And) and not neg else [tt]
                for p_ in parts:
                    r_ = _digit_regex(p_, f)
                    if r_ and r_[0] == a.id:
                        lab = not neg
                        # at is reachable only through the `lab` edge of t (or, for `if not match: raise`, t's other edge does not fall through)
                        if at not in cfg.reach([cfg.entry], edge_ok=lambda x, y, l, t=t, lab=lab: not (x is t and l is lab), include_start=True):
                            ok = True
            ctx.check(ok, R, c, f, 'a token is converted with int() only after it matched a digits-only pattern',
                      'dominated by a full-digit match on `%s`' % a.id,
                      '`%s` is not guarded by a digits-only match on `%s`: int() also accepts underscores, signs, blanks and non-ASCII digits, so a '
                      'nickname or word of that shape is read as a number' % (unparse(c), a.id))
    ctx.floor(R, 'int() conversions of tokens', n, 6)
    # (b)
    opens = []
    for f in repo.funcs.values():
        if not (f.module.name.startswith('droop') or f.module.name == 'Droop'):
            continue
        for c in f.own_nodes():
            if isinstance(c, ast.Call) and (unparse(c.func) in ('open', 'io.open', 'codecs.open') or
                                            (isinstance(c.func, ast.Attribute) and c.func.attr in ('read_text', 'read_bytes', 'open') and unparse(c.func.value) != 'self')):
                opens.append((f, c))
    for f, c in opens:
        isr = f.qualname == PROFILE + '.bltRead'
        enc = [k.value for k in c.keywords if k.arg == 'encoding']
        okb = isr and enc and const_str(enc[0]) == 'utf-8-sig'
        ctx.check(okb, R, c, f, 'a ballot file is opened only by ElectionProfile.bltRead, as utf-8-sig text',
                  "open(path, 'r', encoding='utf-8-sig')",
                  '`%s` in %s reads a file %s: a byte-order mark (or another decoding) reaches the tokenizer, and a well-formed file is read differently '
                  'depending on the entry point' % (unparse(c)[:70], f.qualname, 'outside bltRead' if not isr else 'without encoding utf-8-sig'))
    ctx.check(any(f.qualname == PROFILE + '.bltRead' for f, c in opens), R, repo.cls(PROFILE).node, PROFILE, 'ElectionProfile.bltRead opens the ballot file', 'found', 'no open() in bltRead', nontrivial=False)
    # the driver hands the PATH to the profile (the profile does the reading)
    main = repo.funcs.get('Droop.main')
    if main is not None:
        mk = [c for c in main.own_nodes() if isinstance(c, ast.Call) and unparse(c.func).split('.')[-1] == 'ElectionProfile']
        okp = len(mk) == 1 and any(k.arg == 'path' for k in mk[0].keywords) and not any(k.arg == 'data' for k in mk[0].keywords)
        ctx.check(okp, R, mk[0] if mk else main.node, main, 'the driver gives the profile the path of the ballot file (the profile reads it)',
                  'ElectionProfile(path=path)', 'Droop.main builds the profile from text it read itself')
