"""R04 loop progress and variants: every `while` in droop/rules/ has a recognised variant."""
import ast

from ..model import AnalysisError, need, call_name, const_str, unparse, TupleElem
from ..cfg import cfg_of, calls_at, reaching_defs
from ..pathfacts import Atoms, search, describe, bool_summary, literals
from .common import (rules, deriv, attr_calls, cfg_node_of, effects, node_effects, direct_status_calls,
                     is_selector_call, strip_sorters, all_funcs_of, stmt_text)

PROGRESS = ('elect', 'defeat', 'unpend')


def _tokens(func):
    """NAME = 'literal' single assignments visible in func (closure chain): token aliases"""
    out = {}
    f = func
    while f is not None:
        for name, vals in f.assigns().items():
            if len(vals) == 1 and isinstance(vals[0][0], ast.Constant) and isinstance(vals[0][0].value, str) \
                    and name not in out and name.startswith('IS_'):
                out[name] = vals[0][0].value
        f = f.parent
    return out


def _bool_summaries(ctx, func):
    """formulas of the parameterless boolean local helpers (countComplete)"""
    out = {}
    f = func
    while f is not None:
        for name, g in f.children.items():
            if not g.params and name not in out:
                a = Atoms(ctx, g)
                s = bool_summary(ctx, g, a)
                if s is not None:
                    out[name] = s
        f = f.parent
    return out


def _atoms(ctx, func):
    return Atoms(ctx, func, _bool_summaries(ctx, func), _tokens(func))


def _assign_transfer(ctx, func, atoms, unelect_drops=('H', 'P', 'G', 'S')):
    """on_node transfer: local assignments update N:/T: facts; unelect drops state facts"""
    def on_node(node, facts):
        st = node.ast
        if node.kind != 'stmt':
            return facts
        new = facts
        eff = node_effects(ctx, func, node)
        if 'unelect' in eff and unelect_drops:
            new = {k: v for k, v in new.items() if k not in unelect_drops}
        names = []
        if isinstance(st, ast.Assign):
            for t in st.targets:
                for sub in ast.walk(t):
                    if isinstance(sub, ast.Name):
                        names.append(sub.id)
            if len(st.targets) == 1 and isinstance(st.targets[0], ast.Name):
                nm = st.targets[0].id
                new = {k: v for k, v in new.items() if k not in ('N:' + nm, 'T:' + nm)}
                k = atoms.token_of(st.value)
                if k is not None:
                    new['T:' + nm] = k
                elif isinstance(st.value, ast.Constant) and isinstance(st.value.value, bool):
                    new['N:' + nm] = st.value.value
                elif isinstance(st.value, (ast.List, ast.Tuple)):
                    new['N:' + nm] = bool(st.value.elts)
                return new
        elif isinstance(st, ast.AugAssign) and isinstance(st.target, ast.Name):
            names.append(st.target.id)
        if names:
            new = {k: v for k, v in new.items() if not any(k in ('N:' + n, 'T:' + n) for n in names)}
        return new
    return on_node


def _ret_value(ret, index):
    v = ret.value
    if v is None:
        return None
    if isinstance(v, ast.Tuple):
        return v.elts[index] if index < len(v.elts) else None
    return v if index == 0 else None


def _may_be_token(atoms, e, K, facts):
    if e is None:
        return False
    k = atoms.token_of(e)
    if k is not None:
        return k == K
    if isinstance(e, ast.Name):
        cur = facts.get('T:' + e.id)
        if isinstance(cur, str):
            return cur == K
        if isinstance(cur, tuple):
            return K not in cur[1]
        return True
    return True


def _param_init_facts(ctx, callee, atoms_caller_of):
    """initial T: facts for callee parameters: a Name argument a at a call site that is the first
    statement of `while a == K0:` gives T:param = K0 (all call sites must agree)"""
    facts = {}
    if callee.parent is None:
        return facts
    sites = [n for n in callee.parent.all_nodes() if isinstance(n, ast.Call) and isinstance(n.func, ast.Name)
             and n.func.id == callee.name]
    for i, p in enumerate(callee.params):
        vals = set()
        for s in sites:
            arg = s.args[i] if i < len(s.args) else None
            v = None
            if isinstance(arg, ast.Name):
                st = ctx.repo.enclosing_stmt(s)
                par = getattr(st, 'parent', None)
                if isinstance(par, ast.While) and par.body and par.body[0] is st:
                    caller = ctx.repo.enclosing_func(s)
                    a = atoms_caller_of(caller)
                    lits = literals(a.formula(par.test), True)
                    for l in lits or []:
                        if l[0] == 'tok' and l[1] == arg.id and l[3]:
                            v = l[2]
            vals.add(v)
        if len(vals) == 1 and None not in vals:
            facts['T:' + p] = vals.pop()
    return facts


def token_summary(ctx, callee, K, index=0):
    """(elect_implied, nonempty_index1): does `callee returns K (at tuple index)` imply that an elect
    call was executed / that the value returned at index 1 is a non-empty list?"""
    cfg = cfg_of(callee)
    atoms = _atoms(ctx, callee)
    on_node = _assign_transfer(ctx, callee, atoms)
    facts0 = _param_init_facts(ctx, callee, lambda f: _atoms(ctx, f))
    elect_nodes = {n for n in cfg.stmt_nodes() if 'elect' in node_effects(ctx, callee, n)}

    def accept_any(node, facts):
        return node.kind == 'stmt' and isinstance(node.ast, ast.Return) and \
            _may_be_token(atoms, _ret_value(node.ast, index), K, facts)

    p1 = search(cfg, cfg.entry, dict(facts0), None, elect_nodes, atoms, on_node=on_node, accept=accept_any)
    elect_implied = p1 is None

    def accept_empty(node, facts):
        if not accept_any(node, facts):
            return False
        x = _ret_value(node.ast, 1)
        if isinstance(x, ast.Name) and facts.get('N:' + x.id) is True:
            return False
        return True
    p2 = search(cfg, cfg.entry, dict(facts0), None, set(), atoms, on_node=on_node, accept=accept_empty)
    return elect_implied, p2 is None


def _status_var_origin(ctx, func, var):
    """if local `var` is bound (only) from index i of calls to one local helper: (callee, i, stmts)"""
    df, vals = ctx.scope(func).lookup_def(var, func)
    if df is not func or vals == 'param' or not vals:
        return None
    callee = None
    idx = None
    for val, st in vals:
        if isinstance(val, TupleElem) and isinstance(val.value, ast.Call) and isinstance(val.value.func, ast.Name):
            c = deriv(ctx).local_func(val.value.func.id, func)
            if c is None:
                return None
            if callee not in (None, c) or idx not in (None, val.index):
                return None
            callee, idx = c, val.index
        elif isinstance(val, ast.Constant):
            continue
        else:
            return None
    if callee is None:
        return None
    return callee, idx


def _single_reaching_value(ctx, f, name, at):
    """the value expression of the only definition of local `name` reaching CFG node `at`"""
    cfg = cfg_of(f)
    rd = reaching_defs(cfg, name, at)
    if len(rd) != 1 or rd[0] is cfg.entry:
        return None
    st = rd[0].ast
    if rd[0].kind == 'stmt' and isinstance(st, ast.Assign) and len(st.targets) == 1 \
            and isinstance(st.targets[0], ast.Name):
        return st.value
    return None


def extremum_set(ctx, f, name, at=None):
    """`name = [c for c in C.<sel>() if c.K == m]` with `m = min|max(c.K for c in C.<sel>())` (both
    single assignments): the arg-extremum set, non-empty whenever the selection is.  Returns sel."""
    df, vals = ctx.scope(f).lookup_def(name, f)
    if df is not f or vals == 'param' or not vals:
        return None
    if at is not None:
        comp = _single_reaching_value(ctx, f, name, at)
    else:
        comp = vals[0][0] if len(vals) == 1 else None
    if not (isinstance(comp, ast.ListComp) and len(comp.generators) == 1 and len(comp.generators[0].ifs) == 1
            and isinstance(comp.elt, ast.Name) and isinstance(comp.generators[0].target, ast.Name)
            and comp.elt.id == comp.generators[0].target.id):
        return None
    g = comp.generators[0]
    sel = is_selector_call(ctx, f, g.iter)
    cond = g.ifs[0]
    if not sel or not (isinstance(cond, ast.Compare) and len(cond.ops) == 1 and isinstance(cond.ops[0], ast.Eq)):
        return None
    l, r = cond.left, cond.comparators[0]
    if isinstance(r, ast.Attribute):
        l, r = r, l
    if not (isinstance(l, ast.Attribute) and isinstance(l.value, ast.Name) and l.value.id == g.target.id
            and isinstance(r, ast.Name)):
        return None
    key, m = l.attr, r.id
    mf, mvals = ctx.scope(f).lookup_def(m, f)
    if mf is not f or mvals == 'param' or not mvals or len(mvals) != 1 or not isinstance(mvals[0][0], ast.Call):
        return None
    mc = mvals[0][0]
    if not (isinstance(mc.func, ast.Name) and mc.func.id in ('min', 'max') and len(mc.args) == 1
            and isinstance(mc.args[0], (ast.GeneratorExp, ast.ListComp))):
        return None
    ge = mc.args[0]
    if not (isinstance(ge.elt, ast.Attribute) and ge.elt.attr == key and len(ge.generators) == 1
            and not ge.generators[0].ifs and is_selector_call(ctx, f, ge.generators[0].iter) == sel):
        return None
    return sel


def check_main_loop(ctx, ri):
    """every feasible path from the loop head round to the loop head passes a progress call"""
    R = 'R04'
    f, cfg = ri.count, ri.cfg
    loop = ri.main_loop()
    head = cfg.of_stmt[loop]
    atoms = _atoms(ctx, f)
    on_node = _assign_transfer(ctx, f, atoms)
    cut = set()
    for n in cfg.nodes_in(loop):
        if any(nm in PROGRESS for nm, c in direct_status_calls(n)):
            cut.add(n)
    token_cache = {}

    def tok_summary(var, K):
        key = (var, K)
        if key not in token_cache:
            o = _status_var_origin(ctx, f, var)
            if o is None:
                token_cache[key] = (False, False, None)
            else:
                e, ne = token_summary(ctx, o[0], K, o[1])
                token_cache[key] = (e, ne, o[0])
        return token_cache[key]

    used_tokens = []

    def cut_edge(node, lab, facts):
        if node.kind == 'test' and lab in (True, False):
            for l in literals(atoms.formula(node.ast.test), lab) or []:
                if l[0] == 'tok' and l[3]:
                    e, ne, callee = tok_summary(l[1], l[2])
                    if e:
                        used_tokens.append('%s == %r implies %s() elected a candidate' % (l[1], l[2], callee.name))
                        return True
        return False

    def nonempty_iter(node, facts):
        it = strip_sorters(ctx, f, node.ast.iter)
        if is_selector_call(ctx, f, it, 'hopeful') and facts.get('H') is True:
            return True
        if is_selector_call(ctx, f, it, 'pending') and facts.get('P') is True:
            return True
        if isinstance(it, ast.Name):
            if facts.get('N:' + it.id) is True:
                return True
            sel = extremum_set(ctx, f, it.id, node)
            if sel == 'hopeful' and facts.get('H') is True:
                used_tokens.append('%s is the arg-min/arg-max set of a non-empty C.hopeful()' % it.id)
                return True
            if sel == 'pending' and facts.get('P') is True:
                return True
            # x bound from index 1 of the same helper call whose status (index 0) holds a non-empty token
            df, vals = ctx.scope(f).lookup_def(it.id, f)
            if vals and vals != 'param':
                for val, st in vals:
                    if isinstance(val, TupleElem) and val.index == 1 and isinstance(st, ast.Assign) \
                            and isinstance(st.targets[0], ast.Tuple) and isinstance(st.targets[0].elts[0], ast.Name):
                        sv = st.targets[0].elts[0].id
                        cur = facts.get('T:' + sv)
                        if isinstance(cur, str):
                            e, ne, callee = tok_summary(sv, cur)
                            if ne:
                                used_tokens.append('%s == %r implies %s is non-empty' % (sv, cur, it.id))
                                return True
        return False

    # facts established by the loop guard hold at the first body node: start from the head, taking its
    # True edge (search applies the guard's literals on that edge)
    path = search(cfg, head, {}, head, cut, atoms, cut_edge=cut_edge, on_node=on_node, nonempty_iter=nonempty_iter)
    what = 'every iteration of the main loop elects, defeats or un-pends a candidate (measure: hopeful, pending)'
    if path is None:
        ctx.ok(R, loop, f, what,
               'path-sensitive search (facts H,P,G,S from guards; %d progress call nodes cut): the loop head is not '
               'reachable from itself without progress%s' % (len(cut), ('; used: ' + '; '.join(sorted(set(used_tokens))))
                                                              if used_tokens else ''))
    else:
        ctx.bad(R, loop, f, what, 'an iteration can complete without electing, defeating or un-pending anybody: %s'
                % describe(path))
    return loop


def check_advance_loop(ctx, f, loop):
    """`while not ballot.exhausted and ...: ballot.advance()`"""
    R = 'R04'
    cfg = cfg_of(f)
    head = cfg.of_stmt[loop]
    test = loop.test
    parts = test.values if isinstance(test, ast.BoolOp) and isinstance(test.op, ast.And) else [test]
    var = None
    for p in parts:
        if isinstance(p, ast.UnaryOp) and isinstance(p.op, ast.Not) and isinstance(p.operand, ast.Attribute) \
                and p.operand.attr == 'exhausted' and isinstance(p.operand.value, ast.Name):
            var = p.operand.value.id
    if var is None:
        return False
    adv = set()
    for n in cfg.nodes_in(loop):
        for c in calls_at(n):
            if isinstance(c.func, ast.Attribute) and c.func.attr == 'advance' and isinstance(c.func.value, ast.Name) \
                    and c.func.value.id == var:
                adv.add(n)
    ok = bool(adv) and head not in cfg.reach([head], avoid=adv, edge_ok=lambda a, b, lab: not (a is head and lab is False))
    ctx.check(ok, R, loop, f, 'ballot-walk loop advances the ballot on every iteration (variant: len(ranking) - index)',
              'guard contains `not %s.exhausted`; every path through the body calls %s.advance()' % (var, var),
              'a path through the loop body does not call %s.advance(): the loop may not terminate' % var)
    return True


def check_ballot_methods(ctx):
    R = 'R04'
    bal = ctx.repo.cls('droop.election.Election.Ballot')
    adv = bal.methods.get('advance')
    exh = bal.methods.get('exhausted')
    need(adv is not None and exh is not None, 'Ballot.advance / Ballot.exhausted missing')
    body = [s for s in adv.node.body if not (isinstance(s, ast.Expr) and isinstance(s.value, ast.Constant))]
    ok = len(body) == 1 and isinstance(body[0], ast.AugAssign) and isinstance(body[0].op, ast.Add) \
        and unparse(body[0].target) == 'self.index' and isinstance(body[0].value, ast.Constant) \
        and isinstance(body[0].value.value, int) and body[0].value.value >= 1
    ctx.check(ok, R, adv.node, adv, 'Ballot.advance strictly increases the ballot index', 'self.index += 1',
              'Ballot.advance is not `self.index += <positive constant>`')
    rets = [n for n in exh.own_nodes() if isinstance(n, ast.Return)]
    ok = len(rets) == 1 and isinstance(rets[0].value, ast.Compare) and len(rets[0].value.ops) == 1 \
        and isinstance(rets[0].value.ops[0], ast.GtE) and unparse(rets[0].value.left) == 'self.index' \
        and unparse(rets[0].value.comparators[0]) == 'len(self.ranking)'
    ctx.check(ok, R, exh.node, exh, 'Ballot.exhausted is index >= len(ranking)', 'return self.index >= len(self.ranking)',
              'Ballot.exhausted is not `self.index >= len(self.ranking)`')
    # index is stored only by __init__/advance/restart
    for m in ctx.repo.modules.values():
        for n in ast.walk(m.tree):
            if isinstance(n, ast.Attribute) and n.attr == 'index' and isinstance(n.ctx, ast.Store):
                fn = ctx.repo.enclosing_func(n)
                okw = fn is not None and fn.owner_class is bal and fn.name in ('__init__', 'advance', 'restart')
                ctx.check(okw, R, n, fn or m.name, 'Ballot.index is written only by Ballot.__init__/advance/restart',
                          'store inside Ballot.%s' % (fn.name if fn else '?'),
                          'store to .index outside the Ballot class', nontrivial=False)


def _surplus_store(ctx, f, node):
    st = node.ast
    if node.kind == 'stmt' and isinstance(st, (ast.Assign, ast.AugAssign)):
        tg = st.targets if isinstance(st, ast.Assign) else [st.target]
        for t in tg:
            if isinstance(t, ast.Attribute) and ctx.canon(t, f) == 'E.surplus':
                return True
    return False


def _find_stable_test(ctx, f, nodes):
    """test `E.surplus >= X` (X a local name)"""
    out = []
    for n in nodes:
        if n.kind == 'test' and isinstance(n.ast, ast.If):
            t = n.ast.test
            if isinstance(t, ast.Compare) and len(t.ops) == 1 and ctx.canon(t.left, f) == 'E.surplus' \
                    and isinstance(t.comparators[0], ast.Name):
                out.append((n, t.ops[0], t.comparators[0].id))
    return out


def check_meek_iteration_inline(ctx, f, loop):
    """meek: `while True:` in iterate() - continues only after `E.surplus >= last` failed and
    `last = E.surplus` was executed: the surpluses of continued iterations strictly decrease"""
    R = 'R04'
    cfg = cfg_of(f)
    head = cfg.of_stmt[loop]
    inside = cfg.nodes_in(loop)
    cands = _find_stable_test(ctx, f, inside)
    if not cands:
        return False
    what = 'Meek iteration continues only with a strictly smaller total surplus (variant on scaled integers)'
    for t2, op, X in cands:
        if not isinstance(op, ast.GtE):
            ctx.bad(R, t2.ast, f, what, 'stable-state test uses `%s`, not `>=`: an iteration with an unchanged surplus '
                                        'continues' % type(op).__name__)
            return True
        # True branch leaves the loop
        t_succ = [s for s, lab in t2.succ if lab is True]
        leaves = all(head not in cfg.reach([s], include_start=True) for s in t_succ)
        # every way round passes (t2, False)
        round_ok = head not in cfg.reach([head], edge_ok=lambda a, b, lab: not (a is t2 and lab is False)
                                         and not (a is head and lab is False))
        assigns = {n for n in inside if n.kind == 'stmt' and isinstance(n.ast, ast.Assign)
                   and len(n.ast.targets) == 1 and isinstance(n.ast.targets[0], ast.Name) and n.ast.targets[0].id == X}
        good_assigns = {n for n in assigns if ctx.canon(n.ast.value, f) == 'E.surplus'}
        f_succ = [s for s, lab in t2.succ if lab is False]
        between = cfg.reach(f_succ, avoid=good_assigns, include_start=True) if f_succ else set()
        # search starts *at* f_succ nodes: include them
        assign_ok = bool(good_assigns) and head not in between and assigns == good_assigns
        restore = [n for n in between if _surplus_store(ctx, f, n)]
        ok = leaves and round_ok and assign_ok and not restore
        why = []
        if not leaves:
            why.append('the stable-state branch does not leave the loop')
        if not round_ok:
            why.append('an iteration can continue without evaluating `E.surplus >= %s`' % X)
        if not assign_ok:
            why.append('`%s = E.surplus` is not executed on every continuing path (or %s is assigned something else)' % (X, X))
        if restore:
            why.append('E.surplus is re-assigned between the test and `%s = E.surplus`' % X)
        ctx.check(ok, R, loop, f, what,
                  'every path round the loop takes the False edge of `E.surplus >= %s` (line %d) and then executes '
                  '`%s = E.surplus`; the True edge leaves the loop' % (X, t2.line, X), '; '.join(why))
        ctx.assume('Meek/Warren iteration: the strictly decreasing surplus is a well-founded variant for scaled-integer '
                   'arithmetic (fixed, guarded) only; for rational arithmetic termination of the iteration is not '
                   'decided (the property itself bounds that case by a CPU budget)')
        return True
    return False


def check_meek_iteration_helper(ctx, f, loop):
    """meek_prf: `while status == 'iterate': status, last = step(status, last)`"""
    R = 'R04'
    atoms = _atoms(ctx, f)
    body = [s for s in loop.body if not (isinstance(s, ast.Expr) and isinstance(s.value, ast.Constant))]
    lits = literals(atoms.formula(loop.test), True) or []
    toks = [l for l in lits if l[0] == 'tok' and l[3]]
    if not (len(toks) == 1 and len(body) == 1 and isinstance(body[0], ast.Assign)
            and isinstance(body[0].targets[0], ast.Tuple) and isinstance(body[0].value, ast.Call)
            and isinstance(body[0].value.func, ast.Name)):
        return False
    sv, K = toks[0][1], toks[0][2]
    tg = body[0].targets[0].elts
    call = body[0].value
    callee = deriv(ctx).local_func(call.func.id, f)
    if callee is None or len(tg) != 2 or not all(isinstance(t, ast.Name) for t in tg) or tg[0].id != sv:
        return False
    L = tg[1].id
    args = [a.id if isinstance(a, ast.Name) else None for a in call.args]
    if args == [L] and len(callee.params) == 1:
        ps, pl = None, callee.params[0]         # the step does not take the status (it is always K on entry): only `last` is threaded
    elif args != [sv, L] or len(callee.params) != 2:
        return False
    else:
        ps, pl = callee.params
    what = 'Meek iteration continues only with a strictly smaller total surplus (variant on scaled integers)'
    ccfg = cfg_of(callee)
    catoms = _atoms(ctx, callee)
    on_node = _assign_transfer(ctx, callee, catoms)
    t2s = [(n, op, X) for n, op, X in _find_stable_test(ctx, callee, ccfg.nodes) if X == pl]
    if not t2s:
        ctx.bad(R, loop, f, what, '%s() has no stable-state test `E.surplus >= %s`' % (callee.name, pl))
        return True
    t2, op, X = t2s[0]
    if not isinstance(op, ast.GtE):
        ctx.bad(R, t2.ast, callee, what, 'stable-state test is not `>=`')
        return True

    def returns_iterate(node, facts):
        if node.kind == 'stmt' and isinstance(node.ast, ast.Return):
            v = _ret_value(node.ast, 0)
            l = _ret_value(node.ast, 1)
            if not (isinstance(l, ast.Name) and l.id == pl):
                return _may_be_token(catoms, v, K, facts)   # returns something else as `last`: treat as continuing
            return _may_be_token(catoms, v, K, facts)
        return False

    facts0 = {'T:' + ps: K} if ps else {}
    # (1) every continuing return passed (t2, False)
    p1 = search(ccfg, ccfg.entry, dict(facts0), None, set(), catoms, on_node=on_node, accept=returns_iterate,
                cut_edge=lambda n, lab, fa: n is t2 and lab is False)
    # (2) after (t2, False) every continuing return passed `pl = E.surplus`, with no store to E.surplus between
    assigns = {n for n in ccfg.nodes if n.kind == 'stmt' and isinstance(n.ast, ast.Assign)
               and len(n.ast.targets) == 1 and isinstance(n.ast.targets[0], ast.Name) and n.ast.targets[0].id == pl}
    good = {n for n in assigns if ctx.canon(n.ast.value, callee) == 'E.surplus'}
    # a continuing return that hands back E.surplus itself as the new `last` needs no assignment before it
    direct = {n for n in ccfg.nodes if n.kind == 'stmt' and isinstance(n.ast, ast.Return) and _ret_value(n.ast, 1) is not None
              and ctx.canon(_ret_value(n.ast, 1), callee) == 'E.surplus'}

    def returns_iterate_stale(node, facts):
        return node not in direct and returns_iterate(node, facts)
    p2 = None
    restore = []
    for s, lab in t2.succ:
        if lab is not False:
            continue
        # facts at t2-False: status still K (conservative: re-run from entry to collect facts is overkill; K assumed)
        lits2 = literals(catoms.formula(t2.ast.test), False)
        p2 = p2 or _search_from(ccfg, s, dict(facts0), catoms, on_node, returns_iterate_stale, good)
        between = ccfg.reach([s], avoid=good | direct, include_start=True)
        restore += [n for n in between if _surplus_store(ctx, callee, n)]
    ok = p1 is None and p2 is None and assigns == good and bool(good or direct) and not restore
    why = []
    if p1 is not None:
        why.append('%s() can return %r without the stable-state test failing: %s' % (callee.name, K, describe(p1)))
    if p2 is not None:
        why.append('%s() can return %r without `%s = E.surplus`: %s' % (callee.name, K, pl, describe(p2)))
    if assigns != good or not (good or direct):
        why.append('%s is assigned something other than E.surplus' % pl)
    if restore:
        why.append('E.surplus is re-assigned between the test and `%s = E.surplus`' % pl)
    ctx.check(ok, R, loop, f, what,
              '%s() returns %r only on paths that take the False edge of `E.surplus >= %s` (line %d) and then execute '
              '`%s = E.surplus`; both values are threaded through the loop' % (callee.name, K, pl, t2.line, pl),
              '; '.join(why))
    ctx.assume('Meek/Warren iteration: the strictly decreasing surplus is a well-founded variant for scaled-integer '
               'arithmetic (fixed, guarded) only; for rational arithmetic termination of the iteration is not '
               'decided (the property itself bounds that case by a CPU budget)')
    return True


def _search_from(cfg, start, facts, atoms, on_node, accept, cut):
    if start in cut:
        return None
    if accept(start, facts):
        return [(start, None)]
    f2 = on_node(start, facts)
    if f2 is None:
        return None
    return search(cfg, start, f2, None, cut, atoms, on_node=on_node, accept=accept)


def check_qpq_restart(ctx, ri):
    """unelect only under `if restart:` (which clears the flag); `restart = True` only after a defeat in
    the same iteration: measure (#not defeated, restart flag, #hopeful) decreases lexicographically"""
    R = 'R04'
    f, cfg = ri.count, ri.cfg
    uns = attr_calls(f, ('unelect',), own=False)
    if not uns:
        return
    loop = ri.main_loop()
    head = cfg.of_stmt[loop]
    for u in uns:
        fn = ctx.repo.enclosing_func(u)
        need(fn is f, 'unelect() inside a helper of %s not modelled' % f.qualname)
        # lexically inside `if <flag>:` True branch
        n = u
        flag_if = None
        child = u
        while n is not None and n is not loop:
            if isinstance(n, ast.If) and isinstance(n.test, ast.Name) and any(child is b or _contains(b, u) for b in n.body):
                flag_if = n
                break
            child = n
            n = getattr(n, 'parent', None)
        if flag_if is None:
            ctx.bad(R, u, f, 'un-election happens only in a restart that follows an exclusion',
                    'unelect() is not guarded by a restart flag')
            continue
        flag = flag_if.test.id
        clears = [s for s in flag_if.body if isinstance(s, ast.Assign) and isinstance(s.targets[0], ast.Name)
                  and s.targets[0].id == flag and isinstance(s.value, ast.Constant) and s.value.value is False]
        sets_true = [n for n in cfg.nodes_in(loop) if n.kind == 'stmt' and isinstance(n.ast, ast.Assign)
                     and isinstance(n.ast.targets[0], ast.Name) and n.ast.targets[0].id == flag
                     and not (isinstance(n.ast.value, ast.Constant) and n.ast.value.value is False)]
        defeats = {n for n in cfg.nodes_in(loop) if any(nm == 'defeat' for nm, c in direct_status_calls(n))}
        bad = [s for s in sets_true if s in cfg.reach([head], avoid=defeats,
                                                      edge_ok=lambda a, b, lab: not (a is head and lab is False))]
        ok = bool(clears) and not bad
        ctx.check(ok, R, u, f, 'un-election happens only in a restart that follows an exclusion '
                               '(measure: not-defeated, restart flag, hopeful)',
                  'unelect() is under `if %s:` which clears the flag; `%s = True` (%d site(s)) is reachable in an '
                  'iteration only after a defeat() call' % (flag, flag, len(sets_true)),
                  ('the restart flag is not cleared in the restart branch' if not clears else
                   '`%s = True` at line %s can be reached without a defeat in the same iteration'
                   % (flag, bad[0].line if bad else '?')))


def _contains(a, b):
    for n in ast.walk(a):
        if n is b:
            return True
    return False


def check_for_loops(ctx, f):
    """a `for x in NAME:` body must not grow NAME"""
    R = 'R04'
    for n in f.own_nodes():
        if isinstance(n, ast.For) and isinstance(n.iter, ast.Name):
            nm = n.iter.id
            grows = False
            for sub in ast.walk(n):
                if sub is n.iter:
                    continue
                if isinstance(sub, ast.Call) and isinstance(sub.func, ast.Attribute) and isinstance(sub.func.value, ast.Name) \
                        and sub.func.value.id == nm and sub.func.attr in ('append', 'extend', 'insert'):
                    grows = True
                if isinstance(sub, ast.AugAssign) and isinstance(sub.target, ast.Name) and sub.target.id == nm:
                    grows = True
            ctx.check(not grows, R, n, f, 'for-loops iterate over collections they do not grow',
                      'body of `for ... in %s` does not append to %s' % (nm, nm),
                      'loop body grows its own iterable %s' % nm, nontrivial=False)


def check_recursion(ctx, f):
    """a local function that calls itself must pass param+1 for a param tested `< bound` in a guard
    enclosing the recursive call"""
    R = 'R04'
    for c in [n for n in f.own_nodes() if isinstance(n, ast.Call) and isinstance(n.func, ast.Name)
              and n.func.id == f.name]:
        ok = False
        for i, a in enumerate(c.args):
            if i < len(f.params) and isinstance(a, ast.BinOp) and isinstance(a.op, ast.Add) \
                    and isinstance(a.left, ast.Name) and a.left.id == f.params[i] \
                    and isinstance(a.right, ast.Constant) and a.right.value == 1:
                p = f.params[i]
                n = c
                while n is not None and n is not f.node:
                    if isinstance(n, ast.If):
                        # the bound must be entailed by the test being true: the test itself or a conjunct of it
                        conj = n.test.values if isinstance(n.test, ast.BoolOp) and isinstance(n.test.op, ast.And) else [n.test]
                        for sub in conj:
                            if isinstance(sub, ast.Compare) and isinstance(sub.left, ast.Name) and sub.left.id == p \
                                    and len(sub.ops) == 1 and isinstance(sub.ops[0], ast.Lt):
                                ok = True
                    n = getattr(n, 'parent', None)
        ctx.check(ok, R, c, f, 'recursion is bounded (a parameter increases towards a tested bound)',
                  'recursive call passes <param>+1 under a guard `<param> < bound`',
                  'recursive call of %s without a recognised bounded variant' % f.name)


def r04_loops(ctx):
    R = 'R04'
    check_ballot_methods(ctx)
    nwhile = 0
    nmain = 0
    for ri in rules(ctx):
        main = check_main_loop(ctx, ri)
        nmain += 1
        check_qpq_restart(ctx, ri)
        for f in all_funcs_of(ri.count):
            check_for_loops(ctx, f)
            check_recursion(ctx, f)
            for n in f.own_nodes():
                if not isinstance(n, ast.While):
                    continue
                nwhile += 1
                if n is main:
                    continue
                if check_advance_loop(ctx, f, n):
                    continue
                if check_meek_iteration_inline(ctx, f, n):
                    continue
                if check_meek_iteration_helper(ctx, f, n):
                    continue
                ctx.bad(R, n, f, 'every while-loop on the count path has a recognised variant',
                        'no variant recognised for `while %s` (not a ballot walk, not the main loop, not a Meek iteration)'
                        % unparse(n.test))
        # whiles in other methods of the rule class
        for name, m in ri.cls.methods.items():
            if m is ri.count:
                continue
            for n in m.own_nodes():
                if isinstance(n, ast.While):
                    nwhile += 1
                    ctx.bad(R, n, m, 'every while-loop on the count path has a recognised variant',
                            'unexpected while-loop outside count()')
    ctx.floor(R, 'while loops', nwhile, 16)
    ctx.floor(R, 'main loops', nmain, 8)
