"""R03 batch cap and duplicate-freedom of multi-candidate exclusions;
R03b defeat-remaining sweeps only run when the seats are filled."""
import ast

from ..model import AnalysisError, need, call_name, const_str, unparse, TupleElem
from ..cfg import cfg_of, calls_at, reaching_defs
from ..pathfacts import Atoms
from .common import (rules, deriv, attr_calls, cfg_node_of, direct_status_calls, is_selector_call,
                     strip_sorters, body_always_calls, loop_var, all_funcs_of, stmt_text)


def _defeat_loops(ctx, f):
    """For loops (own nodes of f) whose body calls <loopvar>.defeat(...)"""
    out = []
    for n in f.own_nodes():
        if isinstance(n, ast.For):
            v = loop_var(n)
            if v is None:
                continue
            for c in attr_calls_in(n, ('defeat',)):
                if isinstance(c.func.value, ast.Name) and c.func.value.id == v:
                    b, _ = deriv(ctx).for_binding(c.func.value)
                    if b is n:
                        out.append(n)
                        break
    return out


def attr_calls_in(node, names):
    out = []
    stack = list(ast.iter_child_nodes(node))
    while stack:
        n = stack.pop()
        if isinstance(n, (ast.FunctionDef, ast.Lambda)):
            continue
        if isinstance(n, ast.Call) and isinstance(n.func, ast.Attribute) and n.func.attr in names:
            out.append(n)
        stack.extend(ast.iter_child_nodes(n))
    return out


def _is_len_of(e, pred):
    return isinstance(e, ast.Call) and isinstance(e.func, ast.Name) and e.func.id == 'len' and len(e.args) == 1 \
        and pred(e.args[0])


def _single_def_value(ctx, f, name):
    df, vals = ctx.scope(f).lookup_def(name, f)
    if df is None or vals == 'param' or not vals or len(vals) != 1:
        return None, None
    v = vals[0][0]
    return (v if isinstance(v, ast.AST) else None), df


def _is_max_defeat_expr(ctx, f, e):
    """len(C.hopeful()) - E.seatsLeftToFill()"""
    a = Atoms(ctx, f)
    return isinstance(e, ast.BinOp) and isinstance(e.op, ast.Sub) and a._len_sel(e.left, 'hopeful') \
        and a._is_seats_left(e.right)


def producer_cap(ctx, F):
    """Analyse a batch producer (batchDefeat / findCertainLosers).  Returns (ok, text).  ok is True
    (cap recognised and effective), False (no effective cap: violation) or None (cap idiom present
    but not understood: analysis error)."""
    cfg = cfg_of(F)
    a = Atoms(ctx, F)
    caps = []
    for n in F.own_nodes():
        if not isinstance(n, ast.If) or not n.body or not isinstance(n.body[0], ast.Break):
            continue
        t = n.test
        if not (isinstance(t, ast.Compare) and len(t.ops) == 1):
            continue
        op, l, r = t.ops[0], t.left, t.comparators[0]
        # form A:  K > M  /  K >= M   with M = len(C.hopeful()) - E.seatsLeftToFill()
        if isinstance(op, (ast.Gt, ast.GtE)):
            m_ok = False
            if isinstance(r, ast.Name):
                mv, mf = _single_def_value(ctx, F, r.id)
                m_ok = mv is not None and _is_max_defeat_expr(ctx, mf, mv)
            elif _is_max_defeat_expr(ctx, F, r):
                m_ok = True
            if m_ok:
                caps.append(('A', n, l))
        # form B:  len(X[e:]) + NE < E.nSeats   (X sorted hopefuls, NE = len(C.elected()))
        if isinstance(op, (ast.Lt, ast.LtE)) and ctx.canon(r, F) == 'E.nSeats' and isinstance(l, ast.BinOp) \
                and isinstance(l.op, ast.Add):
            parts = [l.left, l.right]
            sl = [p for p in parts if _is_len_of(p, lambda x: isinstance(x, ast.Subscript) and isinstance(x.slice, ast.Slice)
                                               and x.slice.upper is None and x.slice.lower is not None)]
            ne = [p for p in parts if p not in sl]
            if len(sl) == 1 and len(ne) == 1:
                ne_ok = a._len_sel(ne[0], 'elected')
                if isinstance(ne[0], ast.Name):
                    nv, nf = _single_def_value(ctx, F, ne[0].id)
                    ne_ok = nv is not None and Atoms(ctx, nf)._len_sel(nv, 'elected')
                X = sl[0].args[0].value
                x_ok = isinstance(X, ast.Name) and deriv(ctx).states(X, F) == frozenset(['hopeful'])
                if ne_ok and x_ok:
                    caps.append(('B', n, sl[0].args[0]))
    if not caps:
        return False, 'no cap test (`count > len(C.hopeful()) - E.seatsLeftToFill()` -> break, or the cfer ' \
                      'complement form) found in %s()' % F.name
    kind, capif, lhs = caps[0]
    # enclosing loop of the cap
    loop = capif
    while loop is not None and not isinstance(loop, (ast.For, ast.While)):
        loop = getattr(loop, 'parent', None)
    if loop is None or ctx.repo.enclosing_func(loop) is not F:
        return None, 'cap test is not inside a loop'
    head = cfg.of_stmt[loop]
    capnode = cfg.of_stmt[capif]
    # accept statements: assignments inside the loop to names that are loaded after the loop
    after_loads = set()
    for n in F.own_nodes():
        if isinstance(n, ast.Name) and isinstance(n.ctx, ast.Load) and getattr(n, 'lineno', 0) > loop.end_lineno:
            after_loads.add(n.id)
    accept = []
    for n in cfg.nodes_in(loop):
        if n.kind == 'stmt' and isinstance(n.ast, ast.Assign) and len(n.ast.targets) == 1 \
                and isinstance(n.ast.targets[0], ast.Name) and n.ast.targets[0].id in after_loads:
            accept.append(n)
    if not accept:
        return None, 'no accept statement found in the capped loop of %s()' % F.name
    for acc in accept:
        # every path head -> acc within one iteration passes the False edge of the cap
        def edge_ok(x, y, lab):
            if x is capnode and lab is False:
                return False
            if x is head and lab is False:
                return False
            return True
        body_entry = [t for t, lab in head.succ if lab is True]
        if acc in cfg.reach([head], edge_ok=edge_ok):
            return False, 'the accepted batch (`%s`, line %d) can be extended without passing the cap test at line %d' \
                          % (stmt_text(acc.ast), acc.line, capif.lineno)
    # counted quantity really counts the accepted candidates
    if kind == 'A':
        if isinstance(lhs, ast.Name):
            K = lhs.id
            incs = [n for n in cfg.nodes_in(loop) if n.kind == 'stmt' and isinstance(n.ast, ast.AugAssign)
                    and isinstance(n.ast.target, ast.Name) and n.ast.target.id == K]
            if not incs and isinstance(loop, ast.For) and isinstance(loop.iter, ast.Call) and isinstance(loop.iter.func, ast.Name) \
                    and loop.iter.func.id == 'enumerate' and isinstance(loop.target, ast.Tuple) and isinstance(loop.target.elts[0], ast.Name) \
                    and loop.target.elts[0].id == K:
                # the counter is the position in the scan: `for n, (c, nxt) in enumerate(zip(XS, XS[1:]), 1)` - n candidates of XS have
                # been looked at, the accept statement records n, and the batch is XS[:n]
                start_ok = (len(loop.iter.args) == 2 and isinstance(loop.iter.args[1], ast.Constant) and loop.iter.args[1].value == 1) or \
                    any(k.arg == 'start' and isinstance(k.value, ast.Constant) and k.value.value == 1 for k in loop.iter.keywords)
                src = loop.iter.args[0] if loop.iter.args else None
                if isinstance(src, ast.Call) and isinstance(src.func, ast.Name) and src.func.id == 'zip' and src.args:
                    src = src.args[0]
                acc_names = {a_.ast.targets[0].id for a_ in accept if isinstance(a_.ast.value, ast.Name) and a_.ast.value.id == K}
                slices = [x for x in F.own_nodes() if isinstance(x, ast.Subscript) and isinstance(x.slice, ast.Slice) and isinstance(x.ctx, ast.Load)
                          and isinstance(x.slice.upper, ast.Name) and x.slice.upper.id in acc_names and x.slice.lower is None]
                if start_ok and isinstance(src, ast.Name) and len(acc_names) == len(accept) and slices \
                        and all(isinstance(x.value, ast.Name) and x.value.id == src.id for x in slices):
                    return True, 'cap `%s > len(C.hopeful()) - E.seatsLeftToFill()` -> break (line %d) precedes every accept statement; %s counts the ' \
                                 'candidates of %s scanned so far and the batch is %s[:%s]' % (K, capif.lineno, K, src.id, src.id, '/'.join(sorted(acc_names)))
                return None, 'cannot relate the scan position `%s` to the accepted batch in %s()' % (K, F.name)
            ok_inc = bool(incs) and all(isinstance(i.ast.op, ast.Add) and _is_len_of(i.ast.value, lambda x: True)
                                        for i in incs)
            # the increment precedes the cap on every path of an iteration
            pre = all(capnode not in cfg.reach([head], avoid=[i], edge_ok=lambda x, y, lab: not (x is head and lab is False))
                      for i in incs)
            if not (ok_inc and pre):
                return False, 'the capped counter `%s` is not incremented by the size of each added group before the ' \
                              'cap test' % K
            # the counted groups are the groups that end up in the batch: same container indexed by the loop var
            grp = incs[0].ast.value.args[0]
            cont = _container_of(ctx, F, grp, cfg, incs[0])
            ext = [c for c in F.own_nodes() if isinstance(c, ast.Call) and isinstance(c.func, ast.Attribute)
                   and c.func.attr == 'extend' and c.args and isinstance(c.args[0], ast.Subscript)
                   and isinstance(c.args[0].value, ast.Name)]
            ext_ok = bool(ext) and all(e.args[0].value.id == cont for e in ext)
            if not ext and cont is not None:
                # the batch as one expression: `[c for group in CONT[:n] for c in group]` with n assigned by the accept statement(s)
                acc_names = {a_.ast.targets[0].id for a_ in accept}
                flats = [x for x in F.own_nodes() if isinstance(x, ast.ListComp) and len(x.generators) == 2
                         and isinstance(x.generators[0].iter, ast.Subscript) and isinstance(x.generators[0].iter.value, ast.Name)
                         and isinstance(x.generators[0].iter.slice, ast.Slice)]
                ext_ok = bool(flats) and all(
                    x.generators[0].iter.value.id == cont and x.generators[0].iter.slice.lower is None and isinstance(x.generators[0].iter.slice.upper, ast.Name)
                    and x.generators[0].iter.slice.upper.id in acc_names and not x.generators[0].ifs and not x.generators[1].ifs
                    and isinstance(x.generators[0].target, ast.Name) and isinstance(x.generators[1].iter, ast.Name)
                    and x.generators[1].iter.id == x.generators[0].target.id and isinstance(x.elt, ast.Name) and isinstance(x.generators[1].target, ast.Name)
                    and x.elt.id == x.generators[1].target.id for x in flats)
            if cont is None or not ext_ok:
                return None, 'cannot relate the counted groups to the groups added to the batch in %s()' % F.name
            return True, 'cap `%s > len(C.hopeful()) - E.seatsLeftToFill()` -> break (line %d) precedes every accept ' \
                         'statement; counter += len(%s[g]); batch extended from %s[0..maxg]' % (K, capif.lineno, cont, cont)
        if _is_len_of(lhs, lambda x: isinstance(x, ast.Name)):
            Y = lhs.args[0].id
            apps = [n for n in cfg.nodes_in(loop) for c in calls_at(n) if isinstance(c.func, ast.Attribute)
                    and c.func.attr == 'append' and isinstance(c.func.value, ast.Name) and c.func.value.id == Y]
            acc_ok = all(isinstance(x.ast.value, ast.Call) and isinstance(x.ast.value.func, ast.Name)
                         and x.ast.value.func.id == 'list' and isinstance(x.ast.value.args[0], ast.Name)
                         and x.ast.value.args[0].id == Y for x in accept)
            if apps and acc_ok:
                return True, 'cap `len(%s) > len(C.hopeful()) - E.seatsLeftToFill()` -> break (line %d) precedes ' \
                             '`losers = list(%s)`' % (Y, capif.lineno, Y)
            return None, 'cannot relate the capped list %s to the accepted batch in %s()' % (Y, F.name)
        return None, 'cap left-hand side not understood in %s()' % F.name
    else:
        # form B: accepted set is X[:e] with the same e as the counted complement X[e:]
        comp = lhs    # X[e:]
        e_txt = unparse(comp.slice.lower)
        Xn = comp.value.id
        for acc in accept:
            v = acc.ast.value
            # defeatSet = trialSet ; trialSet = X[:e]
            if isinstance(v, ast.Name):
                cands = [n for n in cfg.nodes_in(loop) if n.kind == 'stmt' and isinstance(n.ast, ast.Assign)
                         and isinstance(n.ast.targets[0], ast.Name) and n.ast.targets[0].id == v.id]
                if len(cands) != 1:
                    return None, 'trial set %s has %d definitions' % (v.id, len(cands))
                v = cands[0].ast.value
            if not (isinstance(v, ast.Subscript) and isinstance(v.slice, ast.Slice) and v.slice.lower is None
                    and v.slice.upper is not None and unparse(v.slice.upper) == e_txt
                    and isinstance(v.value, ast.Name) and v.value.id == Xn):
                return False, 'accepted set `%s` is not the complement %s[:%s] of the counted remainder %s[%s:]' \
                              % (unparse(v), Xn, e_txt, Xn, e_txt)
        return True, 'cap `len(%s[%s:]) + len(C.elected()) < E.nSeats` -> break (line %d) precedes `defeatSet = %s[:%s]`' \
                     % (Xn, e_txt, capif.lineno, Xn, e_txt)


def _container_of(ctx, F, grp, cfg, at):
    """grp is Name bound to CONT[loopvar] (reaching def) or directly CONT[..]"""
    if isinstance(grp, ast.Subscript) and isinstance(grp.value, ast.Name):
        return grp.value.id
    if isinstance(grp, ast.Name):
        rd = reaching_defs(cfg, grp.id, at)
        vals = set()
        for d in rd:
            if d.kind == 'stmt' and isinstance(d.ast, ast.Assign) and isinstance(d.ast.value, ast.Subscript) \
                    and isinstance(d.ast.value.value, ast.Name):
                vals.add(d.ast.value.value.id)
            elif d.kind == 'iter' and isinstance(d.ast, ast.For):
                # `for g, (group, nxt) in enumerate(zip(CONT, CONT[1:]))`: group ranges over CONT from its first element
                from ..prov import Deriv
                it = Deriv._through_pairing(d.ast.target, d.ast.iter, grp.id)
                if isinstance(it, ast.Name):
                    vals.add(it.id)
                else:
                    return None
            else:
                return None
        if len(vals) == 1:
            return vals.pop()
    return None


def _producers_of(ctx, f, expr, at, seen=None):
    """resolve a batch expression to its producers: list of ('helper', Func) | ('singleton', node) |
    ('inline', node) | ('empty', node) | ('unknown', node)"""
    seen = seen or set()
    d = deriv(ctx)
    cfg = cfg_of(f)
    e = strip_sorters(ctx, f, expr)
    if isinstance(e, ast.BoolOp) and isinstance(e.op, ast.And):
        return _producers_of(ctx, f, e.values[-1], at, seen)
    if isinstance(e, ast.Call) and isinstance(e.func, ast.Name):
        callee = d.local_func(e.func.id, f)
        if callee is not None:
            return [('helper', callee)]
    if isinstance(e, (ast.List, ast.Tuple)):
        if not e.elts:
            return [('empty', e)]
        if len(e.elts) == 1:
            return [('singleton', e)]
        return [('inline', e)]
    if isinstance(e, (ast.ListComp, ast.GeneratorExp)):
        # a filter over a produced batch is a subset of that batch
        if len(e.generators) == 1 and isinstance(e.elt, ast.Name) and isinstance(e.generators[0].target, ast.Name) \
                and e.elt.id == e.generators[0].target.id \
                and not is_selector_call(ctx, f, strip_sorters(ctx, f, e.generators[0].iter)):
            sub = _producers_of(ctx, f, e.generators[0].iter, at, seen)
            if sub and all(k != 'unknown' for k, _ in sub):
                return sub
        return [('inline', e)]
    if isinstance(e, ast.BinOp) and isinstance(e.op, ast.Add):
        return _producers_of(ctx, f, e.left, at, seen) + _producers_of(ctx, f, e.right, at, seen)
    if isinstance(e, ast.Name):
        key = (f.qualname, e.id, at.id if at is not None else -1)
        if key in seen:
            return []
        seen.add(key)
        out = []
        rd = reaching_defs(cfg, e.id, at) if at is not None else []
        if not rd:
            return [('unknown', e)]
        for dn in rd:
            if dn is cfg.entry:
                out.append(('unknown', e))
                continue
            st = dn.ast
            if dn.kind == 'stmt' and isinstance(st, ast.Assign):
                tgt = st.targets[0]
                if isinstance(tgt, ast.Name):
                    out += _producers_of(ctx, f, st.value, dn, seen)
                elif isinstance(tgt, ast.Tuple) and isinstance(st.value, ast.Call) and isinstance(st.value.func, ast.Name):
                    idx = [i for i, t in enumerate(tgt.elts) if isinstance(t, ast.Name) and t.id == e.id]
                    callee = d.local_func(st.value.func.id, f)
                    if callee is None or not idx:
                        out.append(('unknown', e))
                        continue
                    ccfg = cfg_of(callee)
                    for r in callee.own_nodes():
                        if isinstance(r, ast.Return) and isinstance(r.value, ast.Tuple) and idx[0] < len(r.value.elts):
                            rv = r.value.elts[idx[0]]
                            if isinstance(rv, ast.Constant) and rv.value is None:
                                continue
                            out += _producers_of(ctx, callee, rv, ccfg.of_stmt[r], seen)
                else:
                    out.append(('unknown', e))
            elif dn.kind == 'stmt' and isinstance(st, ast.AugAssign):
                # x += more : previous value(s) and the addition
                out += _producers_of(ctx, f, st.value, dn, seen)
                prev = ast.Name(id=e.id, ctx=ast.Load())
                ast.copy_location(prev, st)
                prev.parent = st
                seen.discard(key)
                key2 = (f.qualname, e.id, dn.id)
                if key2 not in seen:
                    out += _producers_of(ctx, f, prev, dn, seen)
            else:
                out.append(('unknown', e))
        return out
    return [('unknown', e)]


def _guard_for_inline(ctx, f, loop, name):
    """the multi-defeat loop is dominated by the True edge of a test with the conjunct
    len(C.hopeful()) - len(<name>) >= E.seatsLeftToFill()"""
    cfg = cfg_of(f)
    a = Atoms(ctx, f)
    head = cfg.of_stmt[loop]
    for t in cfg.nodes:
        if t.kind != 'test' or not isinstance(t.ast, ast.If):
            continue
        parts = t.ast.test.values if isinstance(t.ast.test, ast.BoolOp) and isinstance(t.ast.test.op, ast.And) \
            else [t.ast.test]
        for p in parts:
            if isinstance(p, ast.Compare) and len(p.ops) == 1 and isinstance(p.ops[0], (ast.GtE, ast.Gt)) \
                    and a._is_seats_left(p.comparators[0]) and isinstance(p.left, ast.BinOp) \
                    and isinstance(p.left.op, ast.Sub) and a._len_sel(p.left.left, 'hopeful') \
                    and _is_len_of(p.left.right, lambda x: isinstance(x, ast.Name) and x.id == name):
                if head not in cfg.reach([cfg.entry], edge_ok=lambda x, y, lab, t=t: not (x is t and lab is True)):
                    return t
    return None


def r03_duplicates(ctx):
    """only clause (ii) of R03: a batch of exclusions names no candidate twice"""
    r03_batch_cap(ctx, only_dups=True)


def r03_batch_cap(ctx, only_dups=False):
    R = 'R03'
    nsites = 0
    for ri in rules(ctx):
        f = ri.count
        cfg = ri.cfg
        for loop in _defeat_loops(ctx, f):
            if is_selector_call(ctx, f, loop.iter, 'hopeful'):
                continue      # sweeps over the fresh hopeful set: R01 / R03b
            nsites += 1
            head = cfg.of_stmt[loop]
            it = strip_sorters(ctx, f, loop.iter)
            prods = _producers_of(ctx, f, it, head)
            what = 'a multi-candidate exclusion leaves at least as many hopefuls as seats to fill (capped batch)'
            kinds = [k for k, _ in prods]
            name = it.id if isinstance(it, ast.Name) else None
            guard = _guard_for_inline(ctx, f, loop, name) if name else None
            if prods and all(k == 'singleton' for k in kinds):
                continue
            for k, p in ([] if only_dups else prods):
                if k in ('empty', 'singleton'):
                    continue
                if k == 'helper':
                    r, txt = producer_cap(ctx, p)
                    if r is None:
                        raise AnalysisError('R03: %s' % txt)
                    w = what + ' [producer %s()]' % p.name
                    if r:
                        ctx.ok(R, loop, f, w, txt)
                    elif guard is not None:
                        ctx.ok(R, loop, f, w, 'guarded by `%s` (line %d)' % (stmt_text(guard.ast.test), guard.line))
                    else:
                        ctx.bad(R, loop, f, w, txt)
                elif k == 'inline':
                    w = what + ' [inline selection `%s`]' % stmt_text(p)
                    if guard is None:
                        ctx.bad(R, loop, f, w, 'the batch includes the uncapped selection `%s` and no guard '
                                               '`len(C.hopeful()) - len(%s) >= E.seatsLeftToFill()` dominates the loop'
                                % (stmt_text(p), name))
                    else:
                        ctx.ok(R, loop, f, w, 'guarded by `%s` (line %d)' % (stmt_text(guard.ast.test), guard.line))
                else:
                    w = what + ' [producer of unknown shape `%s`]' % stmt_text(p)
                    if guard is None:
                        ctx.bad(R, loop, f, w, 'batch `%s` has a producer of unknown shape' % stmt_text(p))
                    else:
                        ctx.ok(R, loop, f, w, 'guarded by `%s` (line %d)' % (stmt_text(guard.ast.test), guard.line))
            # (ii) duplicate-freedom of an accumulated list
            if name:
                _check_duplicates(ctx, R, f, loop, name)
    ctx.floor(R, 'multi-defeat sites', nsites, 4)


def _check_duplicates(ctx, R, f, loop, name):
    cfg = cfg_of(f)
    head = cfg.of_stmt[loop]
    d = deriv(ctx)
    for dn in reaching_defs(cfg, name, head):
        st = dn.ast
        if dn is cfg.entry or dn.kind != 'stmt' or not isinstance(st, ast.AugAssign):
            continue
        # x += Y : Y must exclude what is already in x, unless x is provably empty here
        prev = [p for p in reaching_defs(cfg, name, dn)]
        prev_nonempty = []
        for p in prev:
            if p is cfg.entry:
                continue
            if p.kind == 'stmt' and isinstance(p.ast, ast.Assign) and isinstance(p.ast.value, (ast.List, ast.Tuple)) \
                    and not p.ast.value.elts:
                continue
            prev_nonempty.append(p)
        if not prev_nonempty:
            continue
        srcs = d.sources(st.value, f)
        prev_states = set()
        for p in prev_nonempty:
            if isinstance(p.ast, ast.Assign):
                s = d.states(p.ast.value, f)
                prev_states |= set(s or ['?'])
        new_states = set(s.state for s in srcs)
        overlap = bool(prev_states & new_states) or '?' in prev_states or None in new_states

        def excludes(s):
            for (c, v, cf, neg) in s.filters:
                if isinstance(c, ast.Compare) and len(c.ops) == 1 and isinstance(c.ops[0], ast.NotIn) \
                        and isinstance(c.left, ast.Name) and c.left.id == v \
                        and isinstance(c.comparators[0], ast.Name) and c.comparators[0].id == name and not neg:
                    return True
            return False
        ok = (not overlap) or (bool(srcs) and all(excludes(s) for s in srcs))
        ctx.check(ok, R, st, f, 'a batch of exclusions names no candidate twice',
                  '`%s += ...` filters out candidates already in %s' % (name, name),
                  '`%s` concatenates a second selection over the same status set (%s) without excluding the candidates '
                  'already in %s: a candidate can be excluded twice in one step'
                  % (stmt_text(st), '|'.join(sorted(x for x in new_states if x)), name))


# ---------------------------------------------------------------------------
# R03b  defeat-remaining sweeps only when the seats are filled
# ---------------------------------------------------------------------------

def _exit_formulas(ctx, ri, atoms):
    """[(anchor node, formula that holds when the main loop is left there)]"""
    from ..pathfacts import simplify
    f, cfg = ri.count, ri.cfg
    loop = ri.main_loop()
    out = []
    if not (isinstance(loop.test, ast.Constant) and loop.test.value is True):
        out.append((loop, simplify(('not', atoms.formula(loop.test)))))
    for n in ast.walk(loop):
        if isinstance(n, ast.Break):
            inner = n.parent
            while inner is not None and not isinstance(inner, (ast.For, ast.While)):
                inner = inner.parent
            if inner is not loop:
                continue
            # conjunction of the enclosing if-tests between the break and the loop
            conj = []
            child = n
            p = n.parent
            special = None
            while p is not None and p is not loop:
                if isinstance(p, ast.If):
                    if any(child is b for b in p.body):
                        conj.append(atoms.formula(p.test))
                        sp = _seats_filled_by_electing(ctx, f, p, n)
                        if sp:
                            special = sp
                    elif any(child is b for b in p.orelse):
                        conj.append(('not', atoms.formula(p.test)))
                child = p
                p = p.parent
            if special:
                conj.append(('lit', 'S', False))
            out.append((n, simplify(('and', conj)) if conj else ('const', True)))
    return out


def _seats_filled_by_electing(ctx, f, ifnode, brk):
    """`if len(C.elected()) + len(L) >= E.nSeats: for c in L: c.elect(..); break` : after the loop the
    seats are filled (every member of L is hopeful and gets elected)"""
    a = Atoms(ctx, f)
    t = ifnode.test
    if not (isinstance(t, ast.Compare) and len(t.ops) == 1 and isinstance(t.ops[0], ast.GtE) and ctx.canon(t.comparators[0], f) == 'E.nSeats'
            and isinstance(t.left, ast.BinOp) and isinstance(t.left.op, ast.Add)):
        return False
    parts = [t.left.left, t.left.right]
    L = None
    for p in parts:
        if _is_len_of(p, lambda x: isinstance(x, ast.Name)):
            L = p.args[0].id
    if L is None or not any(a._len_sel(p, 'elected') for p in parts):
        return False
    loops = [s for s in ifnode.body if isinstance(s, ast.For) and isinstance(s.iter, ast.Name) and s.iter.id == L]
    return bool(loops) and body_always_calls(ctx, f, loops[0], ('elect',)) and deriv(ctx).states(loops[0].iter, f) == frozenset(['hopeful'])


def _entails_done(formula):
    """does the formula entail (not G) or (not S)?  i.e. no model has G and S both true"""
    from ..pathfacts import _atoms_of, _eval
    atoms = sorted(_atoms_of(formula, set()), key=repr)
    if len(atoms) > 10:
        return False
    for bits in range(1 << len(atoms)):
        env = {a_: bool(bits >> i & 1) for i, a_ in enumerate(atoms)}
        if _eval(formula, env):
            g = env.get(('lit', 'G'), True)
            s = env.get(('lit', 'S'), True)
            if g and s:
                return False
    return True


def r03b_defeat_remaining(ctx):
    R = 'R03b'
    from .loops import _atoms
    n = 0
    for ri in rules(ctx):
        f, cfg = ri.count, ri.cfg
        atoms = _atoms(ctx, f)
        a = Atoms(ctx, f)
        for loop in _defeat_loops(ctx, f):
            if not is_selector_call(ctx, f, loop.iter, 'hopeful'):
                continue
            n += 1
            what = 'the hopefuls left at the end are defeated only when every seat is filled (otherwise they are elected)'
            dcalls = [c for c in attr_calls_in(loop, ('defeat',))]
            head = cfg.of_stmt[loop]
            # (i)/(ii): dominated by not(len(elected) < nSeats) / len(elected) >= nSeats
            ok = False
            how = ''
            for t in cfg.nodes:
                if t.kind != 'test' or not isinstance(t.ast, ast.If):
                    continue
                tt = t.ast.test
                fS = a.formula(tt)
                if (isinstance(tt, ast.Compare) and len(tt.ops) == 1 and a._len_sel(tt.left, 'elected') and ctx.canon(tt.comparators[0], f) == 'E.nSeats') \
                        or fS in (('lit', 'S', True), ('lit', 'S', False)):
                    lab = None
                    if fS == ('lit', 'S', True):
                        lab = False           # `if E.seatsLeftToFill() > 0: elect else: defeat`
                    elif fS == ('lit', 'S', False):
                        lab = True
                    elif isinstance(tt.ops[0], ast.Lt):
                        lab = False
                    elif isinstance(tt.ops[0], ast.GtE):
                        lab = True
                    if lab is None:
                        continue
                    dn = [cfg_node_of(ctx, f, c) for c in dcalls]
                    if all(x not in cfg.reach([cfg.entry], edge_ok=lambda p, q, l, t=t, lab=lab: not (p is t and l is lab), include_start=True) for x in dn):
                        ok, how = True, 'each defeat is on the %s edge of `%s`' % (lab, unparse(tt))
            if not ok:
                # (iii) unconditional defeat-all: preceded by `if len(C.hopeful()) <= E.seatsLeftToFill(): <elect-all sweep>` and every
                # way out of the main loop entails "seats filled or not more hopefuls than seats left"
                anchor = loop
                if isinstance(loop.parent, ast.If) and is_selector_call(ctx, f, loop.parent.test, 'hopeful') and loop.parent.body == [loop]:
                    anchor = loop.parent          # `if C.hopeful(): <sweep>`
                blk = None
                for fld in ('body', 'orelse'):
                    b = getattr(anchor.parent, fld, None)
                    if isinstance(b, list) and any(x is anchor for x in b):
                        blk = b
                prev = None
                if blk is not None:
                    i = [k for k, x in enumerate(blk) if x is anchor][0]
                    prev = blk[i - 1] if i > 0 else None
                fill = isinstance(prev, ast.If) and atoms.formula(prev.test) == ('lit', 'G', False) and not prev.orelse \
                    and len(prev.body) == 1 and isinstance(prev.body[0], ast.For) and is_selector_call(ctx, f, prev.body[0].iter, 'hopeful') \
                    and body_always_calls(ctx, f, prev.body[0], ('elect',))
                if not fill and isinstance(anchor.parent, ast.If) and anchor.parent.orelse == [anchor] and atoms.formula(anchor.parent.test) == ('lit', 'G', False) \
                        and len(anchor.parent.body) == 1 and isinstance(anchor.parent.body[0], ast.For) \
                        and is_selector_call(ctx, f, anchor.parent.body[0].iter, 'hopeful') and body_always_calls(ctx, f, anchor.parent.body[0], ('elect',)):
                    # the same step as one statement: `if len(C.hopeful()) <= E.seatsLeftToFill(): <elect all> else: <defeat all>`
                    fill = True
                    anchor = anchor.parent
                    prev = anchor
                    blk = None
                    for fld in ('body', 'orelse'):
                        b = getattr(anchor.parent, fld, None)
                        if isinstance(b, list) and any(x is anchor for x in b):
                            blk = b
                after_loop = anchor.parent is f.node and anchor.lineno > ri.main_loop().end_lineno
                exits = _exit_formulas(ctx, ri, atoms)
                bad_exits = [x for x, phi in exits if not _entails_done(phi)]
                # nothing between the loop and the fill-test changes hopeful/elected counts (un-pending does not)
                between_ok = True
                if after_loop and blk is not None and prev is not None:
                    li = [k for k, x in enumerate(blk) if x is ri.main_loop()]
                    if li:
                        for s in blk[li[0] + 1: blk.index(prev)]:
                            for c in ast.walk(s):
                                if isinstance(c, ast.Call) and isinstance(c.func, ast.Attribute) and c.func.attr in ('elect', 'defeat', 'unelect'):
                                    between_ok = False
                ok = fill and after_loop and not bad_exits and between_ok
                how = 'preceded by `if len(C.hopeful()) <= E.seatsLeftToFill(): elect all`; all %d way(s) out of the main loop entail ' \
                      '"seats filled or hopefuls <= seats left"' % len(exits)
                if not ok:
                    how = 'the defeat-all sweep at line %d is not justified: %s' % (
                        loop.lineno, 'no elect-remaining step precedes it' if not fill else
                        ('the main loop can be left at line %d while seats and spare hopefuls remain' % bad_exits[0].lineno if bad_exits
                         else 'statements between the loop and the sweep change the counts'))
            ctx.check(ok, R, loop, f, what, how, how)
            # a sweep that elects while seats remain and defeats the rest hands out seats in iteration (candidate-number) order: it may
            # only run when there is nothing left to choose - every way out of the main loop entails "seats filled or hopefuls <= seats left"
            ecalls = [c for c in attr_calls_in(loop, ('elect',))]
            if ecalls and dcalls and loop.lineno > ri.main_loop().end_lineno:
                exits = _exit_formulas(ctx, ri, atoms)
                bad_exits = [x for x, phi in exits if not _entails_done(phi)]
                ctx.check(not bad_exits, R, loop, f,
                          'the closing elect-or-defeat sweep has no choice to make: the main loop ends only with the seats filled or no more hopefuls than open seats',
                          'all %d way(s) out of the main loop entail "seats filled or hopefuls <= seats left"' % len(exits),
                          'the main loop can be left (line %s) while seats are open and more hopefuls than seats remain: the closing sweep then gives the '
                          'seats to the lowest-numbered hopefuls, without tally or tie-break' % (bad_exits[0].lineno if bad_exits else '?'))
    ctx.floor(R, 'defeat-remaining sweeps', n, 8)


# ---------------------------------------------------------------------------
# R03c  a single exclusion needs more hopefuls than seats left
# ---------------------------------------------------------------------------

def r03c_single_defeat_guard(ctx):
    """On every path from the start of count() to a single (non-batch, non-sweep) defeat inside the main
    loop, the fact G = `len(C.hopeful()) > E.seatsLeftToFill()` holds at the defeat: established by a test
    edge and preserved by elect / unelect / unpend (which move hopeful and seats left together or not at
    all); a defeat drops it.  Then the exclusion leaves hopeful >= seats left."""
    R = 'R03c'
    from .loops import _atoms, _assign_transfer
    from ..pathfacts import search, describe
    from .common import node_effects
    n = 0
    for ri in rules(ctx):
        f, cfg = ri.count, ri.cfg
        loop = ri.main_loop()
        inside = cfg.nodes_in(loop)
        atoms = _atoms(ctx, f)
        base = _assign_transfer(ctx, f, atoms, unelect_drops=())

        def on_node(node, facts):
            eff = node_effects(ctx, f, node)
            new = facts
            if 'defeat' in eff:
                new = {k: v for k, v in new.items() if k not in ('G', 'G0', 'H', 'S')}
            elif eff & {'elect', 'unelect'}:
                new = {k: v for k, v in new.items() if k not in ('G0', 'H', 'S', 'P')}
            elif 'unpend' in eff:
                new = {k: v for k, v in new.items() if k != 'P'}
            # round counter: 0 at entry, newRound: 0 -> 1 -> many
            if any(ctx.canon(c.func, f) == 'E.newRound' for c in calls_at(node)):
                r = new.get('RND', 'many')
                new = dict(new)
                new['RND'] = 1 if r == 0 else 'many'
                new.pop('R1', None)
                new['R1'] = (new['RND'] == 1)
            return base(node, new)
        for call in attr_calls(f, ('defeat',)):
            recv = call.func.value
            dn = cfg_node_of(ctx, f, call)
            if dn not in inside:
                continue
            lp, _ = deriv(ctx).for_binding(recv) if isinstance(recv, ast.Name) else (None, None)
            if lp is not None:
                continue            # batches: R03; sweeps: R03b
            n += 1

            def accept(node, facts, dn=dn):
                return node is dn and facts.get('G') is not True
            p = search(cfg, cfg.entry, {'RND': 0, 'R1': False}, None, set(), atoms, on_node=on_node, accept=accept)
            ctx.check(p is None, R, call, f,
                      'a candidate is excluded singly only while more candidates are hopeful than seats remain to fill',
                      'path-sensitive search from the start of count(): every path to this defeat carries the fact '
                      'len(C.hopeful()) > E.seatsLeftToFill() (established by a guard, preserved by elect/unelect/unpend)',
                      'the exclusion can be reached when the hopefuls no longer outnumber the seats left: %s' % (describe(p) if p else ''))
    ctx.floor(R, 'single exclusion sites', n, 9)
