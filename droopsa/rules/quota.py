"""R13 quota form / comparison / epsilon guard, R14 election step precedes exclusion."""
import ast

from ..model import AnalysisError, need, call_name, const_str, unparse
from ..cfg import cfg_of, calls_at, reaching_defs
from .common import (rules, deriv, calls_local_helper, attr_calls, cfg_node_of, is_selector_call, all_funcs_of, stmt_text, node_effects,
                     direct_status_calls, strip_sorters, body_always_calls)
from .countflow import _quota_pred
from .values import _forced_arithmetic
from .loops import _atoms, _assign_transfer
from ..pathfacts import search
from ..symret import guarded_returns

INT_QUOTA_RULES = ('scotland', 'mpls')      # the property: floor(ballots/(seats+1))+1 for Scottish, Minneapolis, integer_quota


# ---------------------------------------------------------------------------
# canonical forms of quota expressions
# ---------------------------------------------------------------------------

def canon_expr(ctx, f, e):
    """canonical nested tuple of an arithmetic expression over access paths"""
    if isinstance(e, ast.Constant):
        return ('k', e.value)
    if isinstance(e, (ast.Name, ast.Attribute)):
        p = ctx.canon(e, f)
        if p is not None:
            if p.startswith('E.V.'):
                return ('V.' + p[4:],)
            return (p,)
        return ('?', unparse(e))
    if isinstance(e, ast.Call):
        p = ctx.canon(e.func, f)
        if p == 'E.V' and len(e.args) == 1:
            return ('V', canon_expr(ctx, f, e.args[0]))
        return ('call', p or unparse(e.func), tuple(canon_expr(ctx, f, a) for a in e.args))
    if isinstance(e, ast.BinOp):
        l, r = canon_expr(ctx, f, e.left), canon_expr(ctx, f, e.right)
        if isinstance(e.op, ast.Add):
            return ('+',) + tuple(sorted([l, r], key=repr))
        if isinstance(e.op, ast.Sub):
            return ('-', l, r)
        if isinstance(e.op, ast.Mult):
            return ('*',) + tuple(sorted([l, r], key=repr))
        if isinstance(e.op, ast.Div):
            return ('/', l, r)
        if isinstance(e.op, ast.FloorDiv):
            return ('//', l, r)
    return ('?', unparse(e))


SEATS1 = ('+', ('E.nSeats',), ('k', 1))
VSEATS1 = ('V', SEATS1)


def spec_forms(numerator):
    base = ('/', numerator, VSEATS1)
    return {
        'exact': base,
        'inexact': ('+',) + tuple(sorted([base, ('V.epsilon',)], key=repr)),
    }


INT_FORM = ('V', ('+',) + tuple(sorted([('//', ('E.nBallots',), SEATS1), ('k', 1)], key=repr)))
QPQ_FORM = ('/', ('E.va',), ('-', ('V', SEATS1), ('E.tx',)))


def _branch_conds(ctx, f, node):
    """conditions (text, truth) of the if-statements enclosing node in f, plus early-return guards
    preceding it in the same block (`if c: return ...` before => not c)"""
    out = []
    child = node
    n = getattr(node, 'parent', None)
    while n is not None and n is not f.node:
        if isinstance(n, ast.If):
            if any(child is b for b in n.body):
                out.append((n.test, True))
            elif any(child is b for b in n.orelse):
                out.append((n.test, False))
        elif isinstance(n, ast.IfExp):
            if child is n.body:
                out.append((n.test, True))
            elif child is n.orelse:
                out.append((n.test, False))
        elif isinstance(n, ast.BoolOp) and isinstance(n.op, ast.And):
            k = next((i_ for i_, v_ in enumerate(n.values) if v_ is child), 0)
            for v_ in n.values[:k]:
                out.append((v_, True))
        child = n
        n = getattr(n, 'parent', None)
    # early returns in the function body before this statement
    st = node
    while st.parent is not f.node and st.parent is not None:
        st = st.parent
    for s in f.node.body:
        if s is st:
            break
        if isinstance(s, ast.If) and s.body and isinstance(s.body[-1], ast.Return) and not s.orelse:
            out.append((s.test, False))
    return out


def _exactness(ctx, f, conds):
    """'exact' | 'inexact' | 'int' | None from a list of (test, truth)"""
    res = None
    for t, truth in conds:
        while isinstance(t, ast.UnaryOp) and isinstance(t.op, ast.Not):
            t, truth = t.operand, not truth
        p = ctx.canon(t, f)
        if p in ('E.V.exact',):
            res = 'exact' if truth else 'inexact'
        if unparse(t) == 'self.integer_quota' and truth:
            return 'int'
    return res


def epsilon_reads(ctx, R, ri, forced):
    """V.epsilon exists only for inexact arithmetic: Rational has none and Guarded assigns it only in its guard == 0 branch (and
    never removes it, so after a guard-0 election a stale value stays on the class).  Every read in a rule is therefore under
    `not V.exact` (or the rule forces fixed/integer), and nothing probes for the attribute dynamically (getattr with a default,
    hasattr): whether it is present is a fact about earlier elections of the process."""
    f = ri.count
    for g in all_funcs_of(f):
        for a in g.own_nodes():
            if isinstance(a, ast.Attribute) and a.attr == 'epsilon' and ctx.canon(a.value, g) == 'E.V':
                conds = _branch_conds(ctx, g, a)
                ex = _exactness(ctx, g, conds)
                ok = ex == 'inexact' or forced in ('fixed', 'integer')
                ctx.check(ok, R, a, g, 'V.epsilon is read only under inexact arithmetic (Rational has none; Guarded defines it only for guard 0)',
                          'not V.exact on this path' if ex == 'inexact' else 'rule forces arithmetic=%s' % forced,
                          'V.epsilon read on a path where the arithmetic may be exact: AttributeError (rational) or a stale/None value (guarded)')
            if isinstance(a, ast.Call) and isinstance(a.func, ast.Name) and a.func.id in ('getattr', 'hasattr') and len(a.args) >= 2 \
                    and (ctx.canon(a.args[0], g) == 'E.V' or unparse(a.args[0]).split('.')[-1] in ('Fixed', 'Guarded', 'Rational')):
                ok = a.func.id == 'getattr' and len(a.args) == 2 and False
                ctx.check(ok, R, a, g, 'no rule probes the arithmetic class for the presence of an attribute',
                          '', '`%s` asks whether the arithmetic class has an attribute: class attributes set by an earlier election of the '
                          'process are still there (Guarded.epsilon after a guard=0 count), so the answer depends on history' % unparse(a))


def r13_quota(ctx):
    R = 'R13'
    nq = 0
    for ri in rules(ctx):
        f = ri.count
        forced = _forced_arithmetic(ctx, ri)
        cq = ri.helper(ctx, 'calcQuota')
        sites = []       # (func, expr node, anchor)
        summarised = {}
        if cq is not None:
            gr = guarded_returns(cq.node)
            if gr is not None and all(e_ is not None for _, e_, _ in gr):
                for conds_, e_, r in gr:
                    sites.append((cq, e_, r))
                    summarised[id(e_)] = conds_
            else:
                for r in [n for n in cq.own_nodes() if isinstance(n, ast.Return) and n.value is not None]:
                    sites.append((cq, r.value, r))
        # inline quota assignments (meek_prf)
        for g in all_funcs_of(f):
            for s in g.own_nodes():
                if isinstance(s, ast.Assign) and len(s.targets) == 1 and ctx.canon(s.targets[0], g) == 'E.quota':
                    if isinstance(s.value, ast.Call) and isinstance(s.value.func, ast.Name) and cq is not None and s.value.func.id == cq.name:
                        continue
                    sites.append((g, s.value, s))
        need(sites, '%s: no quota computation found' % ri.cls.qualname)
        for g, expr, anchor in sites:
            nq += 1
            ce = canon_expr(ctx, g, expr)
            conds = summarised[id(expr)] if id(expr) in summarised else _branch_conds(ctx, g, anchor)
            ex = _exactness(ctx, g, conds)
            what = 'the quota of rule %s has the prescribed form' % ri.short
            if ri.short == 'qpq':
                ctx.check(ce == QPQ_FORM, R, anchor, g, what + ' (QPQ: active ballots / (1 + seats - tx))', 'E.va / (V(1 + E.nSeats) - E.tx)',
                          'QPQ quota is `%s`' % unparse(expr))
                continue
            if ri.short in INT_QUOTA_RULES or ex == 'int':
                ctx.check(ce == INT_FORM, R, anchor, g, what + ': floor(ballots / (seats + 1)) + 1 (integer division)',
                          'V(E.nBallots // (E.nSeats + 1) + 1) - int floor-division, then + 1', 'integer quota is `%s`' % unparse(expr))
                continue
            num = ('E.votes',) if ri.method == 'meek' else ('V', ('E.nBallots',))
            forms = spec_forms(num)
            # meek_prf uses // on values under forced fixed arithmetic: the same scaled division
            if forced in ('fixed', 'integer', 'guarded'):
                ce = _slashes(ce)
            if ex is None:
                # no branch on exactness: the arithmetic must be forced
                if forced in ('fixed', 'integer'):
                    ex = 'inexact'
                elif forced == 'guarded':
                    ex = 'exact'
                else:
                    ctx.bad(R, anchor, g, what, 'quota `%s` is computed without distinguishing exact from rounded arithmetic, and rule %s '
                                                'does not force one' % (unparse(expr), ri.short))
                    continue
            want = forms[ex]
            ctx.check(ce == want, R, anchor, g,
                      what + (': ballots / (seats + 1)' if ex == 'exact' else ': ballots / (seats + 1) truncated, plus one unit in the last place')
                      + (' [Meek: from the votes still credited]' if ri.method == 'meek' else ''),
                      '`%s` on the %s branch' % (unparse(expr), ex), 'on the %s branch the quota is `%s`' % (ex, unparse(expr)))
        # (b) comparison used for election agrees with exactness
        qp = None
        hq = ri.helper(ctx, 'hasQuota')
        cmps = []
        hsumm = {}
        if hq is not None:
            gr = guarded_returns(hq.node)
            if gr is not None and all(isinstance(e_, ast.Compare) for _, e_, _ in gr):
                for conds_, e_, r in gr:
                    cmps.append((hq, e_, r))
                    hsumm[id(e_)] = conds_
            else:
                for r in [n for n in hq.own_nodes() if isinstance(n, ast.Return) and isinstance(n.value, ast.Compare)]:
                    cmps.append((hq, r.value, r))
        for g in all_funcs_of(f):
            if g is hq:
                continue
            for c in g.own_nodes():
                if isinstance(c, ast.Compare) and len(c.ops) == 1 and isinstance(c.ops[0], (ast.Gt, ast.GtE)) \
                        and ctx.canon(c.comparators[0], g) == 'E.quota' and isinstance(c.left, (ast.Attribute, ast.Name)):
                    l = c.left
                    st_ = ctx.repo.enclosing_stmt(c)
                    if isinstance(st_, ast.Return) and g is not f:
                        # a predicate helper that is not the election filter (cfer's hasSurplus feeds `pending=`): not an election test
                        continue
                    if isinstance(l, ast.Attribute) and l.attr in ('vote', 'quotient'):
                        cmps.append((g, c, c))
                    elif isinstance(l, ast.Name) and isinstance(st_, (ast.If, ast.While)) and any(x is c for x in ast.walk(st_.test)) \
                            and any('elect' in node_effects(ctx, g, cfg_of(g).of_stmt[b_]) for b0 in st_.body for b_ in ast.walk(b0)
                                    if isinstance(b_, ast.stmt) and b_ in cfg_of(g).of_stmt):
                        # `if high_quotient > E.quota: ... elect` (qpq): a test on a local that gates an election
                        cmps.append((g, c, c))
        # one-parameter predicates on a candidate's tally (hasQuota, hasSurplus): the tally is measured against the quota, nothing else
        for h_ in ri.helpers.values():
            if len(h_.params) == 1:
                for r in [n for n in h_.own_nodes() if isinstance(n, ast.Return) and isinstance(n.value, ast.Compare) and len(n.value.ops) == 1]:
                    l_, r_ = r.value.left, r.value.comparators[0]
                    if isinstance(l_, ast.Attribute) and l_.attr == 'vote' and isinstance(l_.value, ast.Name) and l_.value.id == h_.params[0]:
                        ctx.check(ctx.canon(r_, h_) == 'E.quota', R, r, h_, 'a predicate on a candidate\'s tally compares it with the quota',
                                  unparse(r.value), '`%s` measures the tally against `%s`, not the quota' % (unparse(r.value), unparse(r_)), nontrivial=False)
        need(cmps, '%s: no quota comparison found' % ri.cls.qualname)
        for g, c, anchor in cmps:
            conds = hsumm[id(c)] if id(c) in hsumm else _branch_conds(ctx, g, anchor)
            ex = _exactness(ctx, g, [(t, tr) for t, tr in conds if unparse(t) != 'self.integer_quota'])
            if ex is None:
                ex = 'exact' if forced == 'guarded' else ('inexact' if forced in ('fixed', 'integer') else None)
            if ex is None:
                ctx.bad(R, anchor, g, 'the election test of rule %s matches the exactness of its arithmetic' % ri.short,
                        'quota test `%s` does not depend on V.exact and the arithmetic is not forced' % unparse(c))
                continue
            want = ast.Gt if ex == 'exact' else ast.GtE
            ctx.check(isinstance(c.ops[0], want), R, anchor, g,
                      'a candidate is elected on reaching the quota: strictly exceeding it under exact arithmetic, >= when the quota was rounded up',
                      '`%s` on the %s branch' % (unparse(c), ex),
                      'on the %s branch the election test is `%s`: %s' % (ex, unparse(c),
                                                                       'a candidate with exactly a Droop quota would be elected (too many winners possible)'
                                                                       if ex == 'exact' else 'a candidate holding exactly the rounded-up quota is not elected'))
        # (c) epsilon is read only where the arithmetic has one
        epsilon_reads(ctx, R, ri, forced)
    # (d) the quota is computed before it is first compared, recorded or reported
    for ri in rules(ctx):
        f, cfg = ri.count, ri.cfg
        Q = {x for x in cfg.stmt_nodes() if x.kind == 'stmt' and isinstance(x.ast, ast.Assign) and len(x.ast.targets) == 1
             and ctx.canon(x.ast.targets[0], f) == 'E.quota'}
        users = set()
        for x in cfg.stmt_nodes():
            if x in Q:
                continue
            for c in calls_at(x):
                p_ = ctx.canon(c.func, f)
                if p_ in ('E.logAction', 'E.newRound'):
                    users.add(x)
            # a rule-local helper that reads the quota or records an action (hasQuota, iterate, batchDefeat, ...)
            if calls_local_helper(ctx, f, x, lambda n_, g_: (isinstance(n_, ast.Attribute) and isinstance(n_.ctx, ast.Load) and ctx.canon(n_, g_) == 'E.quota')
                                  or (isinstance(n_, ast.Call) and ctx.canon(n_.func, g_) in ('E.logAction', 'E.newRound'))):
                users.add(x)
            heads = [x.ast.test] if x.kind == 'test' else ([x.ast.iter] if x.kind == 'iter' else ([x.ast] if x.kind == 'stmt' else []))
            heads = [h for h in heads if not isinstance(h, (ast.FunctionDef, ast.ClassDef))]
            for h in heads:
                for sub in ast.walk(h):
                    if isinstance(sub, ast.Attribute) and isinstance(sub.ctx, ast.Load) and ctx.canon(sub, f) == 'E.quota':
                        users.add(x)
        early = cfg.reach([cfg.entry], avoid=Q, include_start=True) & users
        ctx.check(bool(Q) and not early, R, f.node, f, 'rule %s computes its quota before the first action is recorded or any tally is compared with it' % ri.short,
                  'an assignment to E.quota dominates every use (first at line %s)' % (sorted(x.line for x in Q)[0] if Q else '?'),
                  'line %s uses or records E.quota before count() has computed it (it is still the zero set by Election.count)'
                  % (sorted(x.line for x in early)[0] if early else '?'))
    ctx.floor(R, 'quota expressions', nq, 12)


def _slashes(t):
    if isinstance(t, tuple):
        if t and t[0] == '//' and not _is_int_expr(t[1]):
            return ('/',) + tuple(_slashes(x) for x in t[1:])
        return tuple(_slashes(x) for x in t)
    return t


def _is_int_expr(t):
    return isinstance(t, tuple) and t and t[0] in ('E.nBallots', 'E.nSeats', 'k')


# ---------------------------------------------------------------------------
# R14
# ---------------------------------------------------------------------------

def _mutates_tally(ctx, g, _seen=None):
    _seen = _seen or set()
    if g.qualname in _seen:
        return False
    _seen.add(g.qualname)
    for n in g.own_nodes():
        if isinstance(n, ast.Attribute) and n.attr in ('vote', 'quota') and isinstance(n.ctx, ast.Store):
            return True
        if isinstance(n, ast.Call):
            kind, recv, nm = call_name(n)
            if kind == 'attr' and nm in ('zeroVote', 'addVote'):
                return True
            if kind == 'name':
                callee = deriv(ctx).local_func(nm, g)
                if callee is not None and _mutates_tally(ctx, callee, _seen):
                    return True
    return False


def _node_mutates(ctx, f, node):
    st = node.ast
    if node.kind == 'stmt' and isinstance(st, (ast.Assign, ast.AugAssign)):
        tgs = st.targets if isinstance(st, ast.Assign) else [st.target]
        for t in tgs:
            for sub in ast.walk(t):
                if isinstance(sub, ast.Attribute) and sub.attr in ('vote', 'quota') and isinstance(sub.ctx, ast.Store):
                    return True
    for c in calls_at(node):
        kind, recv, nm = call_name(c)
        if kind == 'attr' and nm in ('zeroVote', 'addVote'):
            return True
        if kind == 'name':
            callee = deriv(ctx).local_func(nm, f)
            if callee is not None and _mutates_tally(ctx, callee):
                return True
    return False


def _election_step_edges(ctx, f):
    """(set of (node, label) edges that establish 'no hopeful holds a quota', set of nodes that do)"""
    cfg = cfg_of(f)
    qp = _quota_pred(ctx, f)
    d = deriv(ctx)
    edges = set()
    nodes = set()
    for n in cfg.nodes:
        # E1: for c in [c for c in C.hopeful(..) if QUOTA(c)]: c.elect(..)   -> exhausted edge
        if n.kind == 'iter' and isinstance(n.ast.target, ast.Name):
            it = n.ast.iter
            if isinstance(it, ast.Name):
                # `winners = [c for c in C.hopeful() if QUOTA(c)]` + `for w in winners:` - the list is evaluated where it is assigned:
                # read through the local when that single assignment is the statement right before the loop
                rd = reaching_defs(cfg, it.id, n)
                if len(rd) == 1 and rd[0] is not cfg.entry and isinstance(rd[0].ast, ast.Assign) and isinstance(rd[0].ast.value, ast.ListComp) \
                        and [t for t, _l in rd[0].succ if _l != 'exc'] == [n]:
                    it = rd[0].ast.value
            if isinstance(it, (ast.ListComp, ast.GeneratorExp)) and len(it.generators) == 1 \
                    and is_selector_call(ctx, f, it.generators[0].iter, 'hopeful') and isinstance(it.elt, ast.Name):
                g = it.generators[0]
                v = g.target.id if isinstance(g.target, ast.Name) else None
                if v and len(g.ifs) == 1 and qp(g.ifs[0], v, f, False) and not _has_other_conjunct(g.ifs[0]) \
                        and body_always_calls(ctx, f, n.ast, ('elect',)):
                    edges.add((n, False))
            # E1': for c in C.hopeful(..): if QUOTA(c): c.elect(..)      (the same step written as loop + if; also the normal form)
            if is_selector_call(ctx, f, it, 'hopeful') and len(n.ast.body) == 1 and isinstance(n.ast.body[0], ast.If) and not n.ast.body[0].orelse:
                cond = n.ast.body[0].test
                v = n.ast.target.id
                inner = n.ast.body[0]
                elects = [x for x in inner.body if isinstance(x, ast.Expr) and isinstance(x.value, ast.Call) and isinstance(x.value.func, ast.Attribute)
                          and x.value.func.attr == 'elect' and isinstance(x.value.func.value, ast.Name) and x.value.func.value.id == v]
                if qp(cond, v, f, False) and not _has_other_conjunct(cond) and elects and not any(
                        isinstance(x, (ast.Break, ast.Continue, ast.Return)) for b_ in inner.body for x in ast.walk(b_)):
                    edges.add((n, False))
        # E2: `if X:` where X = [c for c in C.hopeful(..) if QUOTA(c)]  -> False edge
        if n.kind == 'test' and isinstance(n.ast, ast.If) and isinstance(n.ast.test, ast.Name):
            rd = reaching_defs(cfg, n.ast.test.id, n)
            if rd and all(x is not cfg.entry and isinstance(x.ast, ast.Assign) and isinstance(x.ast.value, ast.ListComp)
                          and len(x.ast.value.generators) == 1
                          and is_selector_call(ctx, f, x.ast.value.generators[0].iter, 'hopeful')
                          and len(x.ast.value.generators[0].ifs) == 1
                          and isinstance(x.ast.value.generators[0].target, ast.Name)
                          and qp(x.ast.value.generators[0].ifs[0], x.ast.value.generators[0].target.id, f, False)
                          and not _has_other_conjunct(x.ast.value.generators[0].ifs[0]) for x in rd):
                edges.add((n, False))
        # E3: `if M > E.quota` with M = max(c.K for c in C.hopeful())  -> False edge
        if n.kind == 'test' and isinstance(n.ast, ast.If) and isinstance(n.ast.test, ast.Compare) and len(n.ast.test.ops) == 1 \
                and isinstance(n.ast.test.ops[0], (ast.Gt, ast.GtE)) and isinstance(n.ast.test.left, ast.Name) \
                and ctx.canon(n.ast.test.comparators[0], f) == 'E.quota':
            rd = reaching_defs(cfg, n.ast.test.left.id, n)
            if len(rd) == 1 and rd[0] is not cfg.entry and isinstance(rd[0].ast, ast.Assign) and isinstance(rd[0].ast.value, ast.Call) \
                    and isinstance(rd[0].ast.value.func, ast.Name) and rd[0].ast.value.func.id == 'max':
                a = rd[0].ast.value.args[0] if rd[0].ast.value.args else None
                if isinstance(a, (ast.GeneratorExp, ast.ListComp)) and is_selector_call(ctx, f, a.generators[0].iter, 'hopeful'):
                    edges.add((n, False))
    return edges, nodes


def _has_other_conjunct(cond):
    """a filter like `not c.isUndeclared and hasQuota(c)` elects only some of those with a quota"""
    return isinstance(cond, ast.BoolOp)


def _helper_establishes(ctx, g):
    """every return of helper g is preceded by an election step with no tally mutation in between"""
    cfg = cfg_of(g)
    edges, _ = _election_step_edges(ctx, g)
    if not edges:
        return False
    starts = [cfg.entry] + [n for n in cfg.stmt_nodes() if _node_mutates(ctx, g, n)]
    rets = [cfg.exit]
    for s in starts:
        r = cfg.reach([s], edge_ok=lambda a, b, lab: (a, lab) not in edges)
        if cfg.exit in r:
            return False
    return True


def r14_elect_before_exclude(ctx):
    R = 'R14'
    n = 0
    for ri in rules(ctx):
        f = ri.count
        cfg = ri.cfg
        loop = ri.main_loop()
        head = cfg.of_stmt[loop]
        inside = cfg.nodes_in(loop)
        edges, _ = _election_step_edges(ctx, f)
        est_nodes = set()
        for node in inside:
            for c in calls_at(node):
                if isinstance(c.func, ast.Name):
                    callee = deriv(ctx).local_func(c.func.id, f)
                    if callee is not None and 'elect' in _effects_of(ctx, callee) and _helper_establishes(ctx, callee):
                        est_nodes.add(node)
        ctx.check(bool(edges) or bool(est_nodes), R, loop, f, 'every round of rule %s has an election step (all hopefuls holding a quota are elected)' % ri.short,
                  '%d establishing edge(s), %d establishing helper call(s)' % (len(edges), len(est_nodes)),
                  'no election step recognised in the main loop of %s' % ri.short)
        kills = {x for x in inside if _node_mutates(ctx, f, x) and x not in est_nodes}
        # targets: single defeats (call nodes) and batch loops (for heads), except total sweeps over C.hopeful()
        targets = []
        for call in attr_calls(f, ('defeat',)):
            dn = cfg_node_of(ctx, f, call)
            if dn not in inside:
                continue
            recv = call.func.value
            lp, _ = deriv(ctx).for_binding(recv) if isinstance(recv, ast.Name) else (None, None)
            if lp is not None:
                if is_selector_call(ctx, f, lp.iter, 'hopeful'):
                    continue
                targets.append((cfg.of_stmt[lp], call, lp))
            else:
                targets.append((dn, call, None))
        for call in attr_calls(f, ('unpend',)):
            dn = cfg_node_of(ctx, f, call)
            if dn not in inside or not (call.args or call.keywords):
                continue           # un-pending with a message = choosing a surplus to transfer
            recv = call.func.value
            lp, _ = deriv(ctx).for_binding(recv) if isinstance(recv, ast.Name) else (None, None)
            targets.append((cfg.of_stmt[lp] if lp is not None else dn, call, lp))
        for tn, call, lp in targets:
            n += 1
            what = 'a hopeful candidate is excluded only right after an election step, with no tally change in between ' \
                   '(so nobody holding a quota is excluded)'
            if call.func.attr == 'unpend':
                what = 'a surplus is chosen for transfer only right after an election step, with no tally change in between ' \
                       '(whoever reached the quota is elected at the next election step, not left undecided)'
            if ri.short == 'mpls' and lp is not None:
                ctx.ok(R, call, f, what, 'exception (one symbol, mpls.Rule.count `for c in defeatCandidates`): the Minneapolis ordinance '
                                         'defeats undeclared write-ins and certain losers before the election step of the round '
                                         '(167.70(1)(b-c)); the property excepts it', nontrivial=False)
                continue
            own_kills = set()
            if lp is not None:
                own_kills = cfg.nodes_in(lp)          # redistribution inside the batch loop concerns members already selected
            starts = [head] + [k for k in kills if k not in own_kills]
            bad = None
            atoms = _atoms(ctx, f)
            on_node = _assign_transfer(ctx, f, atoms)
            for s in starts:
                p_ = search(cfg, s, {}, tn, est_nodes, atoms, on_node=on_node,
                            cut_edge=lambda a, lab, facts: (a, lab) in edges or (a is head and lab is False))
                if p_ is not None:
                    bad = s
                    break
            ctx.check(bad is None, R, call, f, what,
                      'every path from the loop head or from a tally mutation to this step passes an election step',
                      'the step at line %d is reachable from %s without an election step in between'
                      % (tn.line, 'the loop head' if bad is head else 'the tally mutation at line %s' % (bad.line if bad else '?')))
    ctx.floor(R, 'exclusion sites', n, 12)


def _effects_of(ctx, g):
    from .common import effects
    return effects(ctx, g)
