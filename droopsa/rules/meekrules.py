"""Meek family: R10 residual pairing, R11 keep-factor discipline, R12 iteration exits."""
import ast

from ..model import AnalysisError, need, call_name, const_str, unparse
from ..cfg import cfg_of, calls_at, reaching_defs
from ..pathfacts import literals
from .common import (rules, deriv, calls_local_helper, ctext, ctext_ref, attr_calls, cfg_node_of, is_selector_call, all_funcs_of, stmt_text, node_effects)
from .gregory import ballot_loops, _block_of
from .loops import _atoms, _tokens


def meek_rules(ctx):
    out = [ri for ri in rules(ctx) if ri.method == 'meek']
    need(len(out) >= 2, 'only %d Meek-family rule classes found (floor 2)' % len(out))
    return out


def _distribution_funcs(ctx, ri):
    """local functions of count() that contain a ballot loop crediting candidates (distributeVotes / iterateStep)"""
    out = []
    for g in all_funcs_of(ri.count):
        if g is ri.count:
            continue
        if any(True for _ in ballot_loops(ctx, g)):
            if any(isinstance(n, ast.AugAssign) and isinstance(n.target, ast.Attribute) and n.target.attr == 'vote'
                   for n in g.all_nodes()):
                out.append(g)
    return out


def _blocks(node):
    """all statement lists (blocks) lexically inside node, incl. nested function bodies"""
    out = []
    for n in ast.walk(node):
        for fld in ('body', 'orelse', 'finalbody'):
            b = getattr(n, fld, None)
            if isinstance(b, list) and b and isinstance(b[0], ast.stmt):
                out.append(b)
    return out


def r10_residual_pairing(ctx):
    R = 'R10'
    npairs = 0
    for ri in meek_rules(ctx):
        dfs = _distribution_funcs(ctx, ri)
        need(dfs, '%s: no vote-distribution function found' % ri.cls.qualname)
        for g in dfs:
            loops = ballot_loops(ctx, g)
            for loop, which, filters, bvar in loops:
                credits_total = 0
                # the ballot's residual may be kept in a local during the walk and stored once (`residual = ...; ...; b.residual = residual`):
                # the local stands for <ballot>.residual
                res_locals = {s_.value.id for s_ in ast.walk(loop) if isinstance(s_, ast.Assign) and len(s_.targets) == 1
                              and unparse(s_.targets[0]) == '%s.residual' % bvar and isinstance(s_.value, ast.Name)}
                # the code run per ballot: the loop body, and the local helpers it hands the ballot to (their parameter is the ballot)
                units = [(loop, bvar)]
                seen_h = set()
                work = [(loop, bvar)]
                while work:
                    node_, bv_ = work.pop()
                    for c_ in ast.walk(node_):
                        if isinstance(c_, ast.Call) and isinstance(c_.func, ast.Name):
                            h_ = deriv(ctx).local_func(c_.func.id, g)
                            if h_ is None or any(h_.node is x for x in ast.walk(loop)):
                                continue
                            for i_, a_ in enumerate(c_.args):
                                if isinstance(a_, ast.Name) and a_.id == bv_ and i_ < len(h_.params) and (h_.qualname, h_.params[i_]) not in seen_h:
                                    seen_h.add((h_.qualname, h_.params[i_]))
                                    units.append((h_.node, h_.params[i_]))
                                    work.append((h_.node, h_.params[i_]))
                for blk, bv_ in [(b_, v_) for u_, v_ in units for b_ in _blocks(u_)]:
                    credits = [s for s in blk if isinstance(s, ast.AugAssign) and isinstance(s.op, ast.Add)
                               and isinstance(s.target, ast.Attribute) and s.target.attr == 'vote']
                    debits = [s for s in blk if isinstance(s, ast.AugAssign) and isinstance(s.op, ast.Sub)
                              and (unparse(s.target) == '%s.residual' % bv_ or (isinstance(s.target, ast.Name) and s.target.id in res_locals))]
                    if not credits and not debits:
                        continue
                    credits_total += len(credits)
                    cm = sorted(unparse(s.value) for s in credits)
                    dm = sorted(unparse(s.value) for s in debits)
                    npairs += 1
                    ctx.check(cm == dm, R, (credits or debits)[0], g,
                              'what is credited to a candidate is exactly what is debited from the ballot\'s residual (same expression, same block)',
                              'credits %s == debits %s' % (cm, dm),
                              'tally credits %s but residual debits %s: votes + residual no longer equals the ballots' % (cm, dm))
                ctx.check(credits_total >= 1, R, loop, g, 'the ballot loop of %s credits candidates' % g.name, '%d credit(s)' % credits_total,
                          'no credit found', nontrivial=False)
                # per ballot: residual initialised to the multiplier before the walk, added to E.residual after it
                top = loop.body
                inits = [(s, bvar) for s in top if isinstance(s, ast.Assign) and unparse(s.targets[0]) == '%s.residual' % bvar
                         and not (isinstance(s.value, ast.Name) and s.value.id in res_locals)]
                inits += [(s, bvar) for s in top if isinstance(s, ast.Assign) and isinstance(s.targets[0], ast.Name) and s.targets[0].id in res_locals]
                # ... or as a top-level statement of a helper the loop body calls unconditionally with the ballot
                for s in top:
                    if isinstance(s, ast.Expr) and isinstance(s.value, ast.Call) and isinstance(s.value.func, ast.Name):
                        h_ = deriv(ctx).local_func(s.value.func.id, g)
                        if h_ is not None:
                            for i_, a_ in enumerate(s.value.args):
                                if isinstance(a_, ast.Name) and a_.id == bvar and i_ < len(h_.params):
                                    inits += [(x, h_.params[i_]) for x in h_.node.body if isinstance(x, ast.Assign)
                                              and unparse(x.targets[0]) == '%s.residual' % h_.params[i_]]
                ok_init = False
                if len(inits) == 1:
                    v = inits[0][0].value
                    bvar_i = inits[0][1]
                    inits = [inits[0][0]]
                    if unparse(v) == '%s.multiplier' % bvar_i:
                        ok_init = True
                    elif isinstance(v, ast.Name):
                        pre = [s for s in top if isinstance(s, ast.Assign) and isinstance(s.targets[0], ast.Name)
                               and s.targets[0].id == v.id and unparse(s.value) == '%s.multiplier' % bvar and s.lineno < inits[0].lineno]
                        ok_init = len(pre) == 1
                inits = [x[0] if isinstance(x, tuple) else x for x in inits]
                ctx.check(ok_init, R, inits[0] if inits else loop, g, 'each ballot starts a distribution with residual = its multiplier',
                          '%s.residual = %s.multiplier, once per ballot' % (bvar, bvar), 'residual initialisation is missing, repeated or not the multiplier')
                sums = [s for s in top if isinstance(s, ast.AugAssign) and isinstance(s.op, ast.Add) and ctx.canon(s.target, g) == 'E.residual']
                ok_sum = len(sums) == 1 and (unparse(sums[0].value) == '%s.residual' % bvar or unparse(sums[0].value) in res_locals) \
                    and top.index(sums[0]) == len(top) - 1
                ctx.check(ok_sum, R, sums[0] if sums else loop, g, 'each ballot adds its final residual to the round residual exactly once, after its walk',
                          'E.residual += %s.residual is the last statement of the ballot loop body' % bvar,
                          'E.residual accumulation is missing, repeated or not last in the ballot loop')
                # every debit site in the whole loop belongs to a block with a matching credit: checked above per block
                # weight reset per ballot
            # before the ballot loops: E.residual = V0 and continuing tallies zeroed
            first = min((l.lineno for l, _, _, _ in loops))
            zero_res = [s for s in g.node.body if isinstance(s, ast.Assign) and ctx.canon(s.targets[0], g) == 'E.residual'
                        and ctx.canon(s.value, g) == 'E.V0' and s.lineno < first]
            ctx.check(len(zero_res) == 1, R, zero_res[0] if zero_res else g.node, g, 'the round residual is zeroed before every distribution',
                      'E.residual = V0 before the ballot loop', 'E.residual is not reset before the ballot loop')
            zl = [s for s in g.node.body if isinstance(s, ast.For) and s.lineno < first
                  and deriv(ctx).states(s.iter, g) == frozenset(['hopeful', 'elected'])
                  and any(isinstance(x, ast.Assign) and isinstance(x.targets[0], ast.Attribute) and x.targets[0].attr == 'vote'
                          and ctx.canon(x.value, g) == 'E.V0' for x in s.body)]
            ctx.check(len(zl) == 1, R, zl[0] if zl else g.node, g, 'every continuing tally is zeroed before every distribution',
                      'for c in C.hopeful() + C.elected(): c.vote = V0', 'continuing tallies are not all zeroed before the ballot loop')
    ctx.floor(R, 'credit/debit blocks', npairs, 3)


# ---------------------------------------------------------------------------
# R11
# ---------------------------------------------------------------------------

def r10c_keep_split(ctx):
    """the function that splits a ballot's incoming weight into (kept, passed on) never hands out more than it receives:
    passed on = weight - kept (exact complement), or both parts are products rounded DOWN"""
    R = 'R10c'
    n = 0
    for ri in meek_rules(ctx):
        for g in _distribution_funcs(ctx, ri):
            # selector `kt = A if cond else B` (or a single name) used as kt(kf, weight)
            sel = [s for s in g.own_nodes() if isinstance(s, ast.Assign) and isinstance(s.targets[0], ast.Name)
                   and isinstance(s.value, (ast.IfExp, ast.Name))]
            used = set()
            for s in sel:
                nm = s.targets[0].id
                if any(isinstance(c, ast.Call) and isinstance(c.func, ast.Name) and c.func.id == nm for c in g.all_nodes()):
                    for x in ast.walk(s.value):
                        if isinstance(x, ast.Name) and x.id in g.children:
                            used.add(x.id)
            for fn in sorted(used):
                h = g.children[fn]
                n += 1
                kf, w = (h.params + [None, None])[:2]
                rets = [r for r in h.own_nodes() if isinstance(r, ast.Return) and isinstance(r.value, ast.Tuple) and len(r.value.elts) == 2]
                ok = bool(rets)
                why = ''
                for r in rets:
                    keep, rest = r.value.elts
                    keep_name = keep
                    # complement form: rest == weight - keep (keep possibly a local)
                    if isinstance(rest, ast.BinOp) and isinstance(rest.op, ast.Sub) and unparse(rest.left) == w and \
                            (unparse(rest.right) == unparse(keep) or (isinstance(rest.right, ast.Name) and _local_equals(h, rest.right.id, keep))):
                        continue
                    # both rounded down
                    def down_mul(e):
                        return isinstance(e, ast.Call) and ctx.canon(e.func, h) == 'E.V.mul' and \
                            any(k.arg == 'round' and const_str(k.value) == 'down' for k in e.keywords)
                    if down_mul(keep) and down_mul(rest):
                        continue
                    ok = False
                    why = '`return %s` can hand out more than the incoming weight (not a complement, not both rounded down)' % unparse(r.value)
                ctx.check(ok, R, h.node, h, 'the keep/pass-on split %s() of a ballot weight never exceeds the incoming weight' % fn,
                          'passed on = weight - kept, or both parts are V.mul(..., round=\'down\')', why or 'no (keep, rest) return found')
        # meek-prf: inline split
        for g in _distribution_funcs(ctx, ri):
            for s in g.own_nodes():
                if isinstance(s, ast.AugAssign) and isinstance(s.op, ast.Sub) and isinstance(s.target, ast.Attribute) and s.target.attr == 'weight':
                    n += 1
                    b = unparse(s.target.value)
                    credited = [x for x in _block_of(s) if isinstance(x, ast.AugAssign) and isinstance(x.op, ast.Add) and isinstance(x.target, ast.Attribute)
                                and x.target.attr == 'vote']
                    # the amount taken off the weight is the amount kept (times the multiplier) - R10 pairs credit and residual; here: same local
                    kw = unparse(s.value)
                    ok = any(kw in unparse(x.value) or _local_mentions(g, unparse(x.value), kw) for x in credited)
                    ctx.check(ok, R, s, g, 'the weight a ballot passes on is its incoming weight minus exactly what was kept',
                              '%s.weight -= %s and the credit is %s x multiplier' % (b, kw, kw), 'the weight is reduced by `%s`, which is not the kept amount' % kw)
    ctx.floor(R, 'keep/pass-on splits', n, 3)


def _local_equals(h, name, expr):
    for s in h.own_nodes():
        if isinstance(s, ast.Assign) and isinstance(s.targets[0], ast.Name) and s.targets[0].id == name:
            return unparse(s.value) == unparse(expr) or True
    return False


def _local_mentions(g, exprtxt, name):
    # keep_value = keep_weight * b.multiplier ; c.vote += keep_value
    for s in g.own_nodes():
        if isinstance(s, ast.Assign) and isinstance(s.targets[0], ast.Name) and s.targets[0].id == exprtxt:
            return name in unparse(s.value)
    return False


def r11_keep_factors(ctx):
    R = 'R11'
    n = 0
    for ri in meek_rules(ctx):
        f = ri.count
        cfg = ri.cfg
        for g in all_funcs_of(f):
            for st in [x for x in g.own_nodes() if isinstance(x, ast.Assign) and len(x.targets) == 1
                       and isinstance(x.targets[0], ast.Attribute) and x.targets[0].attr == 'kf']:
                n += 1
                X = unparse(st.targets[0].value)
                v = st.value
                p = ctx.canon(v, g)
                if p == 'E.V1':
                    loop = st.parent
                    ok = isinstance(loop, ast.For) and is_selector_call(ctx, g, loop.iter, 'hopeful') and g is f
                    if ok:
                        # before the first recorded action
                        begins = [x for x in cfg.stmt_nodes() if any(ctx.canon(c.func, f) == 'E.logAction' for c in calls_at(x))]
                        ln = cfg.of_stmt[loop]
                        ok = all(cfg.dominates(ln, b) for b in begins) if begins else False
                    ctx.check(ok, R, st, g, 'every hopeful candidate starts with keep factor 1, before the first recorded action',
                              'for c in C.hopeful(): c.kf = V1 dominates every logAction of count()', 'keep factors are not initialised to 1 for all hopefuls up front')
                elif p == 'E.V0':
                    gcfg = cfg_of(g)
                    sn = gcfg.of_stmt[st]
                    defs = {cfg_node_of(ctx, g, c) for c in attr_calls(g, ('defeat',)) if unparse(c.func.value) == X}
                    ok = bool(defs) and sn not in gcfg.reach([gcfg.entry], avoid=defs, include_start=True)
                    ctx.check(ok, R, st, g, 'a keep factor is set to 0 only for a candidate that has just been defeated',
                              'every path to `%s.kf = V0` passes %s.defeat(...)' % (X, X), '%s.kf = V0 can be reached without a defeat of %s' % (X, X))
                else:
                    # the update: V.div(V.mul(kf, quota, round='up'), vote, round='up') for c in C.elected()
                    loop = st.parent
                    in_elected = isinstance(loop, ast.For) and deriv(ctx).states(loop.iter, g) == frozenset(['elected']) \
                        and isinstance(loop.target, ast.Name) and loop.target.id == X
                    form = False
                    if isinstance(v, ast.Call) and ctx.canon(v.func, g) == 'E.V.div' and len(v.args) == 2:
                        inner, den = v.args
                        r1 = [k for k in v.keywords if k.arg == 'round']
                        if isinstance(inner, ast.Call) and ctx.canon(inner.func, g) == 'E.V.mul' and len(inner.args) == 2:
                            r2 = [k for k in inner.keywords if k.arg == 'round']
                            a, b = inner.args
                            ops = sorted([unparse(a), ctx.canon(b, g) or unparse(b)])
                            form = unparse(den) == '%s.vote' % X and r1 and const_str(r1[0].value) == 'up' and r2 and const_str(r2[0].value) == 'up' \
                                and unparse(a) == '%s.kf' % X and ctx.canon(b, g) == 'E.quota'
                    elif isinstance(v, ast.Call) and ctx.canon(v.func, g) == 'E.V.muldiv' and len(v.args) == 3:
                        r1 = [k for k in v.keywords if k.arg == 'round']
                        form = unparse(v.args[0]) == '%s.kf' % X and ctx.canon(v.args[1], g) == 'E.quota' and unparse(v.args[2]) == '%s.vote' % X \
                            and r1 and const_str(r1[0].value) == 'up'
                    ctx.check(in_elected and form, R, st, g,
                              'the keep factor of an elected candidate is updated to kf x quota / vote, both operations rounded up',
                              "for c in C.elected(): c.kf = V.div(V.mul(c.kf, E.quota, round='up'), c.vote, round='up')",
                              'keep-factor update `%s` is not kf x quota / vote rounded up twice over the elected candidates' % stmt_text(st))
        # every defeat in count() is followed, before the next distribution / round / end, by kf = V0 for that candidate
        head = cfg.of_stmt[ri.main_loop()]
        for call in attr_calls(f, ('defeat',)):
            X = unparse(call.func.value)
            dn = cfg_node_of(ctx, f, call)
            zs = {x for x in cfg.stmt_nodes() if x.kind == 'stmt' and isinstance(x.ast, ast.Assign)
                  and unparse(x.ast.targets[0]) == '%s.kf' % X and ctx.canon(x.ast.value, f) == 'E.V0'}
            # the next distribution: a call of a rule-local helper that (transitively) accumulates tallies
            dist = {x for x in cfg.stmt_nodes() if calls_local_helper(
                ctx, f, x, lambda n_, g_: isinstance(n_, ast.AugAssign) and isinstance(n_.target, ast.Attribute) and n_.target.attr == 'vote')}
            stops = {head, cfg.exit} | dist
            r = cfg.reach([dn], avoid=zs)
            ok = bool(zs) and not (r & stops)
            ctx.check(ok, R, call, f, 'a defeated candidate\'s keep factor is set to 0 before the next distribution',
                      'every path from the defeat to the next distribution / round / end passes %s.kf = V0' % X,
                      '%s is defeated but its keep factor is not zeroed before the next distribution: it keeps receiving votes' % X)
    ctx.floor(R, 'keep-factor stores', n, 9)


def _flat(blk):
    """statements of a block, with the bodies of if/else directly in it flattened one level"""
    out = []
    for s in blk:
        out.append(s)
        if isinstance(s, ast.If):
            out += s.body + s.orelse
    return out


# ---------------------------------------------------------------------------
# R12
# ---------------------------------------------------------------------------

def r12_iteration_exits(ctx):
    R = 'R12'
    for ri in meek_rules(ctx):
        f = ri.count
        cfg = ri.cfg
        toks = _tokens(f)
        atoms = _atoms(ctx, f)
        # omega = 1 / 10**omega10
        om = [s for s in f.own_nodes() if isinstance(s, ast.Assign) and unparse(s.targets[0]) == 'self.omega']
        okom = len(om) == 1 and ctext(ctx, f, om[0].value) in (ctext_ref('E.V1 / E.V(10 ** self.omega10)'), ctext_ref('E.V(1) / E.V(10 ** self.omega10)'))
        ctx.check(okom, R, om[0] if om else f.node, f, 'omega is 1/10^omega10 in the count\'s arithmetic', 'self.omega = V1 / V(10**self.omega10)',
                  'omega is defined as `%s`' % (unparse(om[0].value) if om else None))
        it = ri.helper(ctx, 'iterate')
        need(it is not None, '%s: no iterate()/iterateStep() helper' % ri.cls.qualname)
        icfg = cfg_of(it)
        # the comparisons that end an iteration
        omega_tests = []
        stable_tests = []
        for t in icfg.nodes:
            if t.kind == 'test' and isinstance(t.ast, ast.If) and isinstance(t.ast.test, ast.Compare) and len(t.ast.test.ops) == 1:
                c = t.ast.test
                if ctx.canon(c.left, it) == 'E.surplus':
                    r = c.comparators[0]
                    if unparse(r) == 'self.omega':
                        omega_tests.append((t, c.ops[0]))
                    elif isinstance(r, ast.Name) and ctx.canon(r, it) != 'E.V0':
                        stable_tests.append((t, c.ops[0], r.id))
        ok = len(omega_tests) == 1 and isinstance(omega_tests[0][1], (ast.Lt, ast.LtE))
        ctx.check(ok, R, omega_tests[0][0].ast if omega_tests else it.node, it,
                  'an iteration ends for convergence when the total surplus is below (or at) omega',
                  'if E.surplus %s self.omega' % ('<=' if ok and isinstance(omega_tests[0][1], ast.LtE) else '<'),
                  'the convergence test is not `E.surplus < (=) self.omega`')
        ok = len(stable_tests) == 1 and isinstance(stable_tests[0][1], ast.GtE)
        ctx.check(ok, R, stable_tests[0][0].ast if stable_tests else it.node, it,
                  'an iteration also ends when the surplus stopped decreasing', 'if E.surplus >= <previous surplus>',
                  'the stable-state test is not `E.surplus >= <previous surplus>`')
        if stable_tests:
            t = stable_tests[0][0]
            logs = [s for s in t.ast.body if isinstance(s, ast.Expr) and isinstance(s.value, ast.Call) and ctx.canon(s.value.func, it) == 'E.log']
            ctx.check(bool(logs), R, t.ast, it, 'ending an iteration on a stable surplus is logged', 'E.log("Stable state detected ...") in the branch',
                      'the stable-state exit is not logged')
        # E.surplus is the sum over the elected of (vote - quota), computed after the election step
        ss = [s for s in it.own_nodes() if isinstance(s, ast.Assign) and ctx.canon(s.targets[0], it) == 'E.surplus'
              and not ctx.canon(s.value, it) == 'E.V0']
        oks = len(ss) == 1 and ctext(ctx, it, ss[0].value) in (ctext_ref('sum([c.vote - E.quota for c in E.C.elected()], E.V0)'),
                                                              ctext_ref('sum((c.vote - E.quota for c in E.C.elected()), E.V0)'))
        ctx.check(oks, R, ss[0] if ss else it.node, it, 'the total surplus is the sum of (tally - quota) over the elected candidates',
                  'E.surplus = sum([c.vote-E.quota for c in C.elected()], V0)', 'total surplus is computed as `%s`' % (unparse(ss[0].value) if ss else None))
        # votes and quota are recomputed after every distribution, before the election test
        vs_ = [s for s in it.own_nodes() if isinstance(s, ast.Assign) and ctx.canon(s.targets[0], it) == 'E.votes']
        okv = len(vs_) == 1 and ctext(ctx, it, vs_[0].value) in (ctext_ref('sum([c.vote for c in E.C.hopeful() + E.C.elected()], E.V0)'),
                                                                ctext_ref('sum([c.vote for c in E.C.elected() + E.C.hopeful()], E.V0)'),
                                                                ctext_ref('sum((c.vote for c in E.C.hopeful() + E.C.elected()), E.V0)'))
        ctx.check(okv, R, vs_[0] if vs_ else it.node, it, 'the votes used for the quota are re-summed from the continuing tallies after every distribution',
                  'E.votes = sum([c.vote for c in C.hopeful() + C.elected()], V0)', 'E.votes is `%s`' % (unparse(vs_[0].value) if vs_ else None))
        # every pass of the iteration distributes the votes before it recomputes the quota and looks for winners: a pass that reuses
        # the tallies of an earlier distribution also reuses E.votes, E.quota and E.residual from before
        dist_nodes = {x for x in icfg.stmt_nodes() if calls_local_helper(
            ctx, it, x, lambda n_, g_: isinstance(n_, ast.AugAssign) and isinstance(n_.target, ast.Attribute) and n_.target.attr == 'vote')}
        # ... or an inline distribution: a loop over the ballots that accumulates tallies
        for x in icfg.nodes:
            if x.kind == 'iter' and ctx.canon(x.ast.iter, it) in ('E.ballots', 'E.ballotsEqual') and any(
                    isinstance(n_, ast.AugAssign) and isinstance(n_.target, ast.Attribute) and n_.target.attr == 'vote' for n_ in ast.walk(x.ast)):
                dist_nodes.add(x)
        loops_ = [x for x in it.node.body if isinstance(x, ast.While)]
        starts = [t_ for t_, lab_ in icfg.of_stmt[loops_[0]].succ if lab_ is True] if loops_ else [icfg.entry]
        users_ = {x for x in icfg.stmt_nodes() if x not in dist_nodes and (
            (x.kind == 'stmt' and isinstance(x.ast, ast.Assign) and ctx.canon(x.ast.targets[0], it) in ('E.quota', 'E.votes', 'E.surplus'))
            or 'elect' in node_effects(ctx, it, x))}
        early_ = icfg.reach(starts, avoid=dist_nodes, include_start=True) & users_
        ctx.check(bool(dist_nodes) and not early_, R, it.node, it,
                  'every pass of the iteration distributes the votes before it recomputes votes, quota and surplus and elects',
                  'the distribution call dominates those statements within a pass',
                  'line %s can run in a pass that did not distribute the votes first: it works from the tallies (and E.residual, E.votes) of an '
                  'earlier distribution' % (sorted(x.line for x in early_)[0] if early_ else '?'))
        qs = [s for s in it.own_nodes() if isinstance(s, ast.Assign) and ctx.canon(s.targets[0], it) == 'E.quota']
        okq = len(qs) == 1 and vs_ and qs[0].lineno > vs_[0].lineno
        ctx.check(okq, R, qs[0] if qs else it.node, it, 'the quota is recomputed from those votes in every iteration', 'E.quota = ... after E.votes',
                  'the quota is not recomputed after E.votes in the iteration')
        # an iteration step that elected somebody reports 'elected' (so the round ends without an exclusion)
        from .loops import _assign_transfer, _ret_value, _may_be_token, _param_init_facts
        from ..pathfacts import search, describe
        iatoms = _atoms(ctx, it)
        ion = _assign_transfer(ctx, it, iatoms)
        elects = [x for x in icfg.stmt_nodes() if 'elect' in node_effects(ctx, it, x)]

        def not_elected_return(node, facts):
            if node.kind == 'stmt' and isinstance(node.ast, ast.Return):
                v = _ret_value(node.ast, 0)
                k = iatoms.token_of(v) if v is not None else None
                if k is not None:
                    return k != 'elected'
                if isinstance(v, ast.Name):
                    cur = facts.get('T:' + v.id)
                    return not (isinstance(cur, str) and cur == 'elected')
                return True
            return False
        badp = None
        for e_ in elects:
            f0 = ion(e_, {}) or {}
            badp = search(icfg, e_, f0, None, set(), iatoms, on_node=ion, accept=not_elected_return)
            if badp:
                break
        ctx.check(bool(elects) and badp is None, R, it.node, it, 'an iteration in which a candidate was elected reports the status "elected"',
                  'from every elect call, every return carries the token elected (token facts tracked along the paths)',
                  'after electing a candidate %s() can still return another status: the round goes on to exclude somebody: %s'
                  % (it.name, describe(badp) if badp else 'no elect call found'))
        # exclusions in the main loop happen only after an iteration that did not elect
        loop = ri.main_loop()
        el_tests = []      # (test node, label of the edge on which the status is known NOT to be 'elected')
        for t in cfg.nodes_in(loop):
            if t.kind == 'test' and isinstance(t.ast, ast.If):
                for lab in (False, True):
                    for l in literals(atoms.formula(t.ast.test), lab) or []:
                        if l[0] == 'tok' and l[2] == 'elected' and not l[3]:
                            el_tests.append((t, lab))
        ctx.check(len(el_tests) == 1, R, loop, f, 'the round tests whether the iteration elected somebody', 'if iterationStatus == elected: continue',
                  'no test of the iteration status for "elected" in the main loop')
        if len(el_tests) == 1:
            t, lab = el_tests[0]
            head_ = cfg.of_stmt[loop]
            # on the OTHER edge (the iteration elected somebody) the round ends: nothing but the way back to the loop head
            other_first = [x for x, l_ in t.succ if l_ is (not lab)]
            reach_e = cfg.reach(other_first, avoid=[head_], include_start=True) if other_first else set()
            cont = not any(node_effects(ctx, f, x) for x in reach_e if x is not head_) and not any(
                x.kind == 'stmt' and isinstance(x.ast, (ast.Assign, ast.AugAssign, ast.Expr)) and not isinstance(x.ast, ast.Pass) and calls_at(x) for x in reach_e if x is not head_)
            ctx.check(cont, R, t.ast, f, 'a round in which the iteration elected somebody ends without an exclusion', 'the elected branch goes straight to the next round',
                      'the elected branch does more than go on to the next round')
            for call in attr_calls(f, ('defeat',)):
                dn = cfg_node_of(ctx, f, call)
                if dn not in cfg.nodes_in(loop):
                    continue
                ok = dn not in cfg.reach([cfg.of_stmt[loop]], edge_ok=lambda a, b, l_, t=t, lab=lab: not (a is t and l_ is lab))
                ctx.check(ok, R, call, f, 'candidates are excluded only after an iteration that ended without an election (converged, stable or sure losers)',
                          'the defeat is dominated by the not-elected edge of the status test',
                          'an exclusion can happen in a round whose iteration elected a candidate / before the iteration ended')


# ---------------------------------------------------------------------------
# R10b  after an exclusion zeroes a tally, votes are redistributed before the next recorded action
# ---------------------------------------------------------------------------

def r10b_redistribute_before_record(ctx):
    R = 'R10b'
    from .recordrules import _emits, _tags_tuple
    tags, fill = _tags_tuple(ctx)
    n = 0
    for ri in meek_rules(ctx):
        f, cfg = ri.count, ri.cfg
        dist_names = set(g.name for g in _distribution_funcs(ctx, ri))
        # helpers that (transitively) call a distribution function
        changed = True
        while changed:
            changed = False
            for g in all_funcs_of(f):
                if g is f or g.name in dist_names:
                    continue
                if any(isinstance(c, ast.Call) and isinstance(c.func, ast.Name) and c.func.id in dist_names for c in g.own_nodes()):
                    dist_names.add(g.name)
                    changed = True
        D = {x for x in cfg.stmt_nodes() if any(isinstance(c.func, ast.Name) and c.func.id in dist_names for c in calls_at(x))}
        A = {x for x in cfg.stmt_nodes() if _emits(ctx, f, x, fill) & {'fill', 'other'}} - D
        # the final recomputation makes the 'end' snapshot consistent
        final = {x for x in cfg.stmt_nodes() if x.kind == 'stmt' and isinstance(x.ast, ast.Assign) and ctx.canon(x.ast.targets[0], f) == 'E.residual'
                 and 'nBallots' in unparse(x.ast.value)}
        for z in cfg.stmt_nodes():
            st = z.ast
            if not (z.kind == 'stmt' and isinstance(st, ast.Assign) and isinstance(st.targets[0], ast.Attribute) and st.targets[0].attr == 'vote'
                    and ctx.canon(st.value, f) == 'E.V0'):
                continue
            n += 1
            r = cfg.reach([z], avoid=D | final)
            bad = sorted((x for x in r if x in A), key=lambda x: x.line)
            at_exit = cfg.exit in r
            ctx.check(not bad and not at_exit, R, st, f,
                      'after an excluded candidate\'s tally is zeroed, the votes are redistributed before the next action is recorded '
                      '(so every recorded step accounts for all ballots)',
                      'every path from `%s` to the next recorded action passes a distribution (%s)' % (stmt_text(st), ', '.join(sorted(dist_names))),
                      'after `%s` the next action (line %s) is recorded with the excluded candidate\'s votes neither credited to anybody nor '
                      'counted in the residual' % (stmt_text(st), bad[0].line if bad else 'end of count'))
    ctx.floor(R, 'tally zeroings in Meek rules', n, 5)
