"""R01 total sweep, R02 elect-site classification, R05 status ownership/direction, R06 round
monotone - the control-flow rules over every rule class's count()."""
import ast

from ..model import AnalysisError, need, call_name, const_str, unparse, alpha_body, alpha_src
from ..cfg import cfg_of, calls_at
from ..pathfacts import Atoms, search, describe, bool_summary
from ..prov import fmt_states
from .common import (rules, deriv, attr_calls, cfg_node_of, effects, node_effects, direct_status_calls,
                     is_selector_call, body_always_calls, loop_var, all_funcs_of, STATUS_METHODS, stmt_text)


# ---------------------------------------------------------------------------
# R01 total sweep
# ---------------------------------------------------------------------------

def _total_sweeps(ctx, ri):
    """`for c in C.hopeful(...):` loops in count() whose body elects or defeats c on every path"""
    out = []
    for n in ri.count.own_nodes():
        if isinstance(n, ast.For) and is_selector_call(ctx, ri.count, n.iter, 'hopeful'):
            if body_always_calls(ctx, ri.count, n, ('elect', 'defeat')):
                out.append(n)
    return out


def r01_total_sweep(ctx):
    """when count() returns no candidate is still hopeful: on every path entry -> exit the fact
    'hopeful = {}' is established (exhausted edge of a total sweep, or the empty arm of
    `if C.hopeful():`) and not destroyed afterwards (unelect)"""
    R = 'R01'
    nrules = 0
    nsweeps = 0
    for ri in rules(ctx):
        f = ri.count
        cfg = ri.cfg
        sweeps = _total_sweeps(ctx, ri)
        nsweeps += len(sweeps)
        heads = {cfg.of_stmt[s] for s in sweeps}
        atoms = Atoms(ctx, f)
        reopen = set()
        for n in cfg.stmt_nodes():
            if 'unelect' in node_effects(ctx, f, n):
                reopen.add(n)

        def cut_edge(node, lab, facts, heads=heads):
            if node in heads and lab is False:
                return True           # sweep completed: hopeful = {}
            if facts.get('H') is False:
                return True           # a test just established that nobody is hopeful
            return False

        def on_node(node, facts):
            # H is a fact about the current candidate state: forget it across status changes
            if node_effects(ctx, f, node):
                facts = {k: v for k, v in facts.items() if k not in ('H', 'P', 'G', 'S')}
            return facts

        starts = [cfg.entry] + [n for n in reopen if n in cfg.reach([cfg.entry])]
        bad = None
        for s in starts:
            bad = search(cfg, s, {}, cfg.exit, set(), atoms, cut_edge=cut_edge, on_node=on_node)
            if bad:
                break
        nrules += 1
        if bad:
            ctx.bad(R, f.node, f, 'every path to the end of count() completes a total elect-or-defeat sweep '
                                  'over C.hopeful()',
                    'count() can return with hopeful candidates left: path %s reaches the end without a '
                    'completed sweep' % describe(bad))
        else:
            ctx.ok(R, f.node, f, 'every path to the end of count() completes a total elect-or-defeat sweep '
                                 'over C.hopeful()',
                   'path search over the CFG (%d nodes): exit unreachable once the exhausted edges of the %d '
                   'total sweep(s) at line(s) %s and the empty arm of `if C.hopeful()` are cut; unelect sites: %d'
                   % (len(cfg.nodes), len(sweeps), ','.join(str(s.lineno) for s in sweeps), len(reopen)))
    ctx.floor(R, 'rule classes', nrules, 8)
    ctx.floor(R, 'total sweeps', nsweeps, 11)


# ---------------------------------------------------------------------------
# R02 elect-site classification
# ---------------------------------------------------------------------------

def _quota_pred(ctx, func):
    """returns pred(cond, var, cfunc, negated) -> True when cond is a quota test on var:
    hasQuota(var) [a local helper all of whose returns compare <param>.vote >/>= E.quota],
    var.vote >= E.quota, var.vote > E.quota, or a conjunction containing one"""
    d = deriv(ctx)

    def is_quota_cmp(e, var, cfunc):
        if isinstance(e, ast.Compare) and len(e.ops) == 1 and isinstance(e.ops[0], (ast.Gt, ast.GtE)):
            l, r = e.left, e.comparators[0]
            if isinstance(l, ast.Attribute) and l.attr in ('vote', 'quotient') and isinstance(l.value, ast.Name) \
                    and l.value.id == var and ctx.canon(r, cfunc) == 'E.quota':
                return True
        return False

    def helper_is_quota(callee):
        rets = [n for n in callee.own_nodes() if isinstance(n, ast.Return)]
        if not rets or len(callee.params) != 1:
            return False
        if all(r.value is not None and is_quota_cmp(r.value, callee.params[0], callee) for r in rets):
            return True
        from ..symret import guarded_returns
        gr = guarded_returns(callee.node)       # the same predicate written through locals / a conditional expression
        return bool(gr) and all(e_ is not None and is_quota_cmp(e_, callee.params[0], callee) for _, e_, _ in gr)

    def pred(cond, var, cfunc, negated):
        if negated:
            return False
        if isinstance(cond, ast.BoolOp) and isinstance(cond.op, ast.And):
            return any(pred(v, var, cfunc, False) for v in cond.values)
        if is_quota_cmp(cond, var, cfunc):
            return True
        if isinstance(cond, ast.Call) and isinstance(cond.func, ast.Name) and len(cond.args) == 1 \
                and isinstance(cond.args[0], ast.Name) and cond.args[0].id == var:
            callee = d.local_func(cond.func.id, cfunc)
            if callee is not None and helper_is_quota(callee):
                return True
        return False
    return pred


def _seat_guard_kind(ctx, func, test):
    """classify a test expression as a seats-remaining guard; returns a tag or None"""
    a = Atoms(ctx, func)

    def is_len_sel(e, sel):
        return a._len_sel(e, sel)

    if isinstance(test, ast.Compare) and len(test.ops) == 1:
        l, op, r = test.left, test.ops[0], test.comparators[0]
        # len(C.elected()) < E.nSeats
        if isinstance(op, ast.Lt) and is_len_sel(l, 'elected') and ctx.canon(r, func) == 'E.nSeats':
            return 'elected<seats'
        # len(C.hopeful()) <= E.seatsLeftToFill()
        if isinstance(op, ast.LtE) and is_len_sel(l, 'hopeful') and a._is_seats_left(r):
            return 'hopeful<=seatsLeft'
        # len(C.hopeful()) + len(C.elected()) <= E.nSeats
        if isinstance(op, ast.LtE) and isinstance(l, ast.BinOp) and isinstance(l.op, ast.Add) \
                and ctx.canon(r, func) == 'E.nSeats':
            parts = [l.left, l.right]
            if any(is_len_sel(p, 'hopeful') for p in parts) and any(is_len_sel(p, 'elected') for p in parts):
                return 'hopeful+elected<=seats'
        # E.seatsLeftToFill() > 0
        if a.formula(test) == ('lit', 'S', True):
            return 'seatsLeft>0'
        # len(C.hopeful()) <= E.nSeats   (only valid while nobody is elected: round 1)
        if isinstance(op, ast.LtE) and is_len_sel(l, 'hopeful') and ctx.canon(r, func) == 'E.nSeats':
            return 'hopeful<=seats@round1'
    return None


def _dominating_true_tests(ctx, func, cfgnode):
    """tests whose True edge dominates cfgnode: removing that edge disconnects the node"""
    cfg = cfg_of(func)
    out = []
    for t in cfg.nodes:
        if t.kind == 'test' and isinstance(t.ast, ast.If):
            def edge_ok(a, b, lab, t=t):
                return not (a is t and lab is True)
            if cfgnode not in cfg.reach([cfg.entry], edge_ok=edge_ok):
                out.append(t)
    return out


def _round1_guard_ok(ctx, ri, test_node):
    """`len(C.hopeful()) <= E.nSeats` is a seat guard only while nobody has been elected.  Accept it
    when (a) the True edge of `E.round == 1` dominates it, (b) no elect call is reachable from entry
    before the first newRound(), (c) no elect call reaches the test without passing newRound()."""
    f, cfg = ri.count, ri.cfg
    atoms = Atoms(ctx, f)
    doms = _dominating_true_tests(ctx, f, test_node)
    if not any(atoms.formula(t.ast.test) == ('lit', 'R1', True) for t in doms):
        return False, 'not dominated by `E.round == 1`'
    newround = {n for n in cfg.stmt_nodes()
                if any(ctx.canon(c.func, f) == 'E.newRound' for c in calls_at(n))}
    elects = {n for n in cfg.stmt_nodes() if 'elect' in node_effects(ctx, f, n)}
    if not newround:
        return False, 'no newRound() call found'
    before = cfg.reach([cfg.entry], avoid=newround)
    if before & elects:
        return False, 'an elect call is reachable before the first newRound()'
    for e in elects:
        if test_node in cfg.reach([e], avoid=newround):
            return False, 'an elect call at line %d reaches the guard within the same round' % e.line
    return True, ''


def _undeclared_never_elected(ctx, R):
    """Minneapolis: an undeclared write-in is never elected.  The rule defeats the write-ins in its second round; an elect site that can
    run before that (reachable from the head of the main loop without passing E.newRound()) must filter them out itself
    (`not c.isUndeclared` on every derivation of the receiver)."""
    d = deriv(ctx)
    for ri in rules(ctx):
        f, cfg = ri.count, ri.cfg
        if not any(isinstance(x, ast.Attribute) and x.attr == 'isUndeclared' for x in f.all_nodes()):
            continue
        loop = ri.main_loop()
        head = cfg.of_stmt[loop]
        rounds = {x for x in cfg.nodes_in(loop) if any(ctx.canon(c.func, f) == 'E.newRound' for c in calls_at(x))}
        need(rounds, 'R02: %s handles undeclared candidates but its main loop has no E.newRound()' % ri.cls.qualname)
        early = cfg.reach([head], avoid=rounds, edge_ok=lambda a, b, lab: not (a is head and lab is False))
        for call in attr_calls(f, ('elect',)):
            cn = cfg_node_of(ctx, f, call)
            if cn not in early or cn not in cfg.nodes_in(loop):
                continue
            srcs = d.sources(call.func.value, f)
            # flow-sensitive refinement: `for c in NAME` - only the definitions of NAME that reach this loop count
            lp, _c = d.for_binding(call.func.value) if isinstance(call.func.value, ast.Name) else (None, None)
            if lp is not None and isinstance(lp.iter, ast.Name):
                from ..cfg import reaching_defs
                rds = reaching_defs(cfg, lp.iter.id, cfg.of_stmt[lp])
                if rds and all(r_ is not cfg.entry and isinstance(r_.ast, ast.Assign) for r_ in rds):
                    srcs = []
                    for r_ in rds:
                        srcs += d.sources(r_.ast.value, f)

            def excl(s_):
                for (c, v, cf, neg) in s_.filters:
                    for sub in ast.walk(c):
                        if isinstance(sub, ast.UnaryOp) and isinstance(sub.op, ast.Not) and isinstance(sub.operand, ast.Attribute) \
                                and sub.operand.attr == 'isUndeclared' and not neg:
                            return True
                return False
            ctx.check(bool(srcs) and all(excl(s_) for s_ in srcs), R, call, f,
                      'rule %s never elects an undeclared write-in: an election that can precede their exclusion filters them out' % ri.short,
                      'every derivation of `%s` carries `not c.isUndeclared`' % unparse(call.func.value),
                      '`%s` can run in the first round, before the write-ins are excluded, and its receiver is not filtered on isUndeclared: an '
                      'undeclared write-in holding the threshold is declared elected' % stmt_text(ctx.repo.enclosing_stmt(call)))


def r02_elect_sites(ctx):
    """every Candidate.elect call is justified by a quota test on the receiver, a seats-remaining
    guard, or a pending (already elected) receiver"""
    R = 'R02'
    d = deriv(ctx)
    n = 0
    _undeclared_never_elected(ctx, R)
    for ri in rules(ctx):
        for f in all_funcs_of(ri.count):
            qp = _quota_pred(ctx, f)
            for call in attr_calls(f, ('elect',)):
                n += 1
                recv = call.func.value
                srcs = d.sources(recv, f)
                what = 'elect() is justified: quota test on the receiver, seat guard, or pending receiver'
                if not srcs or any(s.state is None for s in srcs):
                    ctx.bad(R, call, f, what, 'receiver `%s` has unknown provenance' % unparse(recv))
                    continue
                states = frozenset(s.state for s in srcs)
                # (p) pending receiver
                if states == frozenset(['pending']):
                    ctx.ok(R, call, f, what, 'receiver drawn from C.pending(): already elected (forward move)')
                    continue
                # (q) quota filter on every derivation
                if all(any(qp(c, v, cf, neg) for (c, v, cf, neg) in s.filters) for s in srcs):
                    ctx.ok(R, call, f, what, 'every derivation of the receiver passes a quota test (%s)'
                           % '; '.join(sorted(set(unparse(c) for s in srcs for (c, v, cf, neg) in s.filters
                                                  if qp(c, v, cf, neg)))))
                    continue
                # (s) seat guard: lexical filter on loop var, or dominating test
                cn = cfg_node_of(ctx, f, call)
                doms = _dominating_true_tests(ctx, f, cn)
                kinds = []
                for t in doms:
                    k = _seat_guard_kind(ctx, f, t.ast.test)
                    if k == 'hopeful<=seats@round1':
                        ok, why = _round1_guard_ok(ctx, ri, t) if f is ri.count else (False, 'not in count()')
                        if ok:
                            kinds.append(k)
                    elif k:
                        kinds.append(k)
                if kinds:
                    ctx.ok(R, call, f, what, 'dominated by the True edge of seat guard(s): %s' % ', '.join(kinds))
                    continue
                # (q') quotient form: dominated by `X > E.quota` where the receiver is filtered on key == X
                okq = False
                for t in doms:
                    tt = t.ast.test
                    if isinstance(tt, ast.Compare) and len(tt.ops) == 1 and isinstance(tt.ops[0], (ast.Gt, ast.GtE)) \
                            and isinstance(tt.left, ast.Name) and ctx.canon(tt.comparators[0], f) == 'E.quota':
                        X = tt.left.id
                        # X must be max(<key> over C.hopeful()) and the receiver filtered on c.<key> == X
                        df, vals = ctx.scope(f).lookup_def(X, f)
                        keyattr = None
                        if vals and vals != 'param' and len(vals) == 1 and isinstance(vals[0][0], ast.Call) \
                                and isinstance(vals[0][0].func, ast.Name) and vals[0][0].func.id == 'max':
                            g = vals[0][0].args[0] if vals[0][0].args else None
                            if isinstance(g, (ast.GeneratorExp, ast.ListComp)) and isinstance(g.elt, ast.Attribute) \
                                    and is_selector_call(ctx, f, g.generators[0].iter, 'hopeful'):
                                keyattr = g.elt.attr
                        if keyattr and all(any(_is_key_eq(c, v, keyattr, X) for (c, v, cf, neg) in s.filters if not neg)
                                           for s in srcs):
                            okq = True
                if okq:
                    ctx.ok(R, call, f, what, 'dominated by `max key > E.quota` and the receiver is filtered on '
                                             'key == that maximum')
                    continue
                ctx.bad(R, call, f, what,
                        'elects `%s` %s without a quota test on the receiver, without a seats-remaining guard, '
                        'and the receiver is not pending' % (unparse(recv), fmt_states(states)))
    ctx.floor(R, 'elect call sites', n, 19)


def _is_key_eq(cond, var, keyattr, X):
    if isinstance(cond, ast.Compare) and len(cond.ops) == 1 and isinstance(cond.ops[0], ast.Eq):
        l, r = cond.left, cond.comparators[0]
        for a, b in ((l, r), (r, l)):
            if isinstance(a, ast.Attribute) and a.attr == keyattr and isinstance(a.value, ast.Name) \
                    and a.value.id == var and isinstance(b, ast.Name) and b.id == X:
                return True
    return False


# ---------------------------------------------------------------------------
# R05 status ownership and direction
# ---------------------------------------------------------------------------

def _attr_stores(repo, attrs):
    """(module, func, node, attr) for every store to X.<attr> in the analysed set"""
    out = []
    for m in repo.modules.values():
        for n in ast.walk(m.tree):
            tgts = []
            if isinstance(n, ast.Assign):
                tgts = n.targets
            elif isinstance(n, (ast.AugAssign, ast.AnnAssign)):
                tgts = [n.target]
            elif isinstance(n, ast.Delete):
                tgts = n.targets
            elif isinstance(n, (ast.For, ast.AsyncFor)):
                tgts = [n.target]
            elif isinstance(n, ast.With):
                tgts = [i.optional_vars for i in n.items if i.optional_vars is not None]
            elif isinstance(n, ast.Call) and isinstance(n.func, ast.Name) and n.func.id in ('setattr', 'delattr') \
                    and len(n.args) >= 2:
                s = const_str(n.args[1])
                if s is None and _dynamic_name_is_dunder(repo, n):
                    continue        # provably a '__x__' name: cannot be one of `attrs`
                if s is None or s in attrs:
                    out.append((m, repo.enclosing_func(n), n, s or '<dynamic>'))
            for t in tgts:
                for sub in ast.walk(t):
                    if isinstance(sub, ast.Attribute) and sub.attr in attrs and isinstance(sub.ctx, (ast.Store, ast.Del)):
                        out.append((m, repo.enclosing_func(sub), n, sub.attr))
    return out


def _dynamic_name_is_dunder(repo, call):
    """setattr(obj, <param>, v) inside a module-level helper all of whose call sites pass
    '__%s__' % x or '__r%s__' % x: the attribute name starts and ends with two underscores"""
    f = repo.enclosing_func(call)
    a = call.args[1]

    def dunder_fmt(e):
        if isinstance(e, ast.BinOp) and isinstance(e.op, ast.Mod):
            e = e.left
        s_ = const_str(e)
        return bool(s_) and s_.startswith('__') and s_.endswith('__')
    if f is None and isinstance(a, ast.Name):
        # module level: `for name in NAMES: setattr(obj, name, ...)` with NAMES a module-level list built only from '__%s__' % x
        # elements (display, comprehension, += of displays, append)
        mod = call
        while getattr(mod, 'parent', None) is not None:
            mod = mod.parent
        loops = [n for n in ast.walk(mod) if isinstance(n, ast.For) and isinstance(n.target, ast.Name) and n.target.id == a.id
                 and any(x is call for x in ast.walk(n))]
        if len(loops) != 1 or not isinstance(loops[0].iter, ast.Name):
            return False
        L = loops[0].iter.id
        elems, okl = [], True
        for n in ast.walk(mod):
            if isinstance(n, ast.Assign) and any(isinstance(t, ast.Name) and t.id == L for t in n.targets):
                v = n.value
                if isinstance(v, (ast.List, ast.Tuple)):
                    elems += v.elts
                elif isinstance(v, ast.ListComp):
                    elems.append(v.elt)
                else:
                    okl = False
            elif isinstance(n, ast.AugAssign) and isinstance(n.target, ast.Name) and n.target.id == L:
                if isinstance(n.op, ast.Add) and isinstance(n.value, (ast.List, ast.Tuple)):
                    elems += n.value.elts
                else:
                    okl = False
            elif isinstance(n, ast.Call) and isinstance(n.func, ast.Attribute) and isinstance(n.func.value, ast.Name) and n.func.value.id == L:
                if n.func.attr == 'append' and len(n.args) == 1:
                    elems.append(n.args[0])
                else:
                    okl = False
        return okl and bool(elems) and all(dunder_fmt(e) for e in elems)
    if f is None or not isinstance(a, ast.Name) or a.id not in f.params or f.parent is not None:
        return False
    idx = f.params.index(a.id)
    sites = [n for n in ast.walk(f.module.tree) if isinstance(n, ast.Call) and isinstance(n.func, ast.Name)
             and n.func.id == f.name]
    if not sites:
        return False
    for s in sites:
        if idx >= len(s.args):
            return False
        arg = s.args[idx]
        fmt = None
        if isinstance(arg, ast.BinOp) and isinstance(arg.op, ast.Mod):
            fmt = const_str(arg.left)
        if not (fmt and fmt.startswith('__') and fmt.endswith('__')):
            return False
    # the helper must not escape (be stored / returned) - it is deleted after use or only called
    return True


DYNAMIC_EXCEPTIONS = {
    # (module, callable) -> reason
    ('droop.values.rational', 'setattr'): 'rational._wrap_method installs wrapped Fraction dunders on Rational '
                                          '(attribute names are __add__ etc., never a status/tally field)',
}


def r05_status_ownership(ctx, fixture_module=None):
    R = 'R05'
    repo = ctx.repo
    d = deriv(ctx)
    cand = repo.cls('droop.candidate.Candidate')
    # (0) what the status methods themselves do: a candidate starts hopeful unless WITHDRAWN (nothing else - the ballots were only
    # stripped of withdrawn candidates); elect() always ends with state 'elected', defeat() with 'defeated', on every path, and
    # neither turns into the other
    init_c = cand.methods.get('__init__')
    need(init_c is not None, 'Candidate.__init__ missing')
    sts = [n_ for n_ in init_c.own_nodes() if isinstance(n_, ast.Assign) and unparse(n_.targets[0]) == 'self.state']
    wparam = [p_ for p_ in init_c.params if 'ithdrawn' in p_]
    oki = len(sts) == 1 and len(wparam) == 1 and isinstance(sts[0].value, ast.IfExp) and isinstance(sts[0].value.test, ast.Name) \
        and sts[0].value.test.id == wparam[0] and const_str(sts[0].value.body) == 'withdrawn' and const_str(sts[0].value.orelse) == 'hopeful' \
        and wparam[0] not in init_c.assigns()        # the parameter is what the caller passed: never re-bound before the test
    ctx.check(oki, R, sts[0] if sts else init_c.node, init_c, 'a candidate starts as withdrawn exactly when the profile withdrew it, otherwise hopeful',
              "self.state = 'withdrawn' if isWithdrawn else 'hopeful'",
              'the initial status is `%s`: a candidate the ballots still rank can start outside the count (its votes are credited to nobody that is ever transferred)'
              % (unparse(sts[0].value) if sts else None))
    for mname, final in (('elect', 'elected'), ('defeat', 'defeated')):
        mf = cand.methods.get(mname)
        need(mf is not None, 'Candidate.%s missing' % mname)
        mcfg = cfg_of(mf)
        stn = {x for x in mcfg.stmt_nodes() if x.kind == 'stmt' and isinstance(x.ast, ast.Assign) and unparse(x.ast.targets[0]) == 'self.state'}
        okv = bool(stn) and all(const_str(x.ast.value) == final for x in stn)
        okp = mcfg.exit not in mcfg.reach([mcfg.entry], avoid=stn, include_start=True)
        other = [c for c in mf.own_nodes() if isinstance(c, ast.Call) and isinstance(c.func, ast.Attribute) and c.func.attr in STATUS_METHODS
                 and isinstance(c.func.value, ast.Name) and c.func.value.id == 'self']
        ctx.check(okv and okp and not other, R, mf.node, mf, "Candidate.%s() leaves the candidate %s on every path" % (mname, final),
                  "self.state = '%s' on every path; no other status method called" % final,
                  "Candidate.%s() can return without setting state '%s' (or calls %s): the rule's seat and candidate counts were made on the assumption that it does"
                  % (mname, final, ', '.join('self.' + c.func.attr for c in other) or 'nothing else'))
    # (a) stores to .state / .pending only in Candidate methods
    stores = _attr_stores(repo, ('state', 'pending'))
    inside = 0
    for m, f, node, attr in stores:
        own = f is not None and f.owner_class is cand and isinstance(node, (ast.Assign,))
        tgt_self = False
        if own:
            for t in node.targets:
                if isinstance(t, ast.Attribute) and isinstance(t.value, ast.Name) and t.value.id == 'self':
                    tgt_self = True
        if own and tgt_self:
            inside += 1
            ctx.ok(R, node, f, 'candidate status fields (.state, .pending) are stored only by Candidate methods',
                   'store to self.%s inside %s' % (attr, f.qualname), nontrivial=False)
        else:
            ctx.bad(R, node, f or m.name, 'candidate status fields (.state, .pending) are stored only by Candidate methods',
                    'store to .%s outside droop.candidate.Candidate (%s)' % (attr, stmt_text(node)))
    ctx.floor(R, 'status stores in Candidate', inside, 5)
    # which Candidate methods write which state literal
    writers = {}
    for name, f in cand.methods.items():
        for n in f.own_nodes():
            if isinstance(n, ast.Assign):
                for t in n.targets:
                    if isinstance(t, ast.Attribute) and t.attr == 'state':
                        vals = set()
                        for sub in ast.walk(n.value):
                            s = const_str(sub)
                            if s:
                                vals.add(s)
                        writers.setdefault(name, set()).update(vals)
    expect = {'__init__': {'withdrawn', 'hopeful'}, 'elect': {'elected'}, 'unelect': {'hopeful'},
              'defeat': {'defeated'}}
    for k, v in expect.items():
        ctx.check(writers.get(k) == v, R, cand.methods[k].node if k in cand.methods else cand.node,
                  cand.methods.get(k, cand.qualname),
                  'Candidate.%s writes exactly the status %s' % (k, sorted(v)),
                  'state literals stored by the method: %s' % sorted(writers.get(k, [])),
                  'Candidate.%s stores status %s, expected %s' % (k, sorted(writers.get(k, [])), sorted(v)))
    extra = set(writers) - set(expect)
    for k in extra:
        ctx.bad(R, cand.methods[k].node, cand.methods[k], 'only __init__/elect/unelect/defeat write .state',
                'Candidate.%s also writes .state (%s)' % (k, sorted(writers[k])))
    # unpend: asserts elected & pending, clears pending, never touches state
    up = cand.methods.get('unpend')
    need(up is not None, 'Candidate.unpend missing')
    pend_false = any(isinstance(n, ast.Assign) and isinstance(n.targets[0], ast.Attribute)
                     and n.targets[0].attr == 'pending' and isinstance(n.value, ast.Constant) and n.value.value is False
                     for n in up.own_nodes())
    ctx.check(pend_false, R, up.node, up, 'Candidate.unpend clears the pending flag', 'self.pending = False',
              'Candidate.unpend does not store pending = False')

    # (b)+(c) receivers of the status methods, package-wide
    n_recv = 0
    n_unelect = 0
    for f in repo.funcs.values():
        for call in attr_calls(f, STATUS_METHODS):
            nm = call.func.attr
            recv = call.func.value
            if f.owner_class is cand:
                continue
            # is it really Candidate.<nm>?  the method name is defined by one class only
            n_recv += 1
            states = d.states(recv, f)
            allowed = {'elect': [frozenset(['hopeful']), frozenset(['pending'])],
                       'defeat': [frozenset(['hopeful'])],
                       'unpend': [frozenset(['pending'])],
                       'unelect': [frozenset(['elected'])]}[nm]
            what = '%s() receivers are drawn from %s' % (nm, ' or '.join(fmt_states(a) for a in allowed))
            if nm == 'unelect':
                n_unelect += 1
                in_qpq = f.module.name == 'droop.rules.qpq'
                ctx.check(in_qpq, R, call, f, 'unelect() is called only by the QPQ rule',
                          'call site is in droop/rules/qpq.py', 'unelect() called outside qpq.py')
            if states is None:
                ctx.bad(R, call, f, what, 'receiver `%s` has unknown provenance' % unparse(recv))
            elif states in allowed:
                ctx.ok(R, call, f, what, 'derivation of `%s`: %s' % (unparse(recv), fmt_states(states)))
            elif not states:
                ctx.bad(R, call, f, what, 'receiver `%s` is not derived from any candidate selection' % unparse(recv))
            else:
                ctx.bad(R, call, f, what, '%s() applied to candidates drawn from %s' % (nm, fmt_states(states)))
    ctx.floor(R, 'status-method call sites', n_recv, 50)
    ctx.floor(R, 'unelect call sites', n_unelect, 1)
    # method names must be unambiguous for the name-based resolution above
    for nm in STATUS_METHODS:
        definers = [c.qualname for c in repo.classes.values() if nm in c.methods]
        ctx.check(definers == [cand.qualname], R, cand.node, cand.qualname,
                  'method name %s is defined by Candidate only (call resolution by name is exact)' % nm,
                  'definers: %s' % definers, 'method %s is also defined by %s' % (nm, definers), nontrivial=False)
    # withdrawn only from __init__, and select() never returns withdrawn for hopeful/pending/elected: prov.py checked


# ---------------------------------------------------------------------------
# R06 round monotone
# ---------------------------------------------------------------------------

def r06_round_monotone(ctx):
    R = 'R06'
    repo = ctx.repo
    stores = _attr_stores(repo, ('round',))
    n = 0
    for m, f, node, attr in stores:
        n += 1
        ok = False
        how = ''
        if f is not None and f.qualname == 'droop.election.Election.__init__' and isinstance(node, ast.Assign) \
                and isinstance(node.value, ast.Constant) and node.value.value == 0:
            ok, how = True, 'initialised to 0 in Election.__init__'
        elif f is not None and f.qualname == 'droop.election.Election.newRound' and isinstance(node, ast.AugAssign) \
                and isinstance(node.op, ast.Add) and isinstance(node.value, ast.Constant) \
                and isinstance(node.value.value, int) and node.value.value > 0:
            ok, how = True, 'incremented by a positive constant in Election.newRound'
        ctx.check(ok, R, node, f or m.name, 'E.round is only initialised to 0 and incremented', how,
                  'store to .round that is neither the initialisation nor an increment: %s' % stmt_text(node))
    ctx.floor(R, 'round stores', n, 2)
    # newRound logs the 'round' action after the increment
    nr = repo.func('droop.election.Election.newRound')
    calls = [c for c in nr.own_nodes() if isinstance(c, ast.Call) and ctx.canon(c.func, nr) == 'E.logAction']
    ctx.check(any(c.args and const_str(c.args[0]) == 'round' for c in calls), R, nr.node, nr,
              "newRound logs a 'round' action", "self.logAction('round', ...)", "newRound no longer logs 'round'",
              nontrivial=False)


# ---------------------------------------------------------------------------
# R00 the small helpers the other rules rely on mean what their names say
# ---------------------------------------------------------------------------

def _single_return(f):
    body = [s for s in f.node.body if not (isinstance(s, ast.Expr) and isinstance(s.value, ast.Constant))]
    if len(body) == 1 and isinstance(body[0], ast.Return) and body[0].value is not None:
        return body[0].value
    return None


def r00_helper_semantics(ctx):
    """Election.seatsLeftToFill / nSeats / nBallots, Ballot.topRank / topCand / restart, Candidate.zeroVote / addVote /
    surplus, Candidates.byCid / byVote / select(order=...): the facts G, S, the alias table and the Gregory rules are
    stated in terms of these helpers, so their bodies are obligations too.  Bodies are compared with a reference
    definition modulo consistent renaming of parameters and locals (model.alpha_body), not as text."""
    R = 'R00'
    repo = ctx.repo
    n = 0

    def expect(qn, refs, what, prefix=None):
        """the body of qn equals (modulo renaming) one of the reference definitions; prefix=k compares the first k statements"""
        nonlocal n
        f = repo.func(qn)
        got = alpha_body(f.node)
        wants = [alpha_src(r) for r in ([refs] if isinstance(refs, str) else refs)]
        if prefix:
            got_c, wants = got[:prefix], [w[:prefix] for w in wants]
        else:
            got_c = got
        n += 1
        body = [unparse(s_) for s_ in f.node.body if not (isinstance(s_, ast.Expr) and isinstance(s_.value, ast.Constant))]
        same = got_c in wants
        if not same and not prefix:
            # the same function written with other branches (early return / conditional expression / a local / a property of the
            # class spelled out): compare the sets of (conditions -> returned expression) paths
            import textwrap
            from ..symret import canon_paths
            props = {}
            if f.owner_class is not None:
                for pn, pf in f.owner_class.methods.items():
                    if any(unparse(d_) == 'property' for d_ in pf.node.decorator_list):
                        pb = [s_ for s_ in pf.node.body if not (isinstance(s_, ast.Expr) and isinstance(s_.value, ast.Constant))]
                        if len(pb) == 1 and isinstance(pb[0], ast.Return) and pb[0].value is not None and pf.params and pn != f.name:
                            props[pn] = (pb[0].value, pf.params[0])
            gp = canon_paths(f.node, props)
            for r in ([refs] if isinstance(refs, str) else refs):
                rp = canon_paths(ast.parse(textwrap.dedent(r)).body[0], props)
                if gp is not None and rp is not None and gp == rp:
                    same = True
        ctx.check(same, R, f.node, f, what, '; '.join(body)[:200],
                  '%s is `%s`, expected (up to renaming) `%s`' % (qn.split('.')[-1], '; '.join(body)[:200], '; '.join(
                      l.strip() for l in ([refs] if isinstance(refs, str) else refs)[0].strip().splitlines()[1:])))

    expect('droop.election.Election.seatsLeftToFill', 'def f(self):\n return self.nSeats - len(self.C.elected())',
           'seats left to fill = seats - number of elected candidates (pending included)')
    expect('droop.election.Election.nSeats', 'def f(self):\n return self.electionProfile.nSeats', 'E.nSeats is the profile\'s number of seats')
    expect('droop.election.Election.nBallots', 'def f(self):\n return self.electionProfile.nBallots', 'E.nBallots is the profile\'s ballot total')
    expect('droop.election.Election.candidate', 'def f(self, cid):\n return self.C.byCid(cid)', 'E.candidate(cid) looks the candidate up by id')
    expect('droop.candidates.Candidates.byCid', 'def f(self, cid):\n return self._byCid[cid]', 'Candidates.byCid looks up the side table by id')
    expect('droop.election.Election.Ballot.topRank', 'def f(self):\n return self.ranking[self.index] if self.index < len(self.ranking) else None',
           'Ballot.topRank is the rank at the current index (None when exhausted)')
    expect('droop.election.Election.Ballot.topCand',
           'def f(self):\n return self.E.C.byCid(self.ranking[self.index]) if self.index < len(self.ranking) else None',
           'Ballot.topCand is the candidate at the current index (None when exhausted)')
    expect('droop.candidates.Candidates.byVote',
           'def f(self, candidates, reverse=False):\n return sorted(candidates, key=lambda c: (c.vote, c.order), reverse=reverse)',
           'Candidates.byVote sorts by ascending tally (ballot order only separates equal tallies)')
    expect('droop.candidates.Candidates.byBallotOrder',
           'def f(self, candidates, reverse=False):\n return sorted(candidates, key=lambda c: c.order, reverse=reverse)',
           'Candidates.byBallotOrder sorts by ballot order')
    # defaults reverse=False
    for nm in ('byVote', 'byBallotOrder', 'byTieOrder', 'select', 'hopeful', 'elected', 'pending'):
        f = repo.func('droop.candidates.Candidates.' + nm)
        a = f.node.args
        names = [x.arg for x in a.args]
        if 'reverse' in names:
            d = a.defaults[len(a.defaults) - (len(names) - names.index('reverse'))]
            n += 1
            ctx.check(isinstance(d, ast.Constant) and d.value is False, R, f.node, f, 'Candidates.%s sorts ascending unless asked otherwise' % nm,
                      'reverse defaults to False', 'reverse defaults to %s' % unparse(d), nontrivial=False)
    # side table: add() registers the candidate under its own id
    add = repo.func('droop.candidates.Candidates.add')
    p0 = add.params[1] if len(add.params) > 1 else None
    ok = any(isinstance(s_, ast.Assign) and isinstance(s_.targets[0], ast.Subscript) and unparse(s_.targets[0].value) == 'self._byCid'
             and unparse(s_.targets[0].slice) == '%s.cid' % p0 and unparse(s_.value) == p0 for s_ in add.own_nodes())
    n += 1
    ctx.check(ok, R, add.node, add, 'Candidates.add registers each candidate under its own id', 'self._byCid[c.cid] = c', 'side-table registration changed')
    # select(order=...) dispatches to the sorter of the same name, applied to the list selected by state
    sel = repo.func('droop.candidates.Candidates.select')
    disp = {}
    lists = set()
    from ..symret import guarded_returns
    gr = guarded_returns(sel.node)
    ordp = sel.params[2] if len(sel.params) > 2 else 'order'
    revp = sel.params[3] if len(sel.params) > 3 else 'reverse'
    if gr is None:
        ctx.unrecognised(R, sel.node, sel, 'the order dispatch of Candidates.select', 'the body is not a branching of returns')
    else:
        # every path that returns: which order literal it is taken for (conditions `order == <literal>` that hold), and what it returns
        for conds, e, _r in gr:
            key = None
            for t_, tr_ in conds:
                if tr_ and isinstance(t_, ast.Compare) and len(t_.ops) == 1 and isinstance(t_.ops[0], ast.Eq) and isinstance(t_.left, ast.Name) \
                        and t_.left.id == ordp and const_str(t_.comparators[0]) is not None:
                    key = const_str(t_.comparators[0])
            if key is None:
                key = '<other>'
            if e is None:
                val = ('?', 'returns nothing')
            elif isinstance(e, ast.Call) and isinstance(e.func, ast.Attribute) and unparse(e.func.value) == 'self' and len(e.args) == 1 \
                    and [(k.arg, unparse(k.value)) for k in e.keywords] == [('reverse', revp)] and e.func.attr.startswith('by'):
                inner = e.args[0]
                nested_sort = isinstance(inner, ast.Call) and isinstance(inner.func, ast.Attribute) and inner.func.attr.startswith('by')
                val = (e.func.attr if not nested_sort else '?', 'sorted')
            elif isinstance(e, ast.Call) and isinstance(e.func, ast.Attribute) and e.func.attr.startswith('by'):
                val = ('?', unparse(e)[:60])
            elif isinstance(e, ast.Call) and isinstance(e.func, ast.Name) and e.func.id in ('sorted', 'reversed'):
                val = ('?', unparse(e)[:60])
            else:
                val = ('identity', 'unsorted')
            disp.setdefault(key, set()).add(val[0])
        lists = {1}
    disp = {k: (sorted(v)[0] if len(v) == 1 else '?', '') for k, v in disp.items() if k != '<other>' or v != {'identity'}}
    want = {'none': 'identity', 'ballot': 'byBallotOrder', 'tie': 'byTieOrder', 'vote': 'byVote'}
    n += 1
    if gr is not None:
        ctx.check({k: v[0] for k, v in disp.items()} == want and len(lists) == 1, R, sel.node, sel, 'select(order=x) sorts with the sorter named x',
                  str({k: v[0] for k, v in disp.items()}), 'select() dispatch is %s' % {k: v[0] for k, v in disp.items()})
    # Candidate helpers
    expect('droop.candidate.Candidate.zeroVote', 'def f(self):\n self.vote = self.E.V0', 'Candidate.zeroVote does what its name says')
    expect('droop.candidate.Candidate.addVote', 'def f(self, addValue):\n self.vote += addValue', 'Candidate.addVote does what its name says')
    expect('droop.candidate.Candidate.surplus',
           ['def f(self):\n s = self.vote - self.E.quota\n return self.E.V0 if s < self.E.V0 else s',
            'def f(self):\n return max(self.vote - self.E.quota, self.E.V0)',
            'def f(self):\n return max(self.E.V0, self.vote - self.E.quota)'],
           'Candidate.surplus is max(tally - quota, 0)')
    # Ballot.restart (QPQ): back to the first preference
    expect('droop.election.Election.Ballot.restart', 'def f(self, weight):\n self.index = 0\n self.weight = weight',
           'Ballot.restart goes back to the first preference with the given weight', prefix=2)
    # Ballot.__init__: multiplier is a value of the election's arithmetic, weight starts at one
    bi = repo.func('droop.election.Election.Ballot.__init__')
    txt = {unparse(s_.targets[0]): ctx.canon(s_.value, bi) or unparse(s_.value) for s_ in bi.own_nodes() if isinstance(s_, ast.Assign)}
    mult = [s_.value for s_ in bi.own_nodes() if isinstance(s_, ast.Assign) and unparse(s_.targets[0]) == 'self.multiplier']
    okm = len(mult) == 1 and isinstance(mult[0], ast.Call) and ctx.canon(mult[0].func, bi) == 'E.V' and len(mult[0].args) == 1 \
        and isinstance(mult[0].args[0], ast.Name) and mult[0].args[0].id in bi.params
    rk = [s_.value for s_ in bi.own_nodes() if isinstance(s_, ast.Assign) and unparse(s_.targets[0]) == 'self.ranking']
    okr = len(rk) == 1 and isinstance(rk[0], ast.Name) and rk[0].id in bi.params
    n += 1
    ctx.check(okm and okr and txt.get('self.weight') == 'E.V1' and txt.get('self.index') == '0', R, bi.node, bi,
              'a ballot starts at its first preference with weight one and the line\'s multiplier', str(txt), 'Ballot.__init__ changed: %s' % txt)
    ctx.floor(R, 'helper definitions', n, 18)
