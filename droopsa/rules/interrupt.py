"""R43 record-key typestate, R44 append-only/append-last, R45 nothing swallows the interrupt,
R46 interrupt plumbing in the driver."""
import ast
import os

from ..model import AnalysisError, need, call_name, const_str, unparse, Module, set_parents
from ..cfg import cfg_of, calls_at
from .common import stmt_text, rules

RECORD = 'droop.record.ElectionRecord'


def _literal_key_stores(func, recv_names):
    """literal keys K stored as <recv>[K] = ... in func: K -> [stmt]"""
    out = {}
    for n in func.own_nodes():
        if isinstance(n, ast.Subscript) and isinstance(n.ctx, ast.Store) and isinstance(n.value, ast.Name) \
                and n.value.id in recv_names:
            k = const_str(n.slice)
            if k is not None:
                out.setdefault(k, []).append(n)
    return out


def _literal_key_loads(func, recv_names):
    out = []
    for n in func.own_nodes():
        if isinstance(n, ast.Subscript) and isinstance(n.ctx, ast.Load) and isinstance(n.value, ast.Name) \
                and n.value.id in recv_names:
            k = const_str(n.slice)
            if k is not None:
                out.append((k, n))
    return out


def _definitely_stored(func, recv_names):
    """keys stored on every normal path of func"""
    cfg = cfg_of(func)
    out = set()
    for k, nodes in _literal_key_stores(func, recv_names).items():
        sn = set()
        for n in nodes:
            st = n
            while not isinstance(st, ast.stmt):
                st = st.parent
            if st in cfg.of_stmt:
                sn.add(cfg.of_stmt[st])
        if sn and cfg.exit not in cfg.reach([cfg.entry], avoid=sn, include_start=True):
            out.add(k)
    return out


def _fill_guard_nodes(ctx, func):
    """CFG nodes `self._fill()` that sit in `if not self.filled:`; returns the guarding If statements"""
    out = []
    for n in func.own_nodes():
        if isinstance(n, ast.If) and isinstance(n.test, ast.UnaryOp) and isinstance(n.test.op, ast.Not) \
                and unparse(n.test.operand) == 'self.filled':
            if any(isinstance(s, ast.Expr) and isinstance(s.value, ast.Call) and unparse(s.value.func) == 'self._fill'
                   for s in n.body):
                out.append(n)
    return out


def r43_key_typestate(ctx):
    R = 'R43'
    repo = ctx.repo
    rec = repo.cls(RECORD)
    init = rec.methods.get('__init__')
    fill = rec.methods.get('_fill')
    need(init is not None and fill is not None, 'ElectionRecord.__init__/_fill missing')
    init_keys = _definitely_stored(init, ('self',))
    fill_keys = _definitely_stored(fill, ('self',))
    fill_maybe = set(_literal_key_stores(fill, ('self',))) - fill_keys
    # _fill is re-entrant: `self.filled = True` is its last statement, all key stores are plain stores
    last = fill.node.body[-1]
    ok_last = isinstance(last, ast.Assign) and unparse(last.targets[0]) == 'self.filled' \
        and isinstance(last.value, ast.Constant) and last.value.value is True
    ctx.check(ok_last, R, last, fill, '_fill() marks the header filled only after every key is stored (re-entrant after an '
                                      'interrupt inside _fill)', '`self.filled = True` is the last statement',
              '`self.filled = True` is not the last statement of _fill(): an interrupt inside _fill() leaves a partial header '
              'marked as filled')
    # no key store may follow a `self.filled = True`
    fcfg = cfg_of(fill)
    fstores = [x for x in fcfg.stmt_nodes() if x.kind == 'stmt' and isinstance(x.ast, ast.Assign)
               and unparse(x.ast.targets[0]) == 'self.filled']
    keystores = set()
    for k, nodes in _literal_key_stores(fill, ('self',)).items():
        for kn in nodes:
            st = kn
            while not isinstance(st, ast.stmt):
                st = st.parent
            if st in fcfg.of_stmt:
                keystores.add(fcfg.of_stmt[st])
    for fs in fstores:
        late = fcfg.reach([fs]) & keystores
        ctx.check(not late, R, fs.ast, fill, 'no header key is stored after the header was marked filled',
                  'no key store reachable after `self.filled = True` (line %d)' % fs.line,
                  'key store at line %s follows `self.filled = True` (line %d): an interrupt in between leaves a partial '
                  'header marked as filled' % (sorted(x.line for x in late)[0] if late else '?', fs.line))
    n = 0
    # the recorder itself runs before the header may be filled: it may load only __init__ keys
    for name, f in rec.methods.items():
        if name in ('report', 'dump', 'json', '__init__'):
            continue
        for k, node in _literal_key_loads(f, ('self',)):
            n += 1
            ctx.check(k in init_keys, R, node, f, "the recorder loads record key '%s' only when it is certainly there" % k,
                      'stored on every path of ElectionRecord.__init__',
                      "ElectionRecord.%s loads self['%s'], which only _fill() stores: KeyError when an action (e.g. the "
                      "interruption marker) is logged before the header is filled" % (name, k), nontrivial=False)
    # renderers: ElectionRecord.report/dump/json
    for name in ('report', 'dump', 'json'):
        f = rec.methods.get(name)
        need(f is not None, 'ElectionRecord.%s missing' % name)
        cfg = cfg_of(f)
        guards = _fill_guard_nodes(ctx, f)
        gnodes = [cfg.of_stmt[g] for g in guards]
        units = [(f, None)] + [(g, g) for g in f.children.values()]
        for g_, nested in units:
          for k, node in _literal_key_loads(g_, ('self',)):
            n += 1
            what = "renderer loads record key '%s' only when it is certainly there" % k
            if k in init_keys:
                ctx.ok(R, node, g_, what, 'stored on every path of ElectionRecord.__init__', nontrivial=False)
                continue
            if k not in fill_keys:
                ctx.bad(R, node, g_, what, "key '%s' is not stored on every path of _fill() (and not by __init__): "
                                           "unguarded subscript can raise KeyError" % k)
                continue
            # where the load happens in the renderer: its own statement, or (a load inside a nested helper) every statement
            # of the renderer that mentions the helper
            if nested is None:
                places = [node]
            else:
                places = [x for x in f.own_nodes() if isinstance(x, ast.Name) and x.id == nested.name and isinstance(x.ctx, ast.Load)]
                need(places, 'nested helper %s of %s is never used' % (nested.name, f.qualname))
            dom = True
            for pl in places:
                s2 = pl
                while s2 is not None and s2 not in cfg.of_stmt:
                    s2 = getattr(s2, 'parent', None)
                cn = cfg.of_stmt.get(s2)
                need(cn is not None, 'no CFG node for %s' % repo.loc(pl))
                # the establishing guard `if not self.filled: self._fill()` dominates the load
                if not any(cn not in cfg.reach([cfg.entry], avoid=[g], include_start=True) for g in gnodes):
                    dom = False
            ctx.check(dom, R, node, g_, what,
                      "`if not self.filled: self._fill()` dominates the load and _fill() stores '%s' on every path" % k,
                      "'%s' is stored only by _fill(), which runs at the first begin/count/round action; %s() is public "
                      "and can be called on an interrupted count before that action: KeyError" % (k, name))
    # rule hooks read record[...] keys: hooks are called only from ElectionRecord.report/dump, after the guard
    for ri in rules(ctx):
        for hook in ('report', 'dump'):
            h = ri.cls.find_method(hook)
            if h is None or h.owner_class.qualname == 'droop.rules.electionrule.ElectionRule':
                continue
            for k, node in _literal_key_loads(h, ('record',)):
                n += 1
                ctx.check(k in fill_keys or k in init_keys, R, node, h,
                          "rule hook loads record key '%s' only when it is certainly there" % k,
                          'stored on every path of _fill(); hooks run only from ElectionRecord.report/dump after the fill guard',
                          "record['%s'] is not stored on every path of _fill()" % k)
    # hook call sites: E.rule.report / E.rule.dump only from ElectionRecord.report / dump
    for f in repo.funcs.values():
        for c in f.own_nodes():
            if isinstance(c, ast.Call) and isinstance(c.func, ast.Attribute) and c.func.attr in ('report', 'dump') \
                    and ctx.canon(c.func.value, f) == 'E.rule':
                top_ = f
                while top_.parent is not None:
                    top_ = top_.parent          # a helper nested in a renderer runs only from it
                okc = top_.owner_class is rec and top_.name in ('report', 'dump')
                ctx.check(okc, R, c, f, 'rule rendering hooks are invoked only by ElectionRecord.report/dump',
                          'call site inside ElectionRecord.%s' % f.name,
                          'rule hook %s() invoked from %s, outside the guarded renderers' % (c.func.attr, f.qualname),
                          nontrivial=False)
    # the three public wrappers have no precondition: they are plain methods that only call log + erecord.<m>
    ctx.floor(R, 'record key loads', n, 20)
    ctx.note(R, 'keys stored by __init__: %s; by _fill() on every path: %s; conditionally: %s'
             % (sorted(init_keys), sorted(fill_keys), sorted(fill_maybe)))


def r44_append_only(ctx):
    R = 'R44'
    repo = ctx.repo
    rec = repo.cls(RECORD)
    action = rec.methods.get('action')
    need(action is not None, 'ElectionRecord.action missing')
    n_uses = 0
    for f in repo.funcs.values():
        for n in f.own_nodes():
            if isinstance(n, ast.Subscript) and const_str(n.slice) == 'actions':
                n_uses += 1
                par = n.parent
                # store to record['actions']
                if isinstance(n.ctx, (ast.Store, ast.Del)):
                    okc = f.owner_class is rec and f.name == '__init__'
                    ctx.check(okc, R, n, f, "the action list is bound once, in ElectionRecord.__init__",
                              "self['actions'] = list() in __init__", "record['actions'] is rebound/deleted in %s" % f.qualname)
                    continue
                # method call on it
                if isinstance(par, ast.Attribute) and isinstance(par.parent, ast.Call) and par.parent.func is par:
                    m = par.attr
                    okc = m == 'append' and f is action
                    if m in ('append', 'extend', 'insert', 'pop', 'remove', 'clear', 'sort', 'reverse', '__setitem__'):
                        ctx.check(okc, R, n, f, 'the action list is only ever appended to, by ElectionRecord.action',
                                  ".append(A) inside ElectionRecord.action", "record['actions'].%s(...) in %s" % (m, f.qualname))
                    continue
                # item / slice store:  record['actions'][i] = ...
                if isinstance(par, ast.Subscript) and par.value is n and isinstance(par.ctx, (ast.Store, ast.Del)):
                    ctx.bad(R, n, f, 'the action list is only ever appended to, by ElectionRecord.action',
                            "item/slice store into record['actions'] in %s" % f.qualname)
                    continue
                # augmented assignment
                if isinstance(par, ast.AugAssign) and par.target is n:
                    ctx.bad(R, n, f, 'the action list is only ever appended to, by ElectionRecord.action',
                            "augmented assignment to record['actions']")
    ctx.floor(R, "uses of ['actions']", n_uses, 5)
    # append-last: after .append(A) nothing stores into A
    cfg = cfg_of(action)
    appends = []
    for node in cfg.stmt_nodes():
        for c in calls_at(node):
            if isinstance(c.func, ast.Attribute) and c.func.attr == 'append' and isinstance(c.func.value, ast.Subscript) \
                    and const_str(c.func.value.slice) == 'actions' and c.args and isinstance(c.args[0], ast.Name):
                appends.append((node, c.args[0].id))
    need(appends, 'no append to the action list found in ElectionRecord.action')
    for node, A in appends:
        later = cfg.reach([node])
        bad = []
        for ln in later:
            if ln.kind not in ('stmt', 'test', 'iter'):
                continue
            for sub in ast.walk(ln.ast) if ln.kind == 'stmt' else []:
                if isinstance(sub, ast.Subscript) and isinstance(sub.ctx, (ast.Store, ast.Del)) \
                        and isinstance(sub.value, ast.Name) and sub.value.id == A:
                    bad.append(ln)
                if isinstance(sub, ast.Call) and isinstance(sub.func, ast.Attribute) and isinstance(sub.func.value, ast.Name) \
                        and sub.func.value.id == A and sub.func.attr in ('update', 'setdefault', 'pop', 'clear'):
                    bad.append(ln)
                if isinstance(sub, ast.Call) and any(isinstance(a, ast.Name) and a.id == A for a in sub.args) \
                        and not (isinstance(sub.func, ast.Attribute) and sub.func.attr == 'append'):
                    bad.append(ln)      # A handed to a hook after it was published
        ctx.check(not bad, R, node.ast, action, 'an action is appended complete: nothing is stored into it after the append',
                  'no store into `%s` (and no hook receiving it) is reachable after the append at line %d' % (A, node.line),
                  'the action dict is modified after it was appended (line %s): an interrupt in between publishes a '
                  'half-built action' % (bad[0].line if bad else '?'))


# ---------------------------------------------------------------------------
# R45
# ---------------------------------------------------------------------------

def swallowers(tree):
    """constructs that can swallow a KeyboardInterrupt: bare except, except BaseException /
    KeyboardInterrupt (unless the handler re-raises unconditionally), return/break/continue in a
    finally block, contextlib.suppress(BaseException...), signal handlers"""
    out = []
    for n in ast.walk(tree):
        if isinstance(n, ast.ExceptHandler):
            names = []
            if n.type is None:
                names = ['<bare>']
            else:
                for t in (n.type.elts if isinstance(n.type, ast.Tuple) else [n.type]):
                    names.append(unparse(t).split('.')[-1])
            if any(x in ('<bare>', 'BaseException', 'KeyboardInterrupt') for x in names):
                reraises = bool(n.body) and isinstance(n.body[-1], ast.Raise) and n.body[-1].exc is None
                if not reraises:
                    out.append((n, 'except %s' % ','.join(names)))
        if isinstance(n, ast.Try) and n.finalbody:
            for s in n.finalbody:
                for sub in ast.walk(s):
                    if isinstance(sub, (ast.Return, ast.Break, ast.Continue)):
                        out.append((sub, 'return/break/continue inside finally discards the exception in flight'))
        if isinstance(n, ast.Call):
            fn = unparse(n.func)
            if fn.endswith('suppress') and any(unparse(a).split('.')[-1] in ('BaseException', 'KeyboardInterrupt') for a in n.args):
                out.append((n, 'contextlib.suppress(%s)' % ', '.join(unparse(a) for a in n.args)))
            if fn in ('signal.signal', 'signal') or fn.endswith('.signal') and 'signal' in fn:
                out.append((n, 'signal handler installation'))
    return out


def _fixture(name):
    here = os.path.dirname(os.path.dirname(os.path.dirname(os.path.abspath(__file__))))
    p = os.path.join(here, 'fixtures', name)
    need(os.path.exists(p), 'positive fixture %s missing' % p)
    with open(p) as f:
        t = ast.parse(f.read())
    set_parents(t)
    return t


def r45_nothing_swallows(ctx):
    R = 'R45'
    repo = ctx.repo
    # positive fixture: the detector must fire on the tiny example on every run
    fx = swallowers(_fixture('swallow_interrupt.py'))
    if len(fx) < 4:
        raise AnalysisError('R45 detector found only %d of the 4 swallowers in fixtures/swallow_interrupt.py' % len(fx))
    nh = 0
    for m in repo.modules.values():
        for n in ast.walk(m.tree):
            if isinstance(n, ast.ExceptHandler):
                nh += 1
        for node, why in swallowers(m.tree):
            f = repo.enclosing_func(node)
            # the one intended handler: Droop.main's except KeyboardInterrupt (R46 checks what it does)
            if m.name == 'Droop' and f is not None and f.qualname == 'Droop.main' and why == 'except KeyboardInterrupt':
                ctx.ok(R, node, f, 'only the driver handles the interrupt', 'Droop.main catches KeyboardInterrupt (checked by R46)',
                       nontrivial=False)
                continue
            ctx.bad(R, node, f or m.name, 'nothing between Election.count() and the driver swallows a KeyboardInterrupt',
                    '%s can swallow the interrupt' % why)
    # code that runs WHILE the interrupt propagates (finally bodies, handlers that re-raise) must not add to the record or change a
    # status: the interrupted record has to be a prefix of the full one
    nfin = 0
    for m in repo.modules.values():
        if not (m.name.startswith('droop') or m.name == 'Droop'):
            continue
        for t in ast.walk(m.tree):
            if not isinstance(t, ast.Try):
                continue
            bodies = [('finally', t.finalbody)] if t.finalbody else []
            for h in t.handlers:
                ht = unparse(h.type) if h.type is not None else ''
                if h.type is None or 'BaseException' in ht or 'KeyboardInterrupt' in ht:
                    bodies.append(('except %s' % (ht or '<bare>'), h.body))
            for label, body in bodies:
                nfin += 1
                f = repo.enclosing_func(t)
                rec_calls = [c for st in body for c in ast.walk(st) if isinstance(c, ast.Call) and isinstance(c.func, ast.Attribute)
                             and c.func.attr in ('logAction', 'log', 'newRound', 'action', 'elect', 'defeat', 'unpend', 'unelect', 'prog')]
                ctx.check(not rec_calls, R, t, f or m.name, 'nothing is recorded and no status changes while an interrupt propagates',
                          '`%s` body records nothing' % label,
                          '`%s` body calls %s: when a KeyboardInterrupt passes through, the interrupted record gets an action (or status) '
                          'the completed count never has at that point' % (label, ', '.join(sorted(set('.' + c.func.attr for c in rec_calls)))))
    ctx.ok(R, None, 'package', 'nothing between Election.count() and the driver swallows a KeyboardInterrupt',
           '%d exception handlers in %d modules examined: none catches BaseException/KeyboardInterrupt or is bare; no finally '
           'block returns; positive fixture fired (%d constructs)' % (nh, len(repo.modules), len(fx)))
    ctx.floor(R, 'exception handlers', nh, 15)


def _files_written_before_read(ctx, R, main):
    """a file the driver reads back after the count (pstats.Stats(<name>)) has been written on EVERY path that reaches the read -
    including the path on which a KeyboardInterrupt leaves the try body.  cProfile.runctx / cProfile.run write their stats
    file in a `finally` (they count as written even when the profiled call is interrupted); <profile>.dump_stats(name) writes
    only if control reaches it."""
    from ..pathfacts import Atoms, search, describe
    from ..cfg import binds_name, may_raise
    cfg = cfg_of(main)
    atoms = Atoms(ctx, main)
    readers = []
    for x in cfg.stmt_nodes():
        for c in calls_at(x):
            fn = unparse(c.func)
            if fn in ('pstats.Stats', 'Stats', 'open') and c.args and isinstance(c.args[0], ast.Name):
                if fn == 'open' and any(const_str(a) and ('w' in const_str(a) or 'a' in const_str(a)) for a in c.args[1:2]):
                    continue
                readers.append((x, c.args[0].id, c))
    for rnode, fname, call in readers:
        always, normal = set(), set()
        for x in cfg.stmt_nodes():
            for c in calls_at(x):
                fn = unparse(c.func)
                args = list(c.args) + [k.value for k in c.keywords]
                names = [a.id for a in args if isinstance(a, ast.Name)]
                if fn in ('cProfile.runctx', 'cProfile.run', 'profile.runctx', 'profile.run') and fname in names:
                    always.add(x)
                elif isinstance(c.func, ast.Attribute) and c.func.attr == 'dump_stats' and fname in names:
                    normal.add(x)

        def on_node(node, facts):
            out = facts
            for k in list(facts):
                nm = k.split(':', 1)[1] if ':' in k else None
                if nm and binds_name(node, nm):
                    out = {a: b for a, b in out.items() if a != k}
            return out

        def cut_edge(node, lab, facts):
            # an interrupt is taken to arrive while a call runs (the count is one): statements that only move names around do not raise
            if lab == 'exc':
                return not may_raise(node)
            return node in normal
        p = search(cfg, cfg.entry, {}, rnode, always, atoms, cut_edge=cut_edge, on_node=on_node, follow_exc=True)
        ctx.check(p is None, R, call, main, 'a file read back after the count has been written on every path, also when the count was interrupted',
                  '`%s` is written by %d statement(s) that every path to the read passes (cProfile.runctx writes in a finally)' % (fname, len(always) + len(normal)),
                  'the read of `%s` can be reached without the file having been written (an interrupt skips the write): the driver dies with '
                  'FileNotFoundError instead of returning the renderings: %s' % (fname, describe(p) if p else ''))


def r46_interrupt_plumbing(ctx):
    R = 'R46'
    repo = ctx.repo
    main = repo.func('Droop.main')
    # the try statement whose body (transitively through the local helper) calls E.count()
    tries = [n for n in main.own_nodes() if isinstance(n, ast.Try)]
    target = None
    for t in tries:
        for h in t.handlers:
            if h.type is not None and unparse(h.type) == 'KeyboardInterrupt':
                target = (t, h)
    if target is None:
        ctx.bad(R, main.node, main, 'the driver catches KeyboardInterrupt around the count', 'no `except KeyboardInterrupt` in Droop.main')
        return
    t, h = target
    body_calls = [c for s in t.body for c in ast.walk(s) if isinstance(c, ast.Call)]
    counts = False
    for c in body_calls:
        if isinstance(c.func, ast.Name) and c.func.id in main.children:
            g = main.children[c.func.id]
            if any(isinstance(x, ast.Call) and isinstance(x.func, ast.Attribute) and x.func.attr == 'count' for x in g.own_nodes()):
                counts = True
        if isinstance(c.func, ast.Attribute) and c.func.attr == 'count':
            counts = True
    ctx.check(counts, R, t, main, 'the try block guarded by `except KeyboardInterrupt` contains the count',
              'try body calls countElection() which calls E.count()', 'the guarded try block does not run the count')
    flags = [s.targets[0].id for s in h.body if isinstance(s, ast.Assign) and isinstance(s.targets[0], ast.Name)
             and isinstance(s.value, ast.Constant) and s.value.value is True]
    ctx.check(len(flags) == 1, R, h, main, 'the handler records the interrupt in a flag', 'handler sets %s = True' % (flags[:1] or ['?'])[0],
              'the KeyboardInterrupt handler does not set a flag')
    if len(flags) != 1:
        return
    flag = flags[0]
    # the flag is initialised False inside/before the try and not reassigned afterwards
    other = [s for s in main.own_nodes() if isinstance(s, ast.Assign) and isinstance(s.targets[0], ast.Name)
             and s.targets[0].id == flag and s not in h.body]
    ok_init = all(isinstance(s.value, ast.Constant) and s.value.value is False and s.lineno < h.lineno for s in other) and bool(other)
    ctx.check(ok_init, R, other[0] if other else h, main, 'the interrupt flag is False unless the handler ran',
              '%s = False before the count; set True only in the handler' % flag, 'the flag is assigned elsewhere')
    # the local holding the election object: assigned from Election(...)
    enames = [s.targets[0].id for s in main.own_nodes() if isinstance(s, ast.Assign) and isinstance(s.targets[0], ast.Name)
              and isinstance(s.value, ast.Call) and unparse(s.value.func).split('.')[-1] == 'Election']
    need(len(set(enames)) == 1, 'R46: Droop.main does not build exactly one Election object')
    ename = enames[0]
    for m in ('report', 'dump', 'json'):
        calls = [c for c in main.own_nodes() if isinstance(c, ast.Call) and isinstance(c.func, ast.Attribute)
                 and c.func.attr == m and isinstance(c.func.value, ast.Name) and c.func.value.id == ename]
        okc = bool(calls) and all((c.args and isinstance(c.args[0], ast.Name) and c.args[0].id == flag)
                                  or any(k.arg == 'intr' and isinstance(k.value, ast.Name) and k.value.id == flag for k in c.keywords)
                                  for c in calls)
        after = all(c.lineno > t.end_lineno for c in calls)
        ctx.check(okc and after, R, calls[0] if calls else main.node, main,
                  'the interrupt flag reaches E.%s() after the count' % m,
                  'E.%s(%s) is called after the try statement with the flag' % (m, flag),
                  'E.%s() is not called with the interrupt flag' % m)
    _files_written_before_read(ctx, R, main)
    # the three wrappers: identical once-only marker logic
    el = repo.cls('droop.election.Election')
    shapes = {}
    for m in ('report', 'dump', 'json'):
        f = el.methods.get(m)
        need(f is not None, 'Election.%s missing' % m)
        body = [s for s in f.node.body if not (isinstance(s, ast.Expr) and isinstance(s.value, ast.Constant))]
        okw = len(body) == 2 and isinstance(body[0], ast.If) and isinstance(body[1], ast.Return)
        if okw:
            test = unparse(body[0].test)
            ib = [unparse(s) for s in body[0].body]
            okw = test == 'intr and (not self.intr_logged)' and len(ib) == 2 and ib[0].startswith('self.log(') \
                and ib[1] == 'self.intr_logged = True' and not body[0].orelse
            ret = body[1].value
            okw = okw and isinstance(ret, ast.Call) and unparse(ret.func) == 'self.erecord.%s' % m
            shapes[m] = ib[0] if okw else None
        ctx.check(okw, R, f.node, f, 'Election.%s(intr) logs the interruption marker once, then renders the record' % m,
                  '`if intr and not self.intr_logged: self.log(...); self.intr_logged = True` then `return self.erecord.%s(...)`' % m,
                  'Election.%s does not have the once-only interruption-marker shape of its siblings' % m)
    ctx.check(len(set(shapes.values())) == 1 and None not in shapes.values(), R, el.node, el.qualname,
              'the three renderers log the same interruption marker', 'identical self.log(...) call in report/dump/json',
              'the interruption markers of report/dump/json differ')
    # the marker is a 'log' action: ElectionRecord.action appends log actions before touching anything else
    act = repo.func('droop.record.ElectionRecord.action')
    # (decided on the CFG: from the edge on which the tag is 'log' the function reaches its exit, appends the action on the way and
    # neither fills the header nor takes the candidate snapshot - however the branch is spelled: early return, if/else, != test)
    acfg = cfg_of(act)
    tagp = act.params[1] if len(act.params) > 1 else 'tag'
    first_if = []
    log_edge = None
    for s_ in act.own_nodes():
        if isinstance(s_, ast.If) and isinstance(s_.test, ast.Compare) and len(s_.test.ops) == 1 and isinstance(s_.test.left, ast.Name) \
                and s_.test.left.id == tagp and const_str(s_.test.comparators[0]) == 'log' and isinstance(s_.test.ops[0], (ast.Eq, ast.NotEq)):
            first_if.append(s_)
            log_edge = isinstance(s_.test.ops[0], ast.Eq)
    okl = False
    if len(first_if) == 1 and first_if[0] in acfg.of_stmt:
        tn = acfg.of_stmt[first_if[0]]
        starts = [t_ for t_, lab_ in tn.succ if lab_ is log_edge]
        reach = acfg.reach(starts, include_start=True) if starts else set()
        # when the branch is empty (`if tag != 'log': <everything else>`) the edge leads straight on
        def _txt(x):
            return unparse(x.ast) if x.kind == 'stmt' else (unparse(x.ast.test) if x.kind == 'test' else (unparse(x.ast.iter) if x.kind == 'iter' else ''))
        appends = any(x.kind == 'stmt' and "self['actions'].append" in _txt(x) for x in reach)
        heavy = any(('_fill' in _txt(x) or 'cstate' in _txt(x) or 'self.filled' in _txt(x)) for x in reach if x.kind in ('stmt', 'test', 'iter'))
        # the append must also not be preceded (before the test) by the header / snapshot work
        before = acfg.reach([acfg.entry], avoid=[tn], include_start=True)
        heavy_before = any(('_fill' in _txt(x) or 'cstate' in _txt(x)) for x in before if x.kind in ('stmt', 'test', 'iter'))
        okl = appends and not heavy and not heavy_before
    ctx.check(okl, R, first_if[0] if first_if else act.node, act, "a 'log' action needs no header and no candidate snapshot",
              "`if tag == 'log': self['actions'].append(A); return` precedes the _fill/cstate part",
              "the 'log' fast path of ElectionRecord.action is gone: logging the interruption marker may need an unfilled header")
    # intr_logged initialised in Election.__init__
    init = el.methods['__init__']
    oki = any(isinstance(s, ast.Assign) and unparse(s.targets[0]) == 'self.intr_logged' and isinstance(s.value, ast.Constant)
              and s.value.value is False for s in init.own_nodes())
    ctx.check(oki, R, init.node, init, 'intr_logged starts False', 'self.intr_logged = False in __init__',
              'intr_logged is not initialised to False')
