"""R51 no unbound name on the count path: every local is definitely assigned before each use, and every
free variable of a rule-local helper is bound in the enclosing function before the helper can be called."""
import ast
import builtins

from ..model import AnalysisError, need, unparse
from ..cfg import cfg_of, calls_at, binds_name
from .parser import _definite_assignment
from .common import rules, all_funcs_of, deriv

BUILTIN = set(dir(builtins))

COUNT_PATH_MODULES = ('droop.election', 'droop.record', 'droop.candidate', 'droop.candidates', 'droop.options',
                      'droop.values', 'droop.values.fixed', 'droop.values.guarded', 'droop.values.rational')


def _free_names(g):
    """names loaded in g (own nodes) that are neither parameters nor bound in g"""
    bound = set(g.params) | set(g.assigns().keys())
    comp = set()
    for n in g.own_nodes():
        if isinstance(n, (ast.ListComp, ast.GeneratorExp, ast.SetComp, ast.DictComp)):
            for gen in n.generators:
                for t in ast.walk(gen.target):
                    if isinstance(t, ast.Name):
                        comp.add(t.id)
        if isinstance(n, ast.Lambda):
            for a in n.args.args:
                comp.add(a.arg)
    out = {}
    for n in g.own_nodes():
        if isinstance(n, ast.Name) and isinstance(n.ctx, ast.Load) and n.id not in bound and n.id not in comp:
            out.setdefault(n.id, n)
    return out


def _module_names(m):
    out = set(m.imports)
    for st in m.tree.body:
        if isinstance(st, (ast.FunctionDef, ast.ClassDef)):
            out.add(st.name)
        elif isinstance(st, ast.Assign):
            for t in st.targets:
                for x in ast.walk(t):
                    if isinstance(x, ast.Name):
                        out.add(x.id)
        elif isinstance(st, (ast.For,)):
            for x in ast.walk(st.target):
                if isinstance(x, ast.Name):
                    out.add(x.id)
    return out


def r51_no_unbound_names(ctx):
    R = 'R51'
    repo = ctx.repo
    funcs = []
    for ri in rules(ctx):
        for m in ri.cls.mro():
            for f in m.methods.values():
                for g in all_funcs_of(f):
                    if g not in funcs:
                        funcs.append(g)
    for f in repo.funcs.values():
        if f.module.name in COUNT_PATH_MODULES and f not in funcs:
            funcs.append(f)
    n = 0
    for f in funcs:
        # (1) definite assignment of locals
        cfg = cfg_of(f)
        for name_node, at, witness in _definite_assignment(ctx, f):
            n += 1
            ctx.check(witness is None, R, name_node, f, 'local `%s` is bound on every path to this use' % name_node.id,
                      'definite assignment on the CFG', 'local `%s` can be unbound here (UnboundLocalError ends the count): path %s'
                      % (name_node.id, cfg.describe_path(witness) if witness else ''), nontrivial=False)
        # (2) free variables of nested helpers
        if f.parent is None:
            continue
        mod_names = _module_names(f.module)
        for v, node in _free_names(f).items():
            if v in BUILTIN or v in mod_names:
                continue
            # find the enclosing function that binds v
            enc = f.parent
            binder = None
            while enc is not None:
                if v in enc.params:
                    binder = (enc, 'param')
                    break
                if v in enc.assigns():
                    binder = (enc, 'assign')
                    break
                enc = enc.parent
            n += 1
            what = 'free variable `%s` of the local helper %s() is bound in the enclosing function before the helper runs' % (v, f.name)
            if binder is None:
                ctx.bad(R, node, f, what, '`%s` is not bound in any enclosing function, module or builtins: NameError when %s() runs' % (v, f.name))
                continue
            enc, kind = binder
            if kind == 'param':
                ctx.ok(R, node, f, what, 'parameter of %s' % enc.name, nontrivial=False)
                continue
            # every call of the outermost helper (child of enc on the chain to f) is preceded by a binding of v
            child = f
            while child.parent is not enc:
                child = child.parent
            ecfg = cfg_of(enc)
            binds = {x for x in ecfg.nodes if binds_name(x, v)}
            calls = {x for x in ecfg.stmt_nodes() if any(isinstance(c.func, ast.Name) and c.func.id == child.name for c in calls_at(x))}
            # helpers calling helpers: any sibling helper that (transitively) calls `child`
            sibs = {child.name}
            changed = True
            while changed:
                changed = False
                for s in enc.children.values():
                    if s.name in sibs:
                        continue
                    if any(isinstance(c, ast.Call) and isinstance(c.func, ast.Name) and c.func.id in sibs for c in s.all_nodes()):
                        sibs.add(s.name)
                        changed = True
            calls = {x for x in ecfg.stmt_nodes() if any(isinstance(c.func, ast.Name) and c.func.id in sibs for c in calls_at(x))}
            early = ecfg.reach([ecfg.entry], avoid=binds, include_start=True) & calls
            ctx.check(not early, R, node, f, what, '`%s` is assigned in %s() before every call of %s' % (v, enc.name, '/'.join(sorted(sibs))),
                      '%s() can be called (line %s) before `%s` is assigned in %s(): NameError'
                      % (f.name, sorted(x.line for x in early)[0] if early else '?', v, enc.name), nontrivial=False)
    ctx.floor(R, 'name uses checked', n, 600)


def r53_rule_interface(ctx):
    """every attribute that the election, the record or the driver reads from the rule object (E.rule.X, self.rule.X) exists for
    EVERY registered rule class: a method or class attribute somewhere in its MRO, or `self.X = ...` in its __init__/options().
    (qpq derives from the abstract ElectionRule directly, not from a method family: an attribute given to MethodWIGM and
    MethodMeek only is missing there.)"""
    R = 'R53'
    repo = ctx.repo
    reads = {}
    for f in repo.funcs.values():
        if f.module.name.startswith('droop.rules.'):
            continue
        for n in f.own_nodes():
            if isinstance(n, ast.Attribute) and isinstance(n.ctx, ast.Load):
                base = n.value
                if (isinstance(base, ast.Attribute) and base.attr == 'rule') or ctx.canon(base, f) == 'E.rule':
                    # self.rule / E.rule / self.E.rule
                    if isinstance(base, ast.Attribute) and base.attr == 'rule' and not (ctx.canon(base, f) == 'E.rule' or unparse(base) in ('self.rule', 'E.rule', 'self.E.rule')):
                        continue
                    # guarded by `if hasattr(<rule>, '<attr>')`: optional attribute
                    guarded = False
                    par, child = n.parent, n
                    while par is not None and par is not f.node:
                        if isinstance(par, ast.If) and any(child is b_ for b_ in par.body) and any(
                                isinstance(c_, ast.Call) and isinstance(c_.func, ast.Name) and c_.func.id == 'hasattr' and len(c_.args) == 2
                                and isinstance(c_.args[1], ast.Constant) and c_.args[1].value == n.attr for c_ in ast.walk(par.test)):
                            guarded = True
                        child, par = par, par.parent
                    if not guarded:
                        reads.setdefault(n.attr, []).append((f, n))
    n = 0
    for attr, sites in sorted(reads.items()):
        for ri in rules(ctx):
            n += 1
            defined = False
            for kls in ri.cls.mro():
                if attr in kls.methods or attr in kls.class_attrs:
                    defined = True
                    break
                for mname in ('__init__', 'options'):
                    m = kls.methods.get(mname)
                    if m is not None and any(isinstance(x, ast.Attribute) and isinstance(x.ctx, ast.Store) and x.attr == attr
                                             and isinstance(x.value, ast.Name) and x.value.id == 'self' for x in m.own_nodes()):
                        defined = True
                if defined:
                    break
            f0, n0 = sites[0]
            ctx.check(defined, R, n0, f0, 'the rule attribute `%s` read outside the rules exists for rule class %s' % (attr, ri.cls.qualname),
                      'defined in the MRO of %s' % ri.cls.name,
                      '%s reads rule.%s, which %s (MRO: %s) does not define: AttributeError when an election is built or rendered with rule %s'
                      % (f0.qualname, attr, ri.cls.qualname, ' -> '.join(k.name for k in ri.cls.mro()), '/'.join(ri.names)), nontrivial=False)
    ctx.floor(R, 'rule attribute x rule class pairs', n, 40)


def r56_index_in_range(ctx):
    """`for i in range(len(xs) - k)` loops of the counting rules never index past the end: every `xs[i + j]` in the body has j <= k - 1
    (and `xs[i]` needs k >= 0).  An IndexError there ends the count without a result."""
    R = 'R56'
    n = 0

    def linear(e, var):
        """e == var + j  -> j ; None otherwise"""
        if isinstance(e, ast.Name) and e.id == var:
            return 0
        if isinstance(e, ast.BinOp) and isinstance(e.op, (ast.Add, ast.Sub)) and isinstance(e.right, ast.Constant) and isinstance(e.right.value, int):
            b = linear(e.left, var)
            if b is not None:
                return b + (e.right.value if isinstance(e.op, ast.Add) else -e.right.value)
        if isinstance(e, ast.BinOp) and isinstance(e.op, ast.Add) and isinstance(e.left, ast.Constant) and isinstance(e.left.value, int):
            b = linear(e.right, var)
            if b is not None:
                return b + e.left.value
        return None
    for ri in rules(ctx):
        for g in all_funcs_of(ri.count):
            for loop in [x for x in g.own_nodes() if isinstance(x, ast.For) and isinstance(x.target, ast.Name) and isinstance(x.iter, ast.Call)
                         and unparse(x.iter.func) == 'range' and len(x.iter.args) == 1]:
                b = loop.iter.args[0]
                k = 0
                if isinstance(b, ast.BinOp) and isinstance(b.op, (ast.Sub, ast.Add)) and isinstance(b.right, ast.Constant) and isinstance(b.right.value, int):
                    k = b.right.value if isinstance(b.op, ast.Sub) else -b.right.value
                    b = b.left
                if not (isinstance(b, ast.Call) and unparse(b.func) == 'len' and len(b.args) == 1 and isinstance(b.args[0], ast.Name)):
                    continue
                xs = b.args[0].id
                var = loop.target.id
                for sub in ast.walk(loop):
                    if isinstance(sub, ast.Subscript) and isinstance(sub.value, ast.Name) and sub.value.id == xs and not isinstance(sub.slice, ast.Slice):
                        j = linear(sub.slice, var)
                        if j is None:
                            continue
                        n += 1
                        # i runs to len - k - 1, so i + j <= len - 1 exactly when j <= k
                        ctx.check(j <= k, R, sub, g, 'an index into `%s` inside `for %s in range(len(%s) - %d)` stays inside the list' % (xs, var, xs, k),
                                  '%s[%s + %d] with %s <= len(%s) - %d' % (xs, var, j, var, xs, k + 1),
                                  '`%s` can reach index len(%s) %+d: IndexError ends the count' % (unparse(sub), xs, j - k), nontrivial=False)
    ctx.floor(R, 'indexed range loops', n, 4)
