"""Shared helpers for the rule modules."""
import ast

from ..model import AnalysisError, need, call_name, const_str, unparse, get_arg
from ..cfg import cfg_of, calls_at
from ..prov import Deriv, fmt_states

STATUS_METHODS = ('elect', 'defeat', 'unpend', 'unelect')


class RuleInfo:
    def __init__(self, ctx, cls):
        self.cls = cls
        self.short = cls.module.name.rsplit('.', 1)[1]
        need('count' in cls.methods, 'rule class %s has no count()' % cls.qualname)
        self.count = cls.methods['count']
        self.cfg = cfg_of(self.count)
        self.names = ctx.repo.rule_names(cls)
        self.helpers = self.count.children          # local functions of count()
        self.method = None
        for c in cls.mro():
            v = c.class_attrs.get('method')
            if v is not None and const_str(v):
                self.method = const_str(v)
                break

    def helper(self, ctx, role):
        """rule-local helper by ROLE (the name is only a fallback), so that renaming a helper is not an analysis error:
        breakTie   the local function that consults C.byTieOrder
        transfer   the local function that walks a ballot with <param>.advance()
        calcQuota  the local function whose result is assigned to E.quota
        hasQuota   the one-parameter predicate `p.vote >(=) E.quota` used to filter C.hopeful() in an election step
        iterate    the local function called from the main loop that (transitively) elects candidates"""
        if not hasattr(self, '_roles'):
            self._roles = {}
        if role in self._roles:
            return self._roles[role]
        found = None
        hs = list(self.helpers.values())
        if role == 'breakTie':
            c = [h for h in hs if any(isinstance(n, ast.Call) and isinstance(n.func, ast.Attribute) and n.func.attr == 'byTieOrder'
                                      for n in h.own_nodes())]
            found = c[0] if len(c) == 1 else None
        elif role == 'transfer':
            c = [h for h in hs if h.params and any(isinstance(n, ast.Call) and isinstance(n.func, ast.Attribute) and n.func.attr == 'advance'
                                                   and isinstance(n.func.value, ast.Name) and n.func.value.id == h.params[0] for n in h.own_nodes())]
            found = c[0] if len(c) == 1 else None
        elif role == 'calcQuota':
            names = set()
            for g in all_funcs_of(self.count):
                for n in g.own_nodes():
                    if isinstance(n, ast.Assign) and len(n.targets) == 1 and isinstance(n.targets[0], ast.Attribute) and n.targets[0].attr == 'quota' \
                            and isinstance(n.value, ast.Call) and isinstance(n.value.func, ast.Name) and not n.value.args:
                        names.add(n.value.func.id)
            c = [h for h in hs if h.name in names]
            found = c[0] if len(c) == 1 else None
        elif role == 'hasQuota':
            used = set()
            for g in all_funcs_of(self.count):
                for n in g.own_nodes():
                    conds = []
                    if isinstance(n, (ast.ListComp, ast.GeneratorExp)):
                        for gen in n.generators:
                            conds += list(gen.ifs)
                    elif isinstance(n, ast.If):
                        conds.append(n.test)       # the filter of a loop written (or normalised) as `for c in ...: if hasQuota(c):`
                    for cond in conds:
                        for sub in ast.walk(cond):
                            if isinstance(sub, ast.Call) and isinstance(sub.func, ast.Name) and len(sub.args) == 1:
                                used.add(sub.func.id)
            c = [h for h in hs if h.name in used and len(h.params) == 1 and any(
                isinstance(r, ast.Return) and isinstance(r.value, ast.Compare) and 'quota' in unparse(r.value) for r in h.own_nodes())]
            if len(c) > 1:
                # several tally predicates (cfer: hasQuota and hasSurplus): the election filter is the one guarding an elect call
                def guards_elect(h):
                    for g in all_funcs_of(self.count):
                        for n in g.own_nodes():
                            if isinstance(n, ast.If) and any(isinstance(x, ast.Call) and isinstance(x.func, ast.Name) and x.func.id == h.name for x in ast.walk(n.test)) \
                                    and any(isinstance(x, ast.Call) and isinstance(x.func, ast.Attribute) and x.func.attr == 'elect' for b_ in n.body for x in ast.walk(b_)):
                                return True
                    return False
                c2 = [h for h in c if guards_elect(h)]
                c = c2 or c
            found = c[0] if len(c) == 1 else None
        elif role == 'iterate':
            loop = self.main_loop()
            called = set(n.func.id for n in ast.walk(loop) if isinstance(n, ast.Call) and isinstance(n.func, ast.Name))
            c = [h for h in hs if h.name in called and 'elect' in effects(ctx, h)]
            found = c[0] if len(c) == 1 else None
        if found is None:
            fallback = {'iterate': ['iterate', 'iterateStep']}.get(role, [role])
            for nm in fallback:
                if nm in self.helpers:
                    found = self.helpers[nm]
                    break
        self._roles[role] = found
        return found

    def main_loops(self):
        return [st for st in self.count.node.body if isinstance(st, ast.While)]

    def main_loop(self):
        ls = self.main_loops()
        need(len(ls) == 1, '%s.count(): expected exactly one top-level while loop, found %d'
             % (self.cls.qualname, len(ls)))
        return ls[0]


def rules(ctx):
    if not hasattr(ctx, '_rules'):
        cs = ctx.repo.rule_classes()
        ctx._rules = [RuleInfo(ctx, c) for c in cs]
        ctx.counts['rule_classes'] = len(cs)
        if len(cs) < 8:
            raise AnalysisError('only %d rule classes found (floor 8)' % len(cs))
    return ctx._rules


def deriv(ctx):
    if not hasattr(ctx, '_deriv'):
        ctx._deriv = Deriv(ctx)
    return ctx._deriv


def all_funcs_of(func):
    """func and all nested functions"""
    out = [func]
    for c in func.children.values():
        out += all_funcs_of(c)
    return out


def attr_calls(func, names, own=True):
    """Call nodes `X.<name>(...)` in func (own body, or incl. nested when own=False)"""
    nodes = func.own_nodes() if own else func.all_nodes()
    return [n for n in nodes if isinstance(n, ast.Call) and isinstance(n.func, ast.Attribute)
            and n.func.attr in names]


def name_calls(func, names, own=True):
    nodes = func.own_nodes() if own else func.all_nodes()
    return [n for n in nodes if isinstance(n, ast.Call) and isinstance(n.func, ast.Name)
            and n.func.id in names]


def cfg_node_of(ctx, func, node):
    """CFG node at which the expression `node` is evaluated"""
    cfg = cfg_of(func)
    n = node
    child = None
    while n is not None:
        if isinstance(n, ast.stmt):
            if n in cfg.of_stmt:
                return cfg.of_stmt[n]
            raise AnalysisError('no CFG node for statement at %s' % ctx.repo.loc(n))
        child = n
        n = getattr(n, 'parent', None)
    raise AnalysisError('expression without statement')


def effects(ctx, func, _seen=None):
    """status methods this function may call, directly or through local helper functions"""
    _seen = _seen or set()
    if func.qualname in _seen:
        return set()
    _seen.add(func.qualname)
    out = set()
    for n in func.own_nodes():
        if isinstance(n, ast.Call):
            kind, recv, nm = call_name(n)
            if kind == 'attr' and nm in STATUS_METHODS:
                out.add(nm)
            elif kind == 'name':
                callee = deriv(ctx).local_func(nm, func)
                if callee is not None:
                    out |= effects(ctx, callee, _seen)
    return out


def helper_any(ctx, func, pred, _seen=None):
    """does pred(node, g) hold for some own node of func or of a rule-local helper it (transitively) calls?"""
    _seen = _seen if _seen is not None else set()
    if func.qualname in _seen:
        return False
    _seen.add(func.qualname)
    for n in func.own_nodes():
        if pred(n, func):
            return True
        if isinstance(n, ast.Call) and isinstance(n.func, ast.Name):
            callee = deriv(ctx).local_func(n.func.id, func)
            if callee is not None and helper_any(ctx, callee, pred, _seen):
                return True
    return False


def calls_local_helper(ctx, func, cfgnode, pred):
    """does this CFG node call a rule-local helper h with helper_any(h, pred)?"""
    for c in calls_at(cfgnode):
        if isinstance(c.func, ast.Name):
            callee = deriv(ctx).local_func(c.func.id, func)
            if callee is not None and helper_any(ctx, callee, pred):
                return True
    return False


def node_effects(ctx, func, cfgnode):
    """status methods possibly invoked when this CFG node executes"""
    out = set()
    for c in calls_at(cfgnode):
        kind, recv, nm = call_name(c)
        if kind == 'attr' and nm in STATUS_METHODS:
            out.add(nm)
        elif kind == 'name':
            callee = deriv(ctx).local_func(nm, func)
            if callee is not None:
                out |= effects(ctx, callee)
    return out


def direct_status_calls(cfgnode):
    out = []
    for c in calls_at(cfgnode):
        kind, recv, nm = call_name(c)
        if kind == 'attr' and nm in STATUS_METHODS:
            out.append((nm, c))
    return out


def is_selector_call(ctx, func, e, sel=None):
    """`C.<sel>(...)` with C resolving to E.C"""
    if isinstance(e, ast.Call):
        kind, recv, nm = call_name(e)
        if kind == 'attr' and ctx.canon(recv, func) == 'E.C' and nm in deriv(ctx).selectors:
            return nm if sel is None else (nm == sel)
    if isinstance(e, ast.Name) and isinstance(e.ctx, ast.Load) and hasattr(e, 'parent'):
        v = _fresh_selector_local(ctx, func, e)
        if v is not None:
            return is_selector_call(ctx, func, v, sel)
    return None if sel is None else False


def _fresh_selector_local(ctx, func, name_node):
    """`xs = C.hopeful()` ... `for c in xs:` - the selector call a local stands for, when the local is bound once, by that call, and no
    statement that changes a candidate's status (or calls a local helper that does) lies on a path from the binding to this use:
    the list is then what the call would return here."""
    if not hasattr(func, 'assigns'):
        return None
    defs = func.assigns().get(name_node.id, [])
    if len(defs) != 1 or name_node.id in func.params:
        return None
    val, dst = defs[0]
    if not (isinstance(val, ast.Call) and isinstance(dst, ast.Assign) and dst.value is val):
        return None
    kind, recv, nm = call_name(val)
    if not (kind == 'attr' and ctx.canon(recv, func) == 'E.C' and nm in deriv(ctx).selectors):
        return None
    from ..cfg import cfg_of as _cfg_of
    cfg = _cfg_of(func)
    st = name_node
    while st is not None and st not in cfg.of_stmt:
        st = getattr(st, 'parent', None)
    if st is None or dst not in cfg.of_stmt:
        return None
    dn, un = cfg.of_stmt[dst], cfg.of_stmt[st]
    fwd = cfg.reach([dn], avoid=[un, dn])
    # nodes from which the use is reachable without passing the binding again
    pred = {}
    for x in cfg.nodes:
        for t, lab in x.succ:
            pred.setdefault(t, []).append(x)
    back, work = set(), [un]
    while work:
        x = work.pop()
        for p_ in pred.get(x, []):
            if p_ not in back and p_ is not un and p_ is not dn:
                back.add(p_)
                work.append(p_)
    between = (fwd & back) - {dn}
    # is the use evaluated again without the local being re-bound (an enclosing loop that does not contain the binding)?  The
    # iterable of a `for` is evaluated once per execution of the statement: its own back edge is not a re-evaluation.
    own_for = isinstance(st, ast.For) and st.iter is name_node
    starts = [t for t, lab in un.succ if (lab is False if own_for else lab != 'exc')]
    again = cfg.reach(starts, avoid=[dn], include_start=True)
    if un in again:
        between |= {x for x in again if x in back or x is un} - {un}
        if own_for:
            between |= {x for x in cfg.nodes_in(st) if x is not un}
    for x in between:
        if node_effects(ctx, func, x):
            return None
    return val


def strip_sorters(ctx, func, e):
    """C.byBallotOrder(X) / sorted(X) / list(X) -> X"""
    d = deriv(ctx)
    while isinstance(e, ast.Call):
        kind, recv, nm = call_name(e)
        if kind == 'attr' and nm in d.sorters and ctx.canon(recv, func) == 'E.C' and e.args:
            e = e.args[0]
        elif kind == 'name' and nm in ('sorted', 'list', 'reversed', 'tuple') and e.args:
            e = e.args[0]
        else:
            break
    return e


# ---------------------------------------------------------------------------
# canonical text: aliases replaced by their access path, remaining locals by placeholders
# ---------------------------------------------------------------------------

def _subst_paths(ctx, f, orig, cp):
    """walk orig and its clean copy cp in parallel; where an expression of orig resolves to a canonical access path
    (E, E.C, E.V0, E.quota, ...) replace the corresponding node of cp by that path"""
    if isinstance(orig, (ast.Name, ast.Attribute)) and isinstance(getattr(orig, 'ctx', None), ast.Load):
        p = ctx.canon(orig, f)
        if p and (p == 'E' or p.startswith('E.')):
            return ast.parse(p, mode='eval').body
    for fld, ov in ast.iter_fields(orig):
        cv = getattr(cp, fld, None)
        if isinstance(ov, ast.AST) and isinstance(cv, ast.AST):
            setattr(cp, fld, _subst_paths(ctx, f, ov, cv))
        elif isinstance(ov, list) and isinstance(cv, list) and len(ov) == len(cv):
            for i, (o_, c_) in enumerate(zip(ov, cv)):
                if isinstance(o_, ast.AST) and isinstance(c_, ast.AST):
                    cv[i] = _subst_paths(ctx, f, o_, c_)
    return cp


def ctext(ctx, f, node):
    """text of an expression/statement of f that is insensitive to the spelling of locals: every sub-expression that
    resolves to a canonical access path (an alias such as `V0`, `C`, or `self.E.quota`) is replaced by the path, every
    other local / comprehension variable by a placeholder numbered in order of first occurrence"""
    from ..model import alpha_texts, func_chain, _bound_names
    src = ast.unparse(node)
    cp = ast.parse(src).body[0]
    if isinstance(node, ast.expr):
        cp = cp.value
    cp = _subst_paths(ctx, f, node, cp)
    ast.fix_missing_locations(cp)
    names = set()
    for fn in func_chain(f):
        names |= _bound_names(fn)
    names -= {'E', 'self', 'cls'}
    return alpha_texts([cp], [], extra_names=names, drop_docstring=False)[0]


def ctext_ref(src, locals_=()):
    """the same normal form for a reference fragment written with canonical paths (`E.C.hopeful()`, `E.V0`);
    locals_ names the free locals of the fragment"""
    from ..model import alpha_texts
    t = ast.parse(src).body[0]
    if isinstance(t, ast.Expr):
        t = t.value
    return alpha_texts([t], [], extra_names=set(locals_), drop_docstring=False)[0]


def loop_var(for_node):
    return for_node.target.id if isinstance(for_node.target, ast.Name) else None


def body_always_calls(ctx, func, for_node, methods):
    """every path through the body of `for v in ...` (from body entry back to the head, or out
    through break/return) passes a call v.<m>(...) with m in methods"""
    cfg = cfg_of(func)
    head = cfg.of_stmt[for_node]
    v = loop_var(for_node)
    if v is None:
        return False
    hits = set()
    for n in cfg.nodes_in(for_node):
        for nm, c in direct_status_calls(n):
            if nm in methods and isinstance(c.func.value, ast.Name) and c.func.value.id == v:
                # the receiver must be this loop's variable (not an inner loop's)
                b, _ = deriv(ctx).for_binding(c.func.value)
                if b is for_node:
                    hits.add(n)
    if not hits:
        return False
    # from the body entry, can we come back to head (or leave the loop) avoiding hits?
    body_entries = [t for t, lab in head.succ if lab is True]
    inside = cfg.nodes_in(for_node)
    for be in body_entries:
        if be in hits:
            continue
        r = cfg.reach([be], avoid=hits, include_start=True)
        if head in r:
            return False
        if any(x not in inside for x in r):
            return False
    return True


def stmt_text(node):
    return ' '.join(unparse(node).split())[:160]
