"""R47 definite reset of class-level arithmetic configuration, R48 no other process-global writer,
R49 per-election objects / no shared mutable state."""
import ast

from ..model import AnalysisError, need, call_name, const_str, unparse
from ..cfg import cfg_of
from .common import stmt_text
from .optionrules import rule_ctor_names

VALUE_CLASSES = ['droop.values.fixed.Fixed', 'droop.values.guarded.Guarded', 'droop.values.rational.Rational']

MUTATORS = ('append', 'extend', 'insert', 'add', 'update', 'setdefault', 'pop', 'popitem', 'clear', 'remove',
            'discard', 'sort', 'reverse', '__setitem__', '__delitem__')


def _class_ref(ctx, f, expr, cls):
    """is expr a reference to the class object `cls` from inside function f?"""
    if isinstance(expr, ast.Name):
        if expr.id == 'cls' and f is not None and (f.is_classmethod or f.name == '__new__') and f.owner_class is cls:
            return True
        if expr.id == cls.name and f is not None and f.module is cls.module:
            return True
    return False


def _self_ref(f, expr, cls):
    return isinstance(expr, ast.Name) and expr.id == 'self' and f is not None and f.owner_class is cls \
        and not f.is_classmethod and not f.is_staticmethod


def class_attr_uses(ctx, cls):
    """(stores, loads) of class-level attributes of cls inside cls's own methods.
    stores: attr -> [(func, node)] for `cls.A = ...` / `Cls.A = ...`
    loads:  attr -> [(func, node)] for cls.A / Cls.A / self.A (self.A falls through to the class
            attribute because the value classes have __slots__ = ('_value',) or are Fraction)"""
    stores, loads = {}, {}
    for f in ctx.repo.funcs.values():
        if f.owner_class is not cls and f.module is not cls.module:
            continue
        for n in f.own_nodes():
            if not isinstance(n, ast.Attribute):
                continue
            is_cls = _class_ref(ctx, f, n.value, cls)
            is_self = _self_ref(f, n.value, cls)
            if not (is_cls or is_self):
                continue
            attr = cls.mangle(n.attr) if f.owner_class is cls else n.attr
            if isinstance(n.ctx, (ast.Store, ast.Del)):
                if is_cls:
                    stores.setdefault(attr, []).append((f, n))
                elif attr != '_value':
                    stores.setdefault(attr, []).append((f, n))     # self.A = ... on a slotted class: error anyway
            else:
                loads.setdefault(attr, []).append((f, n))
    return stores, loads


def external_class_attr_loads(ctx):
    """attributes of the arithmetic class read from other modules: V.<a>, E.V.<a>, self.E.V.<a>"""
    out = {}
    for f in ctx.repo.funcs.values():
        if f.module.name.startswith('droop.values'):
            continue
        for n in f.own_nodes():
            if isinstance(n, ast.Attribute) and isinstance(n.ctx, ast.Load):
                if ctx.canon(n.value, f) == 'E.V':
                    out.setdefault(n.attr, []).append((f, n))
    return out


def _cmp_key(ctx, f, cls, test, negate=False):
    """normalise `cls.a <op> cls.b|const` to (a, op, b) with class prefixes stripped"""
    if isinstance(test, ast.UnaryOp) and isinstance(test.op, ast.Not):
        return _cmp_key(ctx, f, cls, test.operand, not negate)
    if isinstance(test, ast.Attribute) and (_class_ref(ctx, f, test.value, cls) or _self_ref(f, test.value, cls)):
        return (test.attr, 'Eq' if negate else 'NotEq', '0')       # truthiness of a numeric class attribute
    if not (isinstance(test, ast.Compare) and len(test.ops) == 1):
        return None

    def side(e):
        if isinstance(e, ast.Attribute) and (_class_ref(ctx, f, e.value, cls) or _self_ref(f, e.value, cls)):
            return e.attr
        if isinstance(e, ast.Constant):
            return repr(e.value)
        return None
    a, b = side(test.left), side(test.comparators[0])
    if a is None or b is None:
        return None
    op = type(test.ops[0])
    neg = {ast.Gt: ast.LtE, ast.LtE: ast.Gt, ast.Lt: ast.GtE, ast.GtE: ast.Lt, ast.Eq: ast.NotEq, ast.NotEq: ast.Eq}
    if negate:
        op = neg.get(op)
    # counters are non-negative integers: x > 0, x >= 1 and x != 0 are one condition, and so are x == 0, x <= 0, x < 1
    if (op, b) in ((ast.Gt, '0'), (ast.GtE, '1')):
        op = ast.NotEq
        b = '0'
    if (op, b) in ((ast.LtE, '0'), (ast.Lt, '1')):
        op = ast.Eq
        b = '0'
    return (a, op.__name__ if op else None, b)


def _guards_of(ctx, f, cls, node):
    """normalised conditions of the if-statements lexically enclosing node (within f)"""
    out = []
    child = node
    n = getattr(node, 'parent', None)
    while n is not None and n is not f.node:
        if isinstance(n, ast.If):
            if any(child is b for b in n.body):
                out.append(_cmp_key(ctx, f, cls, n.test, False))
            elif any(child is b for b in n.orelse):
                out.append(_cmp_key(ctx, f, cls, n.test, True))
        child = n
        n = getattr(n, 'parent', None)
    return [g for g in out if g is not None]


def r47_definite_reset(ctx):
    R = 'R47'
    total = 0
    ext_loads = external_class_attr_loads(ctx)
    for qn in VALUE_CLASSES:
        cls = ctx.repo.cls(qn)
        init = cls.methods.get('initialize')
        need(init is not None, '%s.initialize missing' % qn)
        need(init.is_classmethod, '%s.initialize is not a classmethod' % qn)
        cfg = cfg_of(init)
        stores, loads = class_attr_uses(ctx, cls)
        # loads from other modules count as loads of the public attributes
        for a, sites in ext_loads.items():
            if a in stores or a in cls.class_attrs:
                loads.setdefault(a, []).extend(sites)
        method_names = set()
        for c in cls.mro():
            method_names |= set(c.methods)
        for attr in sorted(loads):
            if attr in method_names or attr == '_value' or (attr.startswith('__') and attr.endswith('__')):
                continue
            if attr in ('numerator', 'denominator'):
                continue
            total += 1
            sts = stores.get(attr, [])
            anchor = loads[attr][0][1]
            anchor_f = loads[attr][0][0]
            what = 'class attribute %s.%s read by the arithmetic is re-established by initialize() on every path' \
                   % (cls.name, attr)
            if not sts:
                defined = cls.find_attr(attr) is not None or cls.find_attr(_unmangle(cls, attr)) is not None
                ctx.check(defined, R, anchor, anchor_f, what,
                          'never stored by any method: a class-body constant', 'attribute %s is loaded but never '
                          'defined in class %s' % (attr, cls.name), nontrivial=False)
                continue
            init_stores = [n for f, n in sts if f is init]
            other_stores = [(f, n) for f, n in sts if f is not init]
            store_nodes = set()
            for n in init_stores:
                st = ctx.repo.enclosing_stmt(n)
                if st in cfg.of_stmt:
                    store_nodes.add(cfg.of_stmt[st])
            definite = bool(store_nodes) and cfg.exit not in cfg.reach([cfg.entry], avoid=store_nodes, include_start=True)
            if definite:
                ctx.ok(R, anchor, anchor_f, what,
                       'definite assignment on the CFG of initialize(): every path to its normal exit passes a store at '
                       'line(s) %s' % ','.join(sorted(set(str(n.lineno) for n in init_stores))))
            else:
                # (iii) conditionally stored, and every load is under the same condition
                sguards = [_guards_of(ctx, init, cls, n) for n in init_stores]
                paired = False
                if init_stores and all(g for g in sguards):
                    conds = set(tuple(g) for g in sguards)
                    if len(conds) == 1:
                        cond = list(conds)[0]
                        lguards = [(_guards_of(ctx, f, cls, n) if f.owner_class is cls else None) for f, n in loads[attr]]
                        inside = [lg for lg in lguards if lg is not None]
                        outside = [1 for lg in lguards if lg is None]
                        if all(any(c in lg for c in cond) for lg in inside):
                            paired = True
                            if attr == 'epsilon' or outside:
                                # consumers in the rules: guarded by `not V.exact` (rule R13c); here: the
                                # branch that stores epsilon also stores exact = False and the other stores True
                                paired = _exact_paired(ctx, cls, init, init_stores)
                if not paired and attr == 'epsilon' and init_stores and qn.endswith('Guarded') \
                        and not [1 for f_, n_ in loads[attr] if f_.owner_class is cls and f_ is not init]:
                    # decided by cases: epsilon is (re)created exactly when initialize() declares the arithmetic inexact (guard == 0),
                    # and the consumers read it only under `not V.exact` (checked below for every rule)
                    from .values import guard_cases
                    z_, nz_ = guard_cases(init, cls.name)
                    if z_.get('eps') and not nz_.get('eps') and z_.get('exact') == {False} and nz_.get('exact') == {True}:
                        paired = True
                        conds = {(('guard', 'Eq', '0'),)}
                if paired:
                    ctx.ok(R, anchor, anchor_f, what,
                           'stored under a condition that also guards every load inside the class (paired guard %s)'
                           % (list(conds)[0],))
                elif qn.endswith('Rational') and attr == cls.mangle('__default_denominator'):
                    ctx.ok(R, anchor, anchor_f, what,
                           'exception (one symbol): set from a property of the interpreter (does Fraction accept '
                           'denominator=None), not of any election; the value is the same for every election of the process',
                           nontrivial=False)
                else:
                    p = cfg.find_path(cfg.entry, cfg.exit, avoid=store_nodes)
                    ctx.bad(R, init.node, init, what,
                            'initialize() can return without assigning %s.%s (path %s), so a value left by an earlier '
                            'election survives' % (cls.name, attr, cfg.describe_path(p) if p else '?'))
            for f, n in other_stores:
                ctx.check(definite, R, n, f, 'class attribute %s.%s written outside initialize() is reset by initialize()'
                          % (cls.name, attr), 'statistic reset unconditionally by initialize()',
                          '%s.%s is written in %s but initialize() does not reset it on every path'
                          % (cls.name, attr, f.qualname))
        # attributes stored outside initialize but never loaded in-class are still state (report())
        for attr, sts in stores.items():
            if attr in loads:
                continue
            for f, n in sts:
                if f is not init:
                    ctx.bad(R, n, f, 'class-level state of %s is written only where initialize() resets it' % cls.name,
                            'store to %s.%s outside initialize() and never reset' % (cls.name, attr))
    ctx.floor(R, 'class attributes loaded', total, 30)
    # the consumers of the one conditionally assigned public attribute (epsilon) outside the classes: the rules
    from .quota import epsilon_reads
    from .values import _forced_arithmetic
    from .common import rules as _rules
    for ri in _rules(ctx):
        epsilon_reads(ctx, R, ri, _forced_arithmetic(ctx, ri))


def _unmangle(cls, attr):
    pre = '_' + cls.name.lstrip('_')
    return attr[len(pre):] if attr.startswith(pre + '__') else attr


def _exact_paired(ctx, cls, init, eps_stores):
    """the if-branch that stores epsilon stores exact=False; the complementary branch exact=True"""
    for n in eps_stores:
        st = ctx.repo.enclosing_stmt(n)
        par = getattr(st, 'parent', None)
        if not isinstance(par, ast.If):
            return False

        def exact_val(body):
            for s in body:
                if isinstance(s, ast.Assign) and isinstance(s.targets[0], ast.Attribute) and s.targets[0].attr == 'exact' \
                        and isinstance(s.value, ast.Constant):
                    return s.value.value
            return None
        mine = par.body if any(st is b for b in par.body) else par.orelse
        other = par.orelse if mine is par.body else par.body
        if exact_val(mine) is not False or exact_val(other) is not True:
            return False
    return True


# ---------------------------------------------------------------------------
# R48
# ---------------------------------------------------------------------------

def _module_level_names(m):
    """module-level bindings: name -> value node (Assign), plus imported names"""
    out = {}
    for st in m.tree.body:
        if isinstance(st, ast.Assign):
            for t in st.targets:
                if isinstance(t, ast.Name):
                    out[t.id] = st.value
        elif isinstance(st, ast.AnnAssign) and isinstance(st.target, ast.Name) and st.value is not None:
            out[st.target.id] = st.value
    return out


def _is_mutable_ctor(v):
    if isinstance(v, (ast.List, ast.Dict, ast.Set, ast.ListComp, ast.DictComp, ast.SetComp)):
        return True
    if isinstance(v, ast.Call) and isinstance(v.func, ast.Name) and v.func.id in ('list', 'dict', 'set', 'bytearray',
                                                                                 'defaultdict', 'OrderedDict', 'Counter'):
        return True
    return False


def r48_no_global_writer(ctx, extra_modules=None):
    R = 'R48'
    repo = ctx.repo
    n_funcs = 0
    value_cls = [repo.cls(q) for q in VALUE_CLASSES]
    MEMO = ('lru_cache', 'cache', 'cached_property', 'memoize', 'memoized', 'singledispatch')

    def _is_global_setter(call):
        fn_ = unparse(call.func)
        return fn_ in GLOBAL_SETTERS or (fn_.startswith('sys.set') and fn_ != 'sys.settrace') or fn_.startswith('os.environ.') \
            or fn_.endswith('.setlocale') or fn_ in ('os.putenv', 'os.unsetenv')
    for m in repo.modules.values():
        mod_names = _module_level_names(m)
        # import-time code (module level, class bodies): the same interpreter-wide setters
        if m.name.startswith('droop'):
            for n in ast.walk(m.tree):
                if isinstance(n, ast.Call) and _is_global_setter(n) and repo.enclosing_func(n) is None:
                    ctx.bad(R, n, m.name, 'no function changes an interpreter-wide setting',
                            '`%s` at import time changes a process-global setting for everything that runs afterwards (the reader relies on the '
                            'default int <-> str digit limit to reject absurd numbers promptly)' % unparse(n)[:80])
        for f in [g for g in repo.funcs.values() if g.module is m]:
            n_funcs += 1
            # a memoising decorator is a process-wide table keyed by the arguments: what the function returns for an argument
            # seen before is what it returned then (a ballot file read again after it changed, a value printed under another
            # display setting), whatever happened in between
            for d in f.node.decorator_list:
                nm = unparse(d.func if isinstance(d, ast.Call) else d).split('.')[-1]
                if nm in MEMO:
                    ctx.bad(R, d, f, 'no function keeps results from earlier calls (memoisation is process-global state)',
                            '@%s on %s: results survive from one election / one file read to the next' % (unparse(d), f.qualname))
            local_names = set(f.params)
            g = f
            while g is not None:
                local_names |= set(g.assigns().keys()) | set(g.params)
                g = g.parent
            for n in f.own_nodes():
                if isinstance(n, ast.Global):
                    ctx.bad(R, n, f, 'no function rebinds a module-level name', '`global %s`' % ', '.join(n.names))
                # interpreter-wide settings (they outlive the election that changed them, and the reader / the arithmetic rely on
                # the defaults: the int <-> str digit limit is what turns an absurd number in a ballot file into a profile error)
                if isinstance(n, ast.Call):
                    fn_ = unparse(n.func)
                    if fn_ in GLOBAL_SETTERS or (fn_.startswith('sys.set') and fn_ != 'sys.settrace') or fn_.startswith('os.environ.') \
                            or fn_.endswith('.setlocale') or fn_ in ('os.putenv', 'os.unsetenv'):
                        ctx.bad(R, n, f, 'no function changes an interpreter-wide setting',
                                '`%s` changes a process-global setting that nothing restores: later elections (and file reads) in the process '
                                'run under it' % unparse(n)[:80])
                if isinstance(n, ast.Subscript) and isinstance(n.ctx, (ast.Store, ast.Del)) and unparse(n.value) == 'os.environ':
                    ctx.bad(R, n, f, 'no function changes an interpreter-wide setting', 'store into os.environ')
                # stores through attribute of a class object / module
                if isinstance(n, ast.Attribute) and isinstance(n.ctx, (ast.Store, ast.Del)):
                    base = n.value
                    if isinstance(base, ast.Name):
                        tgt_cls = None
                        if base.id == 'cls' and f.is_classmethod:
                            tgt_cls = f.owner_class
                        elif base.id not in local_names:
                            tgt_cls = repo.resolve_class_expr(base, m)
                            if tgt_cls is None and base.id in m.imports:
                                ctx.bad(R, n, f, 'no function stores into a module or class object',
                                        'store to attribute of imported object: %s' % stmt_text(repo.enclosing_stmt(n)))
                                continue
                        if tgt_cls is not None:
                            if tgt_cls in value_cls and (f.owner_class is tgt_cls):
                                continue      # R47's business
                            ctx.bad(R, n, f, 'no function stores into a module or class object',
                                    'store to class attribute %s.%s from %s' % (tgt_cls.name, n.attr, f.qualname))
                    elif isinstance(base, ast.Attribute):
                        # module.attr.x = ... / pkg.Class.attr = ...
                        c = repo.resolve_class_expr(base, m)
                        if c is not None:
                            ctx.bad(R, n, f, 'no function stores into a module or class object',
                                    'store to class attribute %s.%s' % (c.name, n.attr))
                # mutation of module-level mutable objects / class-level mutable objects
                tgt = None
                how = None
                if isinstance(n, ast.Subscript) and isinstance(n.ctx, (ast.Store, ast.Del)):
                    tgt, how = n.value, 'item store'
                elif isinstance(n, ast.Call) and isinstance(n.func, ast.Attribute) and n.func.attr in MUTATORS:
                    tgt, how = n.func.value, '.%s()' % n.func.attr
                elif isinstance(n, ast.AugAssign) and isinstance(n.target, (ast.Name,)):
                    pass
                if tgt is not None:
                    if isinstance(tgt, ast.Name) and tgt.id not in local_names:
                        if tgt.id in mod_names or tgt.id in m.imports:
                            ctx.bad(R, n, f, 'module-level objects are not mutated after import',
                                    '%s on module-level/imported object `%s`' % (how, tgt.id))
                    elif isinstance(tgt, ast.Attribute) and isinstance(tgt.value, ast.Name):
                        b = tgt.value
                        oc = f.owner_class
                        c = None
                        if b.id in ('self', 'cls') and oc is not None:
                            c = oc
                        elif b.id not in local_names:
                            c = repo.resolve_class_expr(b, m)
                            if c is None and b.id in m.imports and b.id not in ('self',):
                                # module.NAME.mutate()
                                tm = repo.modules.get(m.imports[b.id])
                                if tm is not None and tgt.attr in _module_level_names(tm):
                                    ctx.bad(R, n, f, 'module-level objects are not mutated after import',
                                            '%s on %s.%s' % (how, b.id, tgt.attr))
                        if c is not None:
                            v = c.find_attr(tgt.attr)
                            assigned_on_self = False
                            if b.id == 'self':
                                for mm in c.mro():
                                    for mf in mm.methods.values():
                                        for x in mf.own_nodes():
                                            if isinstance(x, ast.Attribute) and isinstance(x.ctx, ast.Store) \
                                                    and x.attr == tgt.attr and isinstance(x.value, ast.Name) and x.value.id == 'self':
                                                assigned_on_self = True
                            if v is not None and _is_mutable_ctor(v) and not assigned_on_self:
                                ctx.bad(R, n, f, 'class-level mutable objects are not mutated (shared by every election)',
                                        '%s on class-level object %s.%s' % (how, c.name, tgt.attr))
    # module-level mutable objects: list them, and check that the registry is only written at import time
    inventory = []
    for m in repo.modules.values():
        for nm, v in _module_level_names(m).items():
            if _is_mutable_ctor(v):
                inventory.append('%s.%s' % (m.name, nm))
    ctx.ok(R, None, 'package', 'inventory of module-level mutable objects', 'mutable module-level objects: %s; none is '
           'mutated from inside a function (the registry droop.ruleByName/ruleClasses is filled by module-level code at '
           'import time)' % (', '.join(sorted(inventory)) or 'none'), nontrivial=False)
    ctx.floor(R, 'functions scanned', n_funcs, 250)
    # dynamic features that could hide a global write
    for m in repo.modules.values():
        for n in ast.walk(m.tree):
            if isinstance(n, ast.Call) and isinstance(n.func, ast.Name) and n.func.id in ('exec', 'eval', 'globals', 'vars',
                                                                                          '__import__', 'setattr', 'delattr'):
                f = repo.enclosing_func(n)
                key = (m.name, n.func.id)
                allowed = {
                    ('Droop', 'globals'): 'cProfile.runctx(..., globals(), locals(), ...) in the CLI profiling option, read-only use',
                    ('droop', '__import__'): 'import of every rule module at package import time (module-level code)',
                    ('droop.values.rational', 'setattr'): '_wrap_method installs wrapped Fraction dunders on Rational at '
                                                          'import time; the helper is deleted afterwards',
                }
                if key in allowed:
                    ctx.ok(R, n, f or m.name, 'dynamic features cannot hide a global write', 'exception (one symbol): '
                           + allowed[key], nontrivial=False)
                else:
                    ctx.bad(R, n, f or m.name, 'dynamic features cannot hide a global write',
                            'use of %s() - a store hidden behind it cannot be analysed' % n.func.id)
    # the wrap helper runs only at import time
    rm = repo.module('droop.values.rational')
    dels = [st for st in rm.tree.body if isinstance(st, ast.Delete) and any(isinstance(t, ast.Name) and t.id == '_wrap_method'
                                                                             for t in st.targets)]
    wf = repo.funcs.get('droop.values.rational._wrap_method')
    if wf is not None:
        ctx.check(bool(dels), R, wf.node, wf, 'rational._wrap_method (setattr on the class) cannot run after import',
                  '`del _wrap_method` at module level', '_wrap_method stays callable after import')


# ---------------------------------------------------------------------------
# R49
# ---------------------------------------------------------------------------

GLOBAL_SETTERS = ('os.chdir', 'os.umask', 'random.seed', 'signal.signal', 'signal.setitimer', 'warnings.filterwarnings', 'warnings.simplefilter',
                  'locale.setlocale', 'decimal.setcontext', 'gc.disable', 'gc.enable', 'gc.set_threshold', 'threading.setprofile', 'threading.settrace',
                  'faulthandler.enable', 'atexit.register', 'sys.setrecursionlimit', 'sys.set_int_max_str_digits', 'sys.setswitchinterval')
PASSTHROUGH = ('sorted', 'list', 'tuple', 'reversed', 'iter', 'next', 'zip', 'enumerate', 'max', 'min', 'filter')
PASS_METHODS = ('get', 'setdefault', 'pop', 'values', 'items', 'copy')


def _root_name(e):
    while isinstance(e, (ast.Attribute, ast.Subscript, ast.Call)):
        e = e.func if isinstance(e, ast.Call) else e.value
    return e.id if isinstance(e, ast.Name) else '?'


def _rooted_in(ctx, f, e, tainted):
    """is e an access path (attribute / item / passthrough call chain) that starts at the profile or at a name holding profile objects?"""
    p = ctx.canon(e, f) or ''
    if p.startswith('E.electionProfile') or p.startswith('electionProfile'):
        return True
    if isinstance(e, ast.Name):
        return e.id in tainted
    if isinstance(e, ast.Attribute):
        if e.attr == 'electionProfile':
            return True
        return _rooted_in(ctx, f, e.value, tainted)
    if isinstance(e, ast.Subscript):
        return _rooted_in(ctx, f, e.value, tainted)
    if isinstance(e, ast.Call):
        if isinstance(e.func, ast.Name) and e.func.id in PASSTHROUGH:
            return any(_rooted_in(ctx, f, a, tainted) for a in e.args)
        if isinstance(e.func, ast.Attribute) and e.func.attr in PASS_METHODS:
            return _rooted_in(ctx, f, e.func.value, tainted)
        return False
    if isinstance(e, (ast.IfExp,)):
        return _rooted_in(ctx, f, e.body, tainted) or _rooted_in(ctx, f, e.orelse, tainted)
    if isinstance(e, ast.BoolOp):
        return any(_rooted_in(ctx, f, v, tainted) for v in e.values)
    if isinstance(e, (ast.ListComp, ast.GeneratorExp, ast.SetComp)):
        return False
    return False


def _profile_aliases(ctx, f):
    """(names of f that may hold an object belonging to the election profile, names bound to a container built in f)"""
    tainted = set(p for p in f.params if p == 'electionProfile')
    # a local helper whose parameter is handed a profile object by its enclosing function
    if f.parent is not None:
        pt, _pf = _profile_aliases(ctx, f.parent)
        for c in f.parent.all_nodes():
            if isinstance(c, ast.Call) and isinstance(c.func, ast.Name) and c.func.id == f.name:
                caller = ctx.repo.enclosing_func(c)
                ct = pt if caller is f.parent else (_profile_aliases(ctx, caller)[0] if caller is not f else set())
                for i, a in enumerate(c.args):
                    if i < len(f.params) and _rooted_in(ctx, caller, a, ct):
                        tainted.add(f.params[i])
                for k in c.keywords:
                    if k.arg in f.params and _rooted_in(ctx, caller, k.value, ct):
                        tainted.add(k.arg)
    fresh = set()
    for nm, defs in f.assigns().items():
        if defs and all(isinstance(v, (ast.List, ast.Dict, ast.Set, ast.ListComp, ast.DictComp, ast.SetComp)) or
                        (isinstance(v, ast.Call) and isinstance(v.func, ast.Name) and v.func.id in ('list', 'dict', 'set', 'defaultdict', 'OrderedDict'))
                        for v, st in defs):
            fresh.add(nm)
    changed = True
    while changed:
        changed = False
        for nm, defs in f.assigns().items():
            if nm in tainted:
                continue
            for v, st in defs:
                src = None
                if hasattr(v, 'for_node'):
                    src = v.for_node.iter
                elif isinstance(v, ast.AST) and not isinstance(v, (ast.FunctionDef, ast.AugAssign)):
                    src = v
                if src is not None and _rooted_in(ctx, f, src, tainted):
                    tainted.add(nm)
                    changed = True
                    break
                # comprehension that keeps the elements of a profile collection
                if isinstance(src, (ast.ListComp, ast.SetComp, ast.GeneratorExp)) and isinstance(src.elt, ast.Name) \
                        and any(isinstance(g.target, ast.Name) and g.target.id == src.elt.id and _rooted_in(ctx, f, g.iter, tainted) for g in src.generators):
                    tainted.add(nm)
                    changed = True
                    break
        # containers filled with profile objects: X[k] = <profile object>, X.append(<profile object>), X.setdefault(k, <profile object>)
        for n in f.own_nodes():
            if isinstance(n, ast.Assign) and isinstance(n.targets[0], ast.Subscript) and isinstance(n.targets[0].value, ast.Name) \
                    and n.targets[0].value.id not in tainted and n.targets[0].value.id in f.assigns() and _rooted_in(ctx, f, n.value, tainted):
                tainted.add(n.targets[0].value.id)
                changed = True
            if isinstance(n, ast.Call) and isinstance(n.func, ast.Attribute) and n.func.attr in ('append', 'add', 'setdefault', 'insert', 'extend') \
                    and isinstance(n.func.value, ast.Name) and n.func.value.id not in tainted and n.func.value.id in f.assigns() \
                    and any(_rooted_in(ctx, f, a, tainted) for a in n.args):
                tainted.add(n.func.value.id)
                changed = True
    return tainted, fresh


def r49_per_election_objects(ctx):
    R = 'R49'
    repo = ctx.repo
    nd = 0
    for f in repo.funcs.values():
        a = f.node.args
        for d in list(a.defaults) + [k for k in a.kw_defaults if k is not None]:
            nd += 1
            ctx.check(not _is_mutable_ctor(d), R, d, f, 'no mutable default argument (shared between calls)',
                      'default `%s` is immutable' % unparse(d), 'mutable default argument `%s`' % unparse(d),
                      nontrivial=False)
    init = repo.func('droop.election.Election.__init__')
    fresh = {}
    for n in init.own_nodes():
        if isinstance(n, ast.Assign) and len(n.targets) == 1 and isinstance(n.targets[0], ast.Attribute) \
                and isinstance(n.targets[0].value, ast.Name) and n.targets[0].value.id == 'self':
            fresh.setdefault(n.targets[0].attr, []).append(n)
    for attr in ('C', 'erecord', 'ballots', 'ballotsEqual', 'rounds', 'rule'):
        sts = fresh.get(attr, [])
        displays = (ast.List, ast.ListComp, ast.Dict, ast.DictComp, ast.Set, ast.SetComp)     # always a new object
        ok = bool(sts) and all(isinstance(s.value, (ast.Call,) + displays) for s in sts)
        detail = ''
        for s in sts:
            if isinstance(s.value, displays):
                detail = unparse(s.value)[:60]
            if isinstance(s.value, ast.Call):
                c = s.value
                tgt = repo.resolve_class_expr(c.func, init.module)
                isb = isinstance(c.func, ast.Name) and c.func.id in ('list', 'dict', 'set')
                isrule = isinstance(c.func, ast.Name) and c.func.id == rule_ctor_names(init)[0] and rule_ctor_names(init)[1] is not None
                if tgt is None and not isb and not isrule:
                    ok = False
                detail = unparse(c)
        ctx.check(ok, R, sts[0] if sts else init.node, init, 'Election.__init__ builds its own %s object' % attr,
                  'self.%s = %s (a constructor call)' % (attr, detail),
                  'self.%s is not assigned from a fresh constructor call' % attr)
    # Options: a dict is wrapped in a new Options object
    wraps = [n for n in init.own_nodes() if isinstance(n, ast.Assign) and isinstance(n.value, ast.Call)
             and isinstance(n.value.func, ast.Name) and n.value.func.id == 'Options']
    ctx.check(bool(wraps), R, init.node, init, 'an options dict is wrapped in a per-election Options object',
              'options = Options(options)', 'Election.__init__ no longer wraps option dicts in a new Options')
    # the profile is shared between elections: nothing outside profile.py stores into it
    n_prof = 0
    for f in repo.funcs.values():
        if f.module.name == 'droop.profile':
            continue
        for n in f.own_nodes():
            tgt, how = None, None
            if isinstance(n, ast.Attribute) and isinstance(n.ctx, (ast.Store, ast.Del)):
                tgt, how = n.value, 'attribute store .%s' % n.attr
            elif isinstance(n, ast.Subscript) and isinstance(n.ctx, (ast.Store, ast.Del)):
                tgt, how = n.value, 'item store'
            elif isinstance(n, ast.Call) and isinstance(n.func, ast.Attribute) and n.func.attr in MUTATORS:
                tgt, how = n.func.value, '.%s()' % n.func.attr
            if tgt is None:
                continue
            p = ctx.canon(tgt, f) or ''
            u = unparse(tgt)
            n_prof += 1
            bad = p.startswith('E.electionProfile') or p.startswith('electionProfile') or u.endswith('.ranking') \
                or '.ranking[' in u or 'ballotLines' in u
            if bad:
                ctx.bad(R, n, f, 'the election profile (shared by every election counted from it) is never modified by a count',
                        '%s on `%s`' % (how, u))
    # ... nor through an alias: objects reached from the profile (a ballot line bound by a loop, kept in a local dict, returned by
    # .get()/sorted()/next()) are still the profile's own objects
    n_alias = 0
    for f in repo.funcs.values():
        if f.module.name == 'droop.profile' or not f.module.name.startswith('droop'):
            continue
        tainted, fresh = _profile_aliases(ctx, f)
        if not tainted:
            continue
        for n in f.own_nodes():
            tgt, how = None, None
            if isinstance(n, ast.Attribute) and isinstance(n.ctx, (ast.Store, ast.Del)):
                tgt, how = n.value, 'attribute store .%s' % n.attr
            elif isinstance(n, ast.Subscript) and isinstance(n.ctx, (ast.Store, ast.Del)):
                tgt, how = n.value, 'item store'
            elif isinstance(n, ast.Call) and isinstance(n.func, ast.Attribute) and n.func.attr in MUTATORS:
                tgt, how = n.func.value, '.%s()' % n.func.attr
            if tgt is None:
                continue
            n_alias += 1
            if isinstance(tgt, ast.Name) and tgt.id in fresh:
                continue            # filling a container built in this function
            if _rooted_in(ctx, f, tgt, tainted):
                ctx.bad(R, n, f, 'the election profile (shared by every election counted from it) is never modified by a count',
                        '%s on `%s`, an object that belongs to the profile (reached through %s): the next election counted from the '
                        'same profile sees the change' % (how, unparse(tgt), _root_name(tgt)))
    ctx.ok(R, None, 'package', 'the election profile (shared by every election counted from it) is never modified by a count',
           '%d store/mutation sites outside droop/profile.py examined (%d in functions that hold profile objects): none targets the profile, '
           'a ballot ranking, the ballot-line lists or an alias of a profile object' % (n_prof, n_alias))
    # rule objects keep their state on self
    for c in repo.rule_classes():
        for nm, v in c.class_attrs.items():
            ctx.check(not _is_mutable_ctor(v), R, v, c.qualname, 'rule classes have no class-level mutable state',
                      '%s.%s = %s is immutable' % (c.name, nm, unparse(v)), 'class-level mutable attribute %s.%s' % (c.name, nm),
                      nontrivial=False)
    ctx.floor(R, 'default arguments', nd, 40)
