"""Arithmetic-class rules: R21 scale-dimension / rounding analysis against the specification table,
R22 closure of the value class, R23 comparison derivation, R24 guard-0 sibling equivalence,
R25 printing, R50 value objects are never mutated after construction."""
import ast

from ..model import AnalysisError, need, call_name, const_str, unparse, alpha_body, alpha_src
from ..cfg import cfg_of
from .. import valuesem as vs
from ..valuesem import add, mul, neg, dim, show, roundings, DimError
from .common import rules, deriv, stmt_text, all_funcs_of

FIXED = 'droop.values.fixed.Fixed'
GUARDED = 'droop.values.guarded.Guarded'
RATIONAL = 'droop.values.rational.Rational'

A = ('in', 'self')
B = ('in', 'other')
BC = ('conv', 'other')
N = ('int', 'other')
S = ('S',)
ULP = ('ulp',)


def _fd(n, d):
    return ('fdiv', n, d)


def _md(n, d):
    return ('mod', n, d)


def spec_table(guarded):
    """method -> {condition tuple: returned stored integer}.  From C12: add/sub/neg/abs and
    multiplication by an int are exact; products and quotients are the exact result floored at the
    class scale; mul/div/muldiv add one unit exactly when upward rounding is requested and the
    remainder is non-zero.  From C13: with guard digits the rounding argument is ignored (floor)."""
    t = {
        '__add__': {(): add(A, BC)},
        '__sub__': {(): add(A, neg(BC))},
        '__neg__': {(): neg(A)},
        '__pos__': {(): A},
        '__abs__': {(): ('abs', A)},
        '__mul__': {('int',): mul(A, N), ('val',): _fd(mul(A, B), S)},
        '__floordiv__': {('int',): _fd(A, N), ('val',): _fd(mul(A, S), B)},
    }
    X, Y, Z = ('conv', 'arg1'), ('conv', 'arg2'), ('conv', 'arg3')
    for name, (P, D) in {'mul': (mul(X, Y), S), 'div': (mul(X, S), Y), 'muldiv': (mul(X, Y), Z)}.items():
        q = _fd(P, D)
        up = ('up', _md(P, D))
        if guarded:
            t[name] = {('guard',): q, ('noguard', 'noup'): q, ('noguard', up): add(q, ULP)}
        else:
            t[name] = {('noup',): q, (up,): add(q, ULP)}
    return t


def _canon_conds(conds):
    # order-insensitive, drop nothing
    return tuple(sorted(conds, key=repr))


def _scale_attr(ctx, cls, guarded):
    """mangled name of the scale attribute, checked against initialize: 10 ** precision
    (10 ** (precision+guard) for Guarded), and used by __init__ to scale python ints"""
    init = cls.methods['initialize']
    name = cls.mangle('__scale')
    defs = [n for n in init.own_nodes() if isinstance(n, ast.Assign) and isinstance(n.targets[0], ast.Attribute)
            and cls.mangle(n.targets[0].attr) == name]
    need(len(defs) == 1, 'R21: %s.initialize does not assign the scale exactly once' % cls.name)
    v = unparse(defs[0].value).replace(' ', '')
    want = '10**(cls.precision+cls.guard)' if guarded else '10**cls.precision'
    return name, defs[0], v == want, v, want


def _check_constructor(ctx, R, cls, scale_attr):
    """__init__: setval -> arg as is; python int -> arg * scale; value -> copy of _value"""
    f = cls.methods['__init__']
    body = [s for s in f.node.body if not (isinstance(s, ast.Expr) and isinstance(s.value, ast.Constant))]
    ok = len(body) == 1 and isinstance(body[0], ast.If)
    shape = {}
    if ok:
        n = body[0]
        shape['setval'] = (unparse(n.test), [unparse(s) for s in n.body])
        if len(n.orelse) == 1 and isinstance(n.orelse[0], ast.If):
            m = n.orelse[0]
            shape['int'] = (unparse(m.test), [unparse(s) for s in m.body])
            shape['val'] = ('else', [unparse(s) for s in m.orelse])
    arg = f.params[1] if len(f.params) > 1 else 'arg'
    sc = 'self.' + [k for k in ('__scale',)][0]
    want = {'setval': ('setval', ['self._value = %s' % arg]),
            'int': ('isinstance(%s, int)' % arg, ['self._value = %s * self.__scale' % arg]),
            'val': ('else', ['self._value = %s._value' % arg])}
    ctx.check(shape == want, R, f.node, f,
              '%s(x) stores x._value for a value, x * scale for a python int, x itself with setval' % cls.name,
              'constructor branches: setval -> arg; isinstance(arg, int) -> arg * scale; else -> arg._value',
              'constructor of %s does not have the three conversion branches the arithmetic relies on: %s' % (cls.name, shape))
    return shape == want


def r21_scale_rounding(ctx):
    R = 'R21'
    repo = ctx.repo
    nmeth = 0
    summaries = {}
    for qn, guarded in ((FIXED, False), (GUARDED, True)):
        cls = repo.cls(qn)
        scale_attr, sdef, sok, got, want = _scale_attr(ctx, cls, guarded)
        ctx.check(sok, R, sdef, cls.methods['initialize'], '%s scale factor is 10 ** (number of stored decimal places)' % cls.name,
                  '%s = %s' % (unparse(sdef.targets[0]), got), 'scale is `%s`, expected `%s`' % (got, want))
        _check_constructor(ctx, R, cls, scale_attr)
        spec = spec_table(guarded)
        # aliases
        for alias in ('__truediv__', '__div__'):
            v = cls.class_attrs.get(alias)
            ctx.check(isinstance(v, ast.Name) and v.id == '__floordiv__', R, v if v is not None else cls.node, cls.qualname,
                      '%s.%s is the scaled division' % (cls.name, alias), '%s = __floordiv__' % alias,
                      '%s.%s is not an alias of __floordiv__' % (cls.name, alias), nontrivial=False)
        summaries[qn] = {}
        for mname, want_paths in spec.items():
            f = cls.methods.get(mname)
            if f is None:
                ctx.bad(R, cls.node, cls.qualname, '%s.%s is defined' % (cls.name, mname), 'method missing')
                continue
            nmeth += 1
            outs = vs.summarise(cls, f, scale_attr, {cls.name})
            got_paths = {}
            for o in outs:
                conds = _canon_conds(o.conds)
                # dimension obligation on the stored integer of the returned object (intermediate stores into
                # the freshly built result may pass through other dimensions)
                if isinstance(o.value, vs.Obj):
                    try:
                        d = dim(o.value.term)
                        ctx.check(d == 1, R, o.notes, f, 'the stored integer of every result has the scale dimension of a value',
                                  '%s has dimension 1 (%d rounding step(s))' % (show(o.value.term), roundings(o.value.term)),
                                  'result %s has scale dimension %d, not 1: off by a power of the scale' % (show(o.value.term), d))
                    except DimError as e:
                        ctx.bad(R, o.notes, f, 'the stored integer of every result has the scale dimension of a value', str(e))
                val = o.value
                if isinstance(val, vs.Obj):
                    got_paths[conds] = val.term
                elif val is None:
                    got_paths[conds] = ('none',)
                else:
                    got_paths[conds] = ('notvalue', type(val).__name__)
            summaries[qn][mname] = got_paths
            want_c = {_canon_conds(k): v for k, v in want_paths.items()}
            for conds, wterm in sorted(want_c.items(), key=repr):
                what = '%s.%s%s computes %s' % (cls.name, mname, _fmt_conds(conds), show(wterm))
                g = got_paths.get(conds)
                if g is None:
                    ctx.bad(R, f.node, f, what, 'no path with condition %s; paths found: %s'
                            % (_fmt_conds(conds) or '(unconditional)', ', '.join(_fmt_conds(c) or '(unconditional)' for c in got_paths)))
                    continue
                try:
                    dg = dim(g) if g[0] not in ('none', 'notvalue') else None
                except DimError as e:
                    ctx.bad(R, f.node, f, what, str(e))
                    continue
                ctx.check(g == wterm, R, f.node, f, what,
                          'abstract interpretation of the body: result %s, dimension %s, %d rounding step(s)' % (show(g), dg, roundings(g)),
                          'computes %s instead (%s)' % (show(g) if g[0] not in ('none', 'notvalue') else g,
                                                        _diff_hint(g, wterm)))
            extra = [c for c in got_paths if c not in want_c]
            for c in extra:
                ctx.bad(R, f.node, f, '%s.%s has only the paths of its specification' % (cls.name, mname),
                        'unexpected path %s returning %s' % (_fmt_conds(c), show(got_paths[c]) if got_paths[c][0] not in ('none', 'notvalue') else got_paths[c]))
        # __bool__
        b = cls.methods.get('__bool__')
        if b is not None:
            rets = [n for n in b.own_nodes() if isinstance(n, ast.Return)]
            ctx.check(len(rets) == 1 and unparse(rets[0].value) == 'self._value != 0', R, b.node, b,
                      '%s.__bool__ is "value is non-zero"' % cls.name, 'return self._value != 0', '__bool__ changed', nontrivial=False)
        # epsilon: one unit in the last place
        init = cls.methods['initialize']
        eps = [n for n in init.own_nodes() if isinstance(n, ast.Assign) and unparse(n.targets[0]) == 'cls.epsilon._value']
        mk = [n for n in init.own_nodes() if isinstance(n, ast.Assign) and unparse(n.targets[0]) == 'cls.epsilon']
        okE = len(eps) == 1 and isinstance(eps[0].value, ast.Constant) and eps[0].value.value == 1 and len(mk) == 1 \
            and unparse(mk[0].value) == 'cls(0)'
        ctx.check(okE, R, eps[0] if eps else init.node, init, '%s.epsilon is exactly one unit in the last place' % cls.name,
                  'cls.epsilon = cls(0); cls.epsilon._value = 1', 'epsilon is not defined as the stored integer 1')
    # Fixed comparisons: each compares the stored integers with the matching operator
    fx = repo.cls(FIXED)
    for mname in ('__eq__', '__ne__', '__lt__', '__le__', '__gt__', '__ge__'):
        f = fx.methods.get(mname)
        need(f is not None, 'Fixed.%s missing' % mname)
        nmeth += 1
        outs = vs.summarise(fx, f, fx.mangle('__scale'), {fx.name})
        ok = len(outs) == 1 and isinstance(outs[0].value, vs.CmpV) and outs[0].value.op == mname \
            and outs[0].value.left == A and outs[0].value.right == B
        ctx.check(ok, R, f.node, f, 'Fixed.%s compares the stored integers with the matching operator' % mname,
                  'int(self._value).%s(int(other._value)): like compared with like (both dimension 1)' % mname,
                  'Fixed.%s does not compare self._value with other._value using %s' % (mname, mname))
    # Fixed.min: builtin min over values (uses __lt__)
    fmin = fx.methods.get('min')
    rets = [n for n in fmin.own_nodes() if isinstance(n, ast.Return)] if fmin else []
    ctx.check(len(rets) == 1 and unparse(rets[0].value) == 'min(vals)', R, fmin.node if fmin else fx.node, fmin or fx.qualname,
              'Fixed.min is the minimum under the class ordering', 'return min(vals)', 'Fixed.min changed', nontrivial=False)
    # integer arithmetic IS fixed arithmetic with zero places: initialize() forces precision=0 when arithmetic == 'integer'
    # (a precision given elsewhere - [droop precision=4] in the file - must not turn `integer` into a 4-place count)
    init = fx.methods.get('initialize')
    need(init is not None, 'Fixed.initialize missing')
    ibr = [n for n in init.own_nodes() if isinstance(n, ast.If) and isinstance(n.test, ast.Compare) and len(n.test.ops) == 1
           and isinstance(n.test.ops[0], ast.Eq) and const_str(n.test.comparators[0]) == 'integer']
    okf = False
    for br in ibr:
        for c in [x for st in br.body for x in ast.walk(st) if isinstance(x, ast.Call)]:
            if isinstance(c.func, ast.Attribute) and c.func.attr == 'setopt' and c.args and const_str(c.args[0]) == 'precision':
                d = [k.value for k in c.keywords if k.arg == 'default'] or list(c.args[1:2])
                fo = [k.value for k in c.keywords if k.arg == 'force']
                okf = bool(d) and isinstance(d[0], ast.Constant) and d[0].value == 0 and bool(fo) and isinstance(fo[0], ast.Constant) and fo[0].value is True
    ctx.check(okf, R, ibr[0] if ibr else init.node, init, 'integer arithmetic is fixed-point arithmetic with zero places, whatever precision is supplied',
              "under arithmetic == 'integer': options.setopt('precision', default=0, force=True)",
              "Fixed.initialize does not force precision=0 for arithmetic=integer: a precision from the ballot file or the command line makes "
              "`integer` a fractional arithmetic")
    ctx.floor(R, 'arithmetic methods interpreted', nmeth, 26)
    ctx._value_summaries = summaries
    return summaries


def _fmt_conds(conds):
    out = []
    for c in conds:
        if isinstance(c, tuple) and c and c[0] == 'up':
            out.append('rem!=0 and round==up [rem = %s]' % show(c[1]))
        elif isinstance(c, tuple) and c and c[0] == '?':
            out.append('<%s>' % c[1])
        else:
            out.append({'int': 'int operand', 'val': 'value operand', 'guard': 'guard>0', 'noguard': 'guard==0',
                        'noup': 'otherwise'}.get(c, str(c)))
    return (' [' + '; '.join(out) + ']') if out else ''


def _diff_hint(g, w):
    if g[0] in ('none', 'notvalue'):
        return 'does not return a value object'
    try:
        if dim(g) != dim(w):
            return 'scale dimension %d instead of %d' % (dim(g), dim(w))
    except DimError as e:
        return str(e)
    if roundings(g) != roundings(w):
        return '%d rounding step(s) instead of %d' % (roundings(g), roundings(w))
    return 'different operand form'


# ---------------------------------------------------------------------------
# R22 closure
# ---------------------------------------------------------------------------

def _value_typed(ctx, f, e, depth=0):
    """is expression e a Value (an arithmetic object)?  repo-specific inference: V0/V1/V(...)/V.mul..,
    E.quota/surplus/votes/exhausted/residual, .vote/.weight/.kf/.quotient/.multiplier/.surplus/.tc,
    sums and products of those, locals assigned from those"""
    if depth > 6:
        return False
    if isinstance(e, ast.Attribute):
        if e.attr in ('vote', 'weight', 'kf', 'quotient', 'multiplier', 'surplus', 'residual', 'tc', 'epsilon'):
            return True
        p = ctx.canon(e, f)
        if p in ('E.V0', 'E.V1', 'E.quota', 'E.surplus', 'E.votes', 'E.exhausted', 'E.residual', 'E.va', 'E.tx', 'self.omega'):
            return True
        return False
    if isinstance(e, ast.Name):
        p = ctx.canon(e, f)
        if p in ('E.V0', 'E.V1'):
            return True
        df, vals = ctx.scope(f).lookup_def(e.id, f)
        if vals and vals != 'param':
            for val, st in vals:
                if isinstance(val, ast.AST) and not isinstance(val, (ast.FunctionDef, ast.AugAssign)) and _value_typed(ctx, df, val, depth + 1):
                    return True
        return False
    if isinstance(e, ast.Call):
        p = ctx.canon(e.func, f)
        if p == 'E.V' or (p or '').startswith('E.V.'):
            return True
        if isinstance(e.func, ast.Name) and e.func.id == 'sum':
            return len(e.args) == 2 and _value_typed(ctx, f, e.args[1], depth + 1)
        if isinstance(e.func, ast.Name) and e.func.id in ('min', 'max') and e.args:
            a = e.args[0]
            if isinstance(a, (ast.GeneratorExp, ast.ListComp)):
                return _value_typed(ctx, f, a.elt, depth + 1)
        return False
    if isinstance(e, ast.BinOp):
        return _value_typed(ctx, f, e.left, depth + 1) or _value_typed(ctx, f, e.right, depth + 1)
    if isinstance(e, ast.UnaryOp):
        return _value_typed(ctx, f, e.operand, depth + 1)
    if isinstance(e, ast.IfExp):
        return _value_typed(ctx, f, e.body, depth + 1) or _value_typed(ctx, f, e.orelse, depth + 1)
    return False


OP_DUNDER = {ast.Add: ('__add__', '__radd__'), ast.Sub: ('__sub__', '__rsub__'), ast.Mult: ('__mul__', '__rmul__'),
             ast.Div: ('__truediv__', '__rtruediv__'), ast.FloorDiv: ('__floordiv__', '__rfloordiv__'),
             ast.Mod: ('__mod__', '__rmod__'), ast.Pow: ('__pow__', '__rpow__')}


def _forced_arithmetic(ctx, ri):
    opts = ri.cls.methods.get('options')
    if opts is None:
        return None
    for n in opts.all_nodes():
        if isinstance(n, ast.Call) and isinstance(n.func, ast.Attribute) and n.func.attr == 'setopt' and n.args \
                and const_str(n.args[0]) == 'arithmetic':
            force = [k for k in n.keywords if k.arg == 'force' and isinstance(k.value, ast.Constant) and k.value.value is True]
            d = [k for k in n.keywords if k.arg == 'default']
            if force and d and const_str(d[0].value):
                return const_str(d[0].value)
    return None


def _installed_names(body):
    """constant propagation over the module-level statements of rational.py: the set of method names installed on the class by
    `_wrap_method(<name>)` / `setattr(<class>, <name>, ...)`, where the names are string constants or `'__%s__' % word` over the words
    of a constant `"...".split()`, possibly collected in a module-level list first"""
    env = {}            # name -> set of strings (a loop variable, or the elements of a list)
    out = set()

    def ev(e):
        if isinstance(e, ast.Constant) and isinstance(e.value, str):
            return {e.value}
        if isinstance(e, ast.Name) and e.id in env:
            return set(env[e.id])
        if isinstance(e, ast.BinOp) and isinstance(e.op, ast.Mod) and const_str(e.left) is not None:
            r = ev(e.right)
            if r is not None:
                try:
                    return {const_str(e.left) % w for w in r}
                except (TypeError, ValueError):
                    return None
        if isinstance(e, ast.Call) and isinstance(e.func, ast.Attribute) and e.func.attr == 'split' and const_str(e.func.value) is not None and not e.args:
            return set(const_str(e.func.value).split())
        if isinstance(e, (ast.List, ast.Tuple, ast.Set)):
            acc = set()
            for x in e.elts:
                r = ev(x)
                if r is None:
                    return None
                acc |= r
            return acc
        if isinstance(e, ast.ListComp) and len(e.generators) == 1 and isinstance(e.generators[0].target, ast.Name) and not e.generators[0].ifs:
            it = ev(e.generators[0].iter)
            if it is None:
                return None
            saved = env.get(e.generators[0].target.id)
            env[e.generators[0].target.id] = it
            r = ev(e.elt)
            if saved is None:
                env.pop(e.generators[0].target.id, None)
            else:
                env[e.generators[0].target.id] = saved
            return r
        return None

    def run(stmts):
        for st in stmts:
            if isinstance(st, ast.For) and isinstance(st.target, ast.Name):
                it = ev(st.iter)
                if it is not None:
                    env[st.target.id] = it
                    run(st.body)
            elif isinstance(st, ast.Assign) and len(st.targets) == 1 and isinstance(st.targets[0], ast.Name):
                r = ev(st.value)
                if r is not None:
                    env[st.targets[0].id] = r
            elif isinstance(st, ast.AugAssign) and isinstance(st.target, ast.Name) and isinstance(st.op, ast.Add):
                r = ev(st.value)
                if r is not None:
                    env[st.target.id] = env.get(st.target.id, set()) | r
            elif isinstance(st, ast.Expr) and isinstance(st.value, ast.Call):
                c = st.value
                if isinstance(c.func, ast.Name) and c.func.id == '_wrap_method' and c.args:
                    out.update(ev(c.args[0]) or ())
                elif isinstance(c.func, ast.Name) and c.func.id == 'setattr' and len(c.args) >= 2:
                    out.update(ev(c.args[1]) or ())
                elif isinstance(c.func, ast.Attribute) and c.func.attr in ('append', 'add') and isinstance(c.func.value, ast.Name) and len(c.args) == 1:
                    r = ev(c.args[0])
                    if r is not None:
                        env[c.func.value.id] = env.get(c.func.value.id, set()) | r
    run(body)
    return out


def r22_closure(ctx):
    R = 'R22'
    repo = ctx.repo
    # (a) Fixed/Guarded arithmetic methods return objects of their own class: established by R21's interpreter
    #     (every specified path returns a constructed object) - re-check cheaply here for all methods
    for qn in (FIXED, GUARDED):
        cls = repo.cls(qn)
        for mname in list(spec_table(qn == GUARDED)) + []:
            f = cls.methods.get(mname)
            if f is None:
                continue
            outs = vs.summarise(cls, f, cls.mangle('__scale'), {cls.name})
            ok = bool(outs) and all(isinstance(o.value, vs.Obj) and o.value.cls is cls for o in outs)
            ctx.check(ok, R, f.node, f, 'every result of %s.%s is a value of the same class' % (cls.name, mname),
                      'all %d path(s) return an object built by %s(...)' % (len(outs), cls.name),
                      '%s.%s can return something that is not a %s' % (cls.name, mname, cls.name), nontrivial=False)
    # (b) Rational: Fraction subclass, wrapped dunders cover every operator the package applies to values
    rat = repo.cls(RATIONAL)
    ctx.check(rat.base_names == ['Fraction'], R, rat.node, rat.qualname, 'Rational is exact: a fractions.Fraction subclass',
              'class Rational(Fraction)', 'Rational bases are %s' % rat.base_names, nontrivial=False)
    rm = repo.module('droop.values.rational')
    wrapped = _installed_names(rm.tree.body)
    need(wrapped, 'R22: wrapped dunder list of rational.py not found')
    # the wrapper converts the Fraction result back to Rational
    wf = repo.funcs.get('droop.values.rational._wrap_method')
    need(wf is not None, 'rational._wrap_method missing')
    ref = ('def _wrap_method(method):\n fraction_method = getattr(Fraction, method)\n def x(*args):\n  return Rational(fraction_method(*args))\n'
           '%s setattr(Rational, method, x)')
    got = alpha_body(wf.node)
    okw = got in (alpha_src(ref % ' x.__name__ = method\n'), alpha_src(ref % ''))
    if not okw:
        # the wrapper returned to the caller, which installs it: `setattr(Rational, name, _wrap_method(name))` at module level
        ref2 = 'def _wrap_method(method):\n fraction_method = getattr(Fraction, method)\n def x(*args):\n  return Rational(fraction_method(*args))\n%s return x'
        if got in (alpha_src(ref2 % ' x.__name__ = method\n'), alpha_src(ref2 % '')):
            inst = [c for c in ast.walk(rm.tree) if isinstance(c, ast.Call) and isinstance(c.func, ast.Name) and c.func.id == 'setattr' and len(c.args) == 3]
            okw = bool(inst) and all(unparse(c.args[0]) == 'Rational' and isinstance(c.args[2], ast.Call) and unparse(c.args[2].func) == '_wrap_method'
                                     and len(c.args[2].args) == 1 and unparse(c.args[2].args[0]) == unparse(c.args[1]) for c in inst)
    ctx.check(okw, R, wf.node, wf, 'wrapped Fraction operators return Rational', 'return Rational(fraction_method(*args))',
              '_wrap_method no longer converts results to Rational')
    needed = {}
    nops = 0
    vfloor_sites = []
    for ri in rules(ctx):
        for f in [m for mm in ri.cls.mro() for m in mm.methods.values()]:
            for g in all_funcs_of(f):
                for n in g.own_nodes():
                    if isinstance(n, ast.BinOp) and type(n.op) in OP_DUNDER:
                        lv, rv = _value_typed(ctx, g, n.left), _value_typed(ctx, g, n.right)
                        if lv or rv:
                            nops += 1
                            d, rd = OP_DUNDER[type(n.op)]
                            needed.setdefault(d, n)
                            if rv and not lv:
                                needed.setdefault(rd, n)
                            if isinstance(n.op, ast.FloorDiv) and lv and rv:
                                vfloor_sites.append((ri, g, n))
                    elif isinstance(n, ast.AugAssign) and type(n.op) in OP_DUNDER and \
                            (_value_typed(ctx, g, n.target) or _value_typed(ctx, g, n.value)):
                        nops += 1
                        needed.setdefault(OP_DUNDER[type(n.op)][0], n)
                    elif isinstance(n, ast.UnaryOp) and isinstance(n.op, ast.USub) and _value_typed(ctx, g, n.operand):
                        needed.setdefault('__neg__', n)
                    elif isinstance(n, ast.Call) and isinstance(n.func, ast.Name) and n.func.id == 'abs' and n.args \
                            and _value_typed(ctx, g, n.args[0]):
                        needed.setdefault('__abs__', n)
                    elif isinstance(n, ast.Call) and isinstance(n.func, ast.Name) and n.func.id == 'sum' and len(n.args) == 2 \
                            and _value_typed(ctx, g, n.args[1]):
                        needed.setdefault('__add__', n)
    # record.py: sum(..., E.V0) and a + b on values
    needed.setdefault('__add__', None)
    needed.setdefault('__sub__', None)
    for d, site in sorted(needed.items()):
        ctx.check(d in wrapped, R, site if site is not None else rat.node, rat.qualname,
                  'operator %s, applied to values by the package, is wrapped to return Rational' % d,
                  '%s is in the wrapped list of rational.py' % d,
                  '%s is applied to values (e.g. %s) but Rational does not wrap it: the result degrades to Fraction and prints '
                  'as a/b' % (d, ctx.repo.loc(site) if site is not None else 'record.py'))
    ctx.floor(R, 'value operator sites in rules', nops, 60)
    # Rational.__new__ always builds the value through Fraction.__new__ (normalised sign and lowest terms)
    rn = rat.methods.get('__new__')
    if rn is not None:
        rets = [r for r in rn.own_nodes() if isinstance(r, ast.Return)]
        builds = [n for n in rn.own_nodes() if isinstance(n, ast.Call) and unparse(n.func) in ('Fraction.__new__', 'super().__new__', 'super(Rational, cls).__new__')]
        others = [n for n in rn.own_nodes() if isinstance(n, ast.Call) and unparse(n.func).endswith('__new__') and n not in builds]
        stores = [n for n in rn.own_nodes() if isinstance(n, ast.Attribute) and isinstance(n.ctx, ast.Store)]
        okn = len(builds) == 1 and not others and not stores and len(rets) == 1 and (isinstance(rets[0].value, ast.Name) or rets[0].value is builds[0]) \
            and len(builds[0].args) == 3 and unparse(builds[0].args[1]) == rn.params[1]
        if okn and isinstance(rets[0].value, ast.Name):
            # the returned local is the object just built
            defs_ = rn.assigns().get(rets[0].value.id, [])
            okn = len(defs_) == 1 and defs_[0][0] is builds[0]
        ctx.check(okn, R, rn.node, rn, 'every Rational is constructed by Fraction.__new__ (sign on the numerator, lowest terms)',
                  'self = Fraction.__new__(cls, numerator, denominator); return self',
                  'Rational.__new__ builds values without Fraction.__new__ on some path (or stores numerator/denominator itself): '
                  'un-normalised values break ==, <, abs and min')
        # the given denominator is replaced only when none was given
        dname = rn.params[2] if len(rn.params) > 2 else None
        dstores = [n for n in rn.own_nodes() if isinstance(n, ast.Assign) and isinstance(n.targets[0], ast.Name) and n.targets[0].id == dname]
        okd = all(isinstance(n.parent, ast.If) and n in n.parent.body and isinstance(n.parent.test, ast.Compare) and len(n.parent.test.ops) == 1
                  and isinstance(n.parent.test.ops[0], ast.Is) and unparse(n.parent.test.left) == dname
                  and isinstance(n.parent.test.comparators[0], ast.Constant) and n.parent.test.comparators[0].value is None for n in dstores)
        ctx.check(okd, R, dstores[0] if dstores else rn.node, rn, 'Rational(n, d) keeps the denominator it is given', 'the default denominator is substituted only under `%s is None`' % dname,
                  'Rational.__new__ overwrites a denominator that was supplied', nontrivial=False)
    rmin = rat.methods.get('min')
    rr_ = [n for n in rmin.own_nodes() if isinstance(n, ast.Return)] if rmin else []
    ctx.check(len(rr_) == 1 and unparse(rr_[0].value) == 'min(%s)' % (rmin.params[-1] if rmin else 'vals'), R, rmin.node if rmin else rat.node, rmin or rat.qualname,
              'Rational.min is the minimum under exact comparison', 'return min(vals)', 'Rational.min changed', nontrivial=False)
    # the operations the property names (+ - * / neg abs, with an int on either side) all come back as Rational
    for d in ('__add__', '__radd__', '__sub__', '__rsub__', '__mul__', '__rmul__', '__truediv__', '__rtruediv__', '__neg__', '__abs__', '__pos__'):
        ctx.check(d in wrapped, R, rat.node, rat.qualname, 'Rational.%s returns a Rational (closure of the class under the operations of the property)' % d,
                  'wrapped by _wrap_method', 'Rational.%s is not wrapped: the result degrades to fractions.Fraction' % d, nontrivial=False)
    # Rational.mul/div/muldiv
    want = {'mul': 'Rational.__mul__(arg1, arg2)', 'div': 'Rational.__truediv__(arg1, arg2)',
            'muldiv': 'Rational.__truediv__(Rational.__mul__(arg1, arg2), arg3)'}
    for k, w in want.items():
        f = rat.methods.get(k)
        rets = [n for n in f.own_nodes() if isinstance(n, ast.Return)] if f else []
        same = len(rets) == 1 and unparse(rets[0].value) == w
        if not same and f is not None:
            # the same expression built through locals
            from ..symret import guarded_returns
            gr = guarded_returns(f.node)
            pn = {p_: 'arg%d' % (i_ + 1) for i_, p_ in enumerate([x for x in f.params if x not in ('cls', 'self')][:3])}
            if gr is not None and len(gr) == 1 and gr[0][1] is not None:
                e_ = gr[0][1]
                for x_ in ast.walk(e_):
                    if isinstance(x_, ast.Name) and x_.id in pn:
                        x_.id = pn[x_.id]
                same = not gr[0][0] and unparse(e_) == w
        ctx.check(same, R, f.node if f else rat.node, f or rat.qualname,
                  'Rational.%s is the exact operation (rounding argument ignored)' % k, w, 'Rational.%s is `%s`' % (k, unparse(rets[0].value) if rets else None))
    # (c) `//` between two values: Rational.__floordiv__ is the integer floor; only rules that force a
    #     non-rational arithmetic may use it
    for ri, g, n in vfloor_sites:
        fa = _forced_arithmetic(ctx, ri)
        ctx.check(fa in ('fixed', 'integer', 'guarded'), R, n, g,
                  '`//` is applied to two values only where rational arithmetic is impossible',
                  'rule %s forces arithmetic=%s, whose // is the scaled division' % (ri.short, fa),
                  '`%s`: under rational arithmetic // is the mathematical floor (an integer), not the quotient; rule %s does '
                  'not force a scaled arithmetic' % (unparse(n), ri.short))
    ctx.counts['R22.value // value sites'] = len(vfloor_sites)


# ---------------------------------------------------------------------------
# R23 comparison derivation (Guarded)
# ---------------------------------------------------------------------------

def _cmp_table(c):
    """{(d, s): set of returned values} for Guarded.__cmp__, d in lt/ge (|a-b| vs tolerance), s in < = > (a vs b); or (None, reason)"""
    self_n = c.params[0] if c.params else 'self'
    oth_n = c.params[1] if len(c.params) > 1 else 'other'

    def term(e, env):
        if isinstance(e, ast.Name) and e.id in env:
            return env[e.id]
        if isinstance(e, ast.Attribute) and e.attr == '_value' and isinstance(e.value, ast.Name):
            if e.value.id == self_n:
                return 'A'
            if e.value.id == oth_n:
                return 'B'
        if isinstance(e, ast.Attribute) and e.attr.endswith('__geps'):
            return 'G'
        if isinstance(e, ast.Constant) and isinstance(e.value, int) and not isinstance(e.value, bool):
            return ('k', e.value)
        if isinstance(e, ast.UnaryOp) and isinstance(e.op, ast.USub):
            t = term(e.operand, env)
            if isinstance(t, tuple) and t[0] == 'k':
                return ('k', -t[1])
        if isinstance(e, ast.BinOp) and isinstance(e.op, ast.Sub):
            l, r = term(e.left, env), term(e.right, env)
            if (l, r) == ('A', 'B'):
                return 'A-B'
            if (l, r) == ('B', 'A'):
                return 'B-A'
        if isinstance(e, ast.Call) and isinstance(e.func, ast.Name) and e.func.id == 'abs' and len(e.args) == 1:
            if term(e.args[0], env) in ('A-B', 'B-A'):
                return 'D'
        return None

    def cmp2(l, op, r, d, s):
        flip = {ast.Lt: ast.Gt, ast.Gt: ast.Lt, ast.LtE: ast.GtE, ast.GtE: ast.LtE, ast.Eq: ast.Eq, ast.NotEq: ast.NotEq}
        def by_sign(sign, op):      # sign of (x - y) in '<','=','>'
            return {ast.Lt: sign == '<', ast.Gt: sign == '>', ast.LtE: sign in '<=', ast.GtE: sign in '>=', ast.Eq: sign == '=', ast.NotEq: sign != '='}.get(op)
        neg = {'<': '>', '>': '<', '=': '='}
        if (l, r) == ('A', 'B'):
            return by_sign(s, op)
        if (l, r) == ('B', 'A'):
            return by_sign(neg[s], op)
        if (l, r) == ('D', 'G'):
            return by_sign('<' if d == 'lt' else None, op) if d == 'lt' else {ast.Lt: False, ast.GtE: True}.get(op)
        if (l, r) == ('G', 'D'):
            return cmp2(r, flip.get(op), l, d, s) if op in flip else None
        if l in ('A-B', 'B-A') and r == ('k', 0):
            return by_sign(s if l == 'A-B' else neg[s], op)
        if r in ('A-B', 'B-A') and l == ('k', 0) and op in flip:
            return cmp2(r, flip[op], l, d, s)
        if l == 'D' and r == ('k', 0):
            return by_sign('=' if s == '=' else '>', op)
        if l in ('A-B', 'B-A') and r == 'G':
            big = d == 'ge' and (s if l == 'A-B' else neg[s]) == '>'        # the signed difference reaches the tolerance
            return {ast.GtE: big, ast.Lt: not big, ast.Gt: None if big else False, ast.LtE: None if big else True}.get(op)
        if r in ('A-B', 'B-A') and l == 'G' and op in flip:
            return cmp2(r, flip[op], l, d, s)
        return None

    def truth(e, env, d, s):
        if isinstance(e, ast.Compare):
            vals = [term(x, env) for x in [e.left] + list(e.comparators)]
            res = True
            for k, op in enumerate(e.ops):
                t = cmp2(vals[k], type(op), vals[k + 1], d, s) if vals[k] is not None and vals[k + 1] is not None else None
                if t is False:
                    return False
                if t is None:
                    res = None
            return res
        if isinstance(e, ast.UnaryOp) and isinstance(e.op, ast.Not):
            t = truth(e.operand, env, d, s)
            return None if t is None else not t
        if isinstance(e, ast.BoolOp):
            ts = [truth(v, env, d, s) for v in e.values]
            if isinstance(e.op, ast.And):
                return False if False in ts else (None if None in ts else True)
            return True if True in ts else (None if None in ts else False)
        return None

    def value(e, env, d, s):
        """set of possible returned ints, or None"""
        t = term(e, env)
        if isinstance(t, tuple):
            return {t[1]}
        if isinstance(e, ast.IfExp):
            tt = truth(e.test, env, d, s)
            a, b = value(e.body, env, d, s), value(e.orelse, env, d, s)
            if tt is True:
                return a
            if tt is False:
                return b
            return None if a is None or b is None else a | b
        if isinstance(e, ast.BinOp) and isinstance(e.op, ast.Sub):
            if isinstance(e.left, (ast.Compare, ast.BoolOp)) and isinstance(e.right, (ast.Compare, ast.BoolOp)):
                a, b = truth(e.left, env, d, s), truth(e.right, env, d, s)
                return {int(x) - int(y) for x in ([a] if a is not None else [True, False]) for y in ([b] if b is not None else [True, False])}
        return None

    class Refuse(Exception):
        pass

    def run(stmts, env, d, s, out):
        """walk a statement list; returns True when every path through it has returned"""
        for i, st in enumerate(stmts):
            if isinstance(st, ast.Return):
                v = value(st.value, env, d, s) if st.value is not None else None
                if v is None:
                    raise Refuse('return value `%s` not understood' % unparse(st.value) if st.value is not None else 'bare return')
                out |= v
                return True
            if isinstance(st, ast.Assign) and len(st.targets) == 1 and isinstance(st.targets[0], ast.Name):
                env = dict(env)
                t = term(st.value, env)
                if t is None:
                    v = value(st.value, env, d, s)
                    t = ('k', next(iter(v))) if v is not None and len(v) == 1 else None
                env[st.targets[0].id] = t
                continue
            if isinstance(st, (ast.Assign, ast.AugAssign)) and all(isinstance(t_, ast.Attribute) for t_ in (st.targets if isinstance(st, ast.Assign) else [st.target])):
                continue            # statistics (checked separately: only maxDiff / minDiff are stored)
            if isinstance(st, ast.Expr) and isinstance(st.value, ast.Constant):
                continue
            if isinstance(st, ast.Pass):
                continue
            if isinstance(st, ast.If):
                tt = truth(st.test, env, d, s)
                rest = stmts[i + 1:]
                done = True
                for branch, taken in ((st.body, tt is not False), (st.orelse, tt is not True)):
                    if taken:
                        if not run(list(branch) + list(rest), env, d, s, out):
                            done = False
                return done
            raise Refuse('statement `%s` not understood' % unparse(st).split('\n')[0])
        return False

    table = {}
    try:
        for d in ('lt', 'ge'):
            for s in '<=>':
                if d == 'ge' and s == '=':
                    continue
                out = set()
                if not run(list(c.node.body), {}, d, s, out):
                    out.add(None)
                table[(d, s)] = out
    except Refuse as e:
        return None, str(e)
    return table, None


def r23_comparisons(ctx):
    R = 'R23'
    g = ctx.repo.cls(GUARDED)
    ops = {'__eq__': '==', '__ne__': '!=', '__lt__': '<', '__le__': '<=', '__gt__': '>', '__ge__': '>='}
    for m, op in ops.items():
        f = g.methods.get(m)
        need(f is not None, 'Guarded.%s missing' % m)
        rets = [n for n in f.own_nodes() if isinstance(n, ast.Return)]
        want = 'self.__cmp__(other) %s 0' % op
        ctx.check(len(rets) == 1 and unparse(rets[0].value) == want, R, f.node, f,
                  'Guarded.%s is the projection `cmp %s 0` of the one three-valued comparison' % (m, op), want,
                  'Guarded.%s is `%s`' % (m, unparse(rets[0].value) if rets else None))
    c = g.methods.get('__cmp__')
    need(c is not None, 'Guarded.__cmp__ missing')
    # decision table of __cmp__ over the finite abstraction it can observe: the order of the two stored integers (s) and whether
    # their absolute difference is below the tolerance (d).  Every path of the body is walked for each feasible (s, d); tests on
    # the statistics are unknown and both branches are taken.  This is independent of how the branches are written.
    want = {('lt', '<'): 0, ('lt', '='): 0, ('lt', '>'): 0, ('ge', '<'): -1, ('ge', '>'): 1}
    table, why = _cmp_table(c)
    if table is None:
        ctx.unrecognised(R, c.node, c, 'the three-way comparison of guarded values', why)
    else:
        for st_, exp in sorted(want.items()):
            got = table.get(st_, set())
            d_, s_ = st_
            what = 'two guarded values are equal exactly when they differ by less than the tolerance' if exp == 0 else \
                'otherwise guarded values order as their stored integers do'
            ctx.check(got == {exp}, R, c.node, c, what,
                      '|a-b| %s geps, a %s b: __cmp__ returns %d' % ('<' if d_ == 'lt' else '>=', s_, exp),
                      '__cmp__ returns %s when |a-b| %s geps and a %s b' % (sorted(got, key=str), '<' if d_ == 'lt' else '>=', s_))
    # geps = scaleg // 2, floor 1; scaleg = 10 ** guard
    init = g.methods['initialize']
    txt = {unparse(n.targets[0]): unparse(n.value) for n in init.own_nodes() if isinstance(n, ast.Assign)}
    okg = txt.get('cls.__scaleg') == '10 ** cls.guard'
    ctx.check(okg, R, init.node, init, 'the guard scale is 10 ** guard', 'cls.__scaleg = 10 ** cls.guard', 'cls.__scaleg = %s' % txt.get('cls.__scaleg'))
    geps = [n for n in init.own_nodes() if isinstance(n, ast.Assign) and unparse(n.targets[0]) == 'cls.__geps']
    vals = [unparse(n.value) for n in geps]
    half = ('cls.__scaleg // 2', '10 ** cls.guard // 2')
    one_stmt = ('%s or 1', 'max(%s, 1)', 'max(1, %s)', '%s if %s else 1', '%s if %s > 0 else 1', '%s if %s >= 1 else 1')
    if len(vals) == 1 and any(vals[0] == f.replace('%s', h) for f in one_stmt for h in half):
        okh = okf = True            # half a unit floored at one, in a single expression
    else:
        okh = any(h in vals for h in half) and set(vals) <= set(half) | {'1'}
        floor1 = [n for n in geps if unparse(n.value) == '1']
        okf = bool(floor1) and all(isinstance(n.parent, ast.If) and n in n.parent.body and unparse(n.parent.test) in
                                   ('cls.__geps == 0', 'cls.__geps < 1', 'cls.__geps <= 0') for n in floor1)
    ctx.check(okh and okf, R, geps[0] if geps else init.node, init,
              'the tolerance is half a unit of the declared precision (10^guard // 2), at least one stored unit',
              'cls.__geps = cls.__scaleg // 2; if cls.__geps == 0: cls.__geps = 1', 'tolerance definition changed: %s' % vals)
    # statistics do not influence the result: stores in __cmp__ only to maxDiff/minDiff
    for n in c.own_nodes():
        if isinstance(n, ast.Attribute) and isinstance(n.ctx, ast.Store):
            ctx.check(n.attr in ('maxDiff', 'minDiff'), R, n, c, '__cmp__ writes nothing but its two statistics',
                      'store to Guarded.%s' % n.attr, '__cmp__ stores to %s' % unparse(n))
    # no __hash__ (equality is not transitive)
    # Guarded.min compares stored integers strictly
    gm = g.methods.get('min')
    cmpn = [n for n in gm.own_nodes() if isinstance(n, ast.Compare)] if gm else []
    okm = False
    if gm is not None and len(cmpn) == 1 and isinstance(cmpn[0].ops[0], ast.Lt):
        # best = vals[0]; for v in vals[1:] (or vals): if v._value < best._value: best = v; return best
        body = [x for x in gm.node.body if not (isinstance(x, ast.Expr) and isinstance(x.value, ast.Constant))]
        if len(body) == 3 and isinstance(body[0], ast.Assign) and isinstance(body[1], ast.For) and isinstance(body[2], ast.Return):
            best = body[0].targets[0].id if isinstance(body[0].targets[0], ast.Name) else None
            vals = gm.params[1] if len(gm.params) > 1 else 'vals'
            init_ok = unparse(body[0].value) == '%s[0]' % vals
            it_ok = unparse(body[1].iter) in ('%s[1:]' % vals, vals)
            v = body[1].target.id if isinstance(body[1].target, ast.Name) else None
            ifs = [x for x in body[1].body if isinstance(x, ast.If)]
            upd = len(ifs) == 1 and unparse(ifs[0].test) == '%s._value < %s._value' % (v, best) and \
                [unparse(x) for x in ifs[0].body] == ['%s = %s' % (best, v)]
            okm = init_ok and it_ok and upd and unparse(body[2].value) == best
    ctx.check(okm, R, gm.node if gm else g.node, gm or g.qualname,
              'Guarded.min is the actual minimum of the stored integers over ALL the values',
              'best = vals[0]; for v in vals[1:]: if v._value < best._value: best = v; return best',
              'Guarded.min does not scan every value with a strict < on the stored integers')


# ---------------------------------------------------------------------------
# R24 guard-0 sibling equivalence
# ---------------------------------------------------------------------------

def _guard_polarity(test):
    """'zero' when the test holds exactly for guard == 0, 'nonzero' when exactly for guard > 0 (guard is a non-negative int)"""
    def is_guard(e):
        return isinstance(e, ast.Attribute) and e.attr == 'guard' and isinstance(e.value, ast.Name)
    if is_guard(test):
        return 'nonzero'
    if isinstance(test, ast.UnaryOp) and isinstance(test.op, ast.Not):
        p = _guard_polarity(test.operand)
        return {'zero': 'nonzero', 'nonzero': 'zero'}.get(p)
    if isinstance(test, ast.Compare) and len(test.ops) == 1 and is_guard(test.left) and isinstance(test.comparators[0], ast.Constant) \
            and isinstance(test.comparators[0].value, int):
        k, op = test.comparators[0].value, type(test.ops[0])
        if (op, k) in ((ast.Eq, 0), (ast.LtE, 0), (ast.Lt, 1)):
            return 'zero'
        if (op, k) in ((ast.NotEq, 0), (ast.Gt, 0), (ast.GtE, 1)):
            return 'nonzero'
    return None


def guard_cases(init, cname):
    """what Guarded.initialize stores to exact / quasi_exact / epsilon with guard == 0 and with guard > 0: ({..}, {..}), keys 'exact',
    'quasi_exact' (sets of True / False / '?') and 'eps' (list of statement texts)"""
    import types
    g = types.SimpleNamespace(name=cname)
    single = {nm: d[0][0] for nm, d in init.assigns().items() if len(d) == 1 and isinstance(d[0][0], ast.AST)}

    def pol(e):
        if isinstance(e, ast.Name) and e.id in single:
            return pol(single[e.id])
        if isinstance(e, ast.Call) and isinstance(e.func, ast.Name) and e.func.id == 'bool' and len(e.args) == 1:
            return pol(e.args[0])
        if isinstance(e, ast.UnaryOp) and isinstance(e.op, ast.Not):
            p_ = pol(e.operand)
            return {'zero': 'nonzero', 'nonzero': 'zero'}.get(p_)
        return _guard_polarity(e)

    def walk(stmts, case, out):
        for st_ in stmts:
            if isinstance(st_, ast.If):
                p_ = pol(st_.test)
                if p_ is None:
                    walk(st_.body, case, out)
                    walk(st_.orelse, case, out)
                else:
                    walk(st_.body if p_ == case else st_.orelse, case, out)
            elif isinstance(st_, ast.Assign):
                for t_ in st_.targets:
                    if isinstance(t_, ast.Attribute) and t_.attr in ('exact', 'quasi_exact') and isinstance(t_.value, ast.Name) and t_.value.id in ('cls', g.name):
                        v_ = st_.value
                        if isinstance(v_, ast.Constant) and isinstance(v_.value, bool):
                            out.setdefault(t_.attr, set()).add(v_.value)
                        elif pol(v_) is not None:
                            out.setdefault(t_.attr, set()).add(pol(v_) == case)
                        else:
                            out.setdefault(t_.attr, set()).add('?')
                    if unparse(t_) in ('cls.epsilon', 'cls.epsilon._value'):
                        out.setdefault('eps', []).append(unparse(st_))
            elif isinstance(st_, (ast.For, ast.While, ast.With, ast.Try)):
                walk(getattr(st_, 'body', []), case, out)
    z, nz = {}, {}
    walk(init.node.body, 'zero', z)
    walk(init.node.body, 'nonzero', nz)
    return z, nz


def r24_guard0_equivalence(ctx):
    R = 'R24'
    summ = getattr(ctx, '_value_summaries', None)
    if summ is None:
        repo = ctx.repo
        summ = {}
        for qn in (FIXED, GUARDED):
            cls = repo.cls(qn)
            summ[qn] = {}
            for mname in spec_table(False):
                f = cls.methods.get(mname)
                if f is None:
                    continue
                paths = {}
                for o in vs.summarise(cls, f, cls.mangle('__scale'), {cls.name}):
                    paths[_canon_conds(o.conds)] = o.value.term if isinstance(o.value, vs.Obj) else ('notvalue',)
                summ[qn][mname] = paths
    fx, gd = summ[FIXED], summ[GUARDED]
    g = ctx.repo.cls(GUARDED)
    n = 0
    for mname in sorted(fx):
        n += 1
        f = g.methods.get(mname)
        gpaths = {}
        for conds, term in gd.get(mname, {}).items():
            if 'guard' in conds:
                continue
            gpaths[tuple(c for c in conds if c != 'noguard')] = term
        ctx.check(gpaths == fx[mname], R, f.node if f else g.node, f or g.qualname,
                  'Guarded.%s restricted to guard == 0 computes exactly what Fixed.%s computes' % (mname, mname),
                  '%d path(s) with identical operand forms and conditions' % len(gpaths),
                  'guard-0 summary of Guarded.%s differs from Fixed.%s: %s vs %s'
                  % (mname, mname, {(_fmt_conds(k)): show(v) for k, v in gpaths.items()}, {(_fmt_conds(k)): show(v) for k, v in fx[mname].items()}))
    ctx.floor(R, 'sibling operations compared', n, 10)
    # flags: guard == 0 branch of initialize sets exact = quasi_exact = False and epsilon = 1 ulp
    init = g.methods['initialize']
    # decided by walking initialize() once with guard == 0 and once with guard > 0: tests on the guard (directly, through a local bound
    # once to such a test, `bool(cls.guard)`, either polarity) select a branch, every other test takes both; what is stored to the two
    # flags and to epsilon in each case is collected.  Independent of whether the flags are set in the branches of an if or from a
    # boolean expression.
    z, nz = guard_cases(init, g.name)
    need('exact' in z or 'exact' in nz, 'R24: Guarded.initialize never stores the exactness flags')
    ctx.check(z.get('exact') == {False} and z.get('quasi_exact') == {False} and z.get('eps') == ['cls.epsilon = cls(0)', 'cls.epsilon._value = 1'],
              R, init.node, init, 'with guard == 0 Guarded carries the flags of Fixed (inexact, epsilon = 1 unit)',
              'guard == 0: exact = quasi_exact = False, epsilon = cls(0) with _value 1',
              'with guard == 0 initialize stores exact=%s quasi_exact=%s epsilon=%s' % (sorted(z.get('exact', []), key=str), sorted(z.get('quasi_exact', []), key=str), z.get('eps')))
    ctx.check(nz.get('exact') == {True} and nz.get('quasi_exact') == {True}, R, init.node, init,
              'with guard digits Guarded declares itself (quasi-)exact', 'guard > 0: exact = quasi_exact = True',
              'with guard > 0 initialize stores exact=%s quasi_exact=%s' % (sorted(nz.get('exact', []), key=str), sorted(nz.get('quasi_exact', []), key=str)))
    fxc = ctx.repo.cls(FIXED)
    okf = isinstance(fxc.class_attrs.get('exact'), ast.Constant) and fxc.class_attrs['exact'].value is False \
        and isinstance(fxc.class_attrs.get('quasi_exact'), ast.Constant) and fxc.class_attrs['quasi_exact'].value is False
    ctx.check(okf, R, fxc.node, fxc.qualname, 'Fixed declares itself inexact', 'exact = quasi_exact = False', 'Fixed.exact/quasi_exact changed',
              nontrivial=False)
    # geps with guard 0: scaleg = 1, 1 // 2 = 0 -> floor 1: differences < 1 stored unit, i.e. equality of integers (R23)
    # (rule level) a rule that lets the caller choose the arithmetic treats the choice only as a source of DEFAULTS: inside a
    # branch of options() that depends on the arithmetic name every statement is `[x =] options.setopt(name, default=...)`.
    # Anything else (a forced value, a clamp, an extra test) makes fixed and guarded-with-guard-0 differ for the same
    # explicitly given options.
    from .common import rules as _rules
    nb = 0
    for ri in _rules(ctx):
        if _forced_arithmetic(ctx, ri) is not None:
            continue
        opt = ri.cls.find_method('options')
        if opt is None:
            continue

        def _arith_test(t):
            return any((isinstance(x, ast.Constant) and x.value in ('fixed', 'guarded', 'rational', 'integer')) for x in ast.walk(t))
        for node in opt.own_nodes():
            if isinstance(node, ast.If) and _arith_test(node.test):
                for blk in (node.body, [x for x in node.orelse if not isinstance(x, ast.If)]):
                    for st in blk:
                        nb += 1
                        v = st.value if isinstance(st, (ast.Assign, ast.Expr)) else None
                        okd = isinstance(v, ast.Call) and isinstance(v.func, ast.Attribute) and v.func.attr == 'setopt' \
                            and not any(k.arg == 'force' for k in v.keywords) and any(k.arg == 'default' for k in v.keywords)
                        ctx.check(okd, R, st, opt, 'in a rule with selectable arithmetic, the arithmetic only selects defaults: explicitly given options mean '
                                  'the same under fixed and under guarded with guard 0',
                                  '`%s` only supplies a default' % stmt_text(st),
                                  '`%s` in the `%s` branch of %s.options() does more than supply a default: the same explicit options give different '
                                  'counts under fixed and under guarded with guard=0' % (stmt_text(st), unparse(node.test), ri.short), nontrivial=False)
    ctx.floor(R, 'arithmetic-dependent option defaults', nb, 7)
    # (count level) what a rule does may depend on the arithmetic only through V.exact, and V.exact only decides the quota form and
    # the election comparison (R13) or whether progress is printed.  Anything else - V.quasi_exact, V.name, the flag kept in a
    # local that steers the count - makes guarded (quasi-exact) and rational counts differ in more than rounding noise.
    from .common import all_funcs_of as _afo
    ne = 0
    for ri in _rules(ctx):
        roles = [ri.helper(ctx, 'calcQuota'), ri.helper(ctx, 'hasQuota')]
        for g in _afo(ri.count):
            for a in g.own_nodes():
                if not (isinstance(a, ast.Attribute) and isinstance(a.ctx, ast.Load) and a.attr in ('exact', 'quasi_exact', 'name', '__name__')
                        and ctx.canon(a.value, g) == 'E.V'):
                    continue
                ne += 1
                st = ctx.repo.enclosing_stmt(a)
                what = 'a rule consults the arithmetic only through V.exact, and only for the quota form, the election test or progress output'
                if a.attr != 'exact':
                    ok = isinstance(st, ast.Assert)
                    ctx.check(ok, R, a, g, what, 'inside an assert', '`%s` read in %s: the count is steered by which arithmetic class is in use '
                              '(guarded and rational must take the same path)' % (unparse(a), g.qualname), nontrivial=False)
                    continue
                ok = False
                how = ''
                if g in roles:
                    ok, how = True, 'inside the quota / election-test helper %s() (R13 decides its form)' % g.name
                elif isinstance(st, ast.If) and any(x is a for x in ast.walk(st.test)):
                    body = st.body + st.orelse
                    if all(isinstance(b_, ast.Expr) and isinstance(b_.value, ast.Call) and ctx.canon(b_.value.func, g) == 'E.prog' for b_ in body):
                        ok, how = True, 'gates progress output only'
                    elif isinstance(unparse(st.test), str) and all(isinstance(b_, (ast.Assign, ast.Return)) and (
                            ctx.canon(b_.targets[0], g) == 'E.quota' if isinstance(b_, ast.Assign) else True) for b_ in body):
                        ok, how = True, 'chooses the quota form (R13 decides it)'
                ctx.check(ok, R, a, g, what, how, '`%s` in `%s` steers more than the quota form / election test / progress output: a guarded '
                          '(quasi-exact) count and a rational one take different paths' % (unparse(a), stmt_text(st)), nontrivial=False)
    ctx.floor(R, 'exactness reads in rules', ne, 6)


# ---------------------------------------------------------------------------
# R25 printing
# ---------------------------------------------------------------------------

def _nonneg(f, name, at_line):
    """is local `name` provably non-negative at the given line: last assignment before it is abs(...)
    (or a % / // of non-negative locals by positive class scales)"""
    last = None
    for n in f.own_nodes():
        if isinstance(n, (ast.Assign, ast.AugAssign)) and n.lineno < at_line:
            tg = n.targets[0] if isinstance(n, ast.Assign) else n.target
            if isinstance(tg, ast.Name) and tg.id == name:
                if last is None or n.lineno > last.lineno:
                    last = n
    if last is None:
        return False
    if isinstance(last, ast.Assign):
        v = last.value
        if isinstance(v, ast.Call) and isinstance(v.func, ast.Name) and v.func.id == 'abs':
            return True
        if isinstance(v, ast.BinOp) and isinstance(v.op, (ast.Mod, ast.FloorDiv)) and isinstance(v.left, ast.Name):
            return _nonneg(f, v.left.id, last.lineno)
    return False


def _round_then_floor(cls, f):
    """find `v += cls.A` ... `v //= cls.B` (in this order) or `(v + cls.A) // cls.B` in __str__; returns
    (mangled A, mangled B, anchor node) or None"""
    def attr_of(e):
        if isinstance(e, ast.Attribute) and isinstance(e.value, ast.Name) and e.value.id in ('self', 'cls', cls.name):
            return cls.mangle(e.attr)
        return None
    for n in f.own_nodes():
        if isinstance(n, ast.BinOp) and isinstance(n.op, ast.FloorDiv) and isinstance(n.left, ast.BinOp) and isinstance(n.left.op, ast.Add):
            a = attr_of(n.left.right) or attr_of(n.left.left)
            b = attr_of(n.right)
            if a and b:
                return a, b, n
    augs = sorted([n for n in f.own_nodes() if isinstance(n, ast.AugAssign) and isinstance(n.target, ast.Name)], key=lambda x: x.lineno)
    for i, n in enumerate(augs):
        if isinstance(n.op, ast.Add) and attr_of(n.value):
            for m in augs[i + 1:]:
                if m.target.id == n.target.id and isinstance(m.op, ast.FloorDiv) and attr_of(m.value):
                    return attr_of(n.value), attr_of(m.value), n
    return None


def _linear_ok(e, want):
    """is e a +/- combination of cls.<attr> with exactly the coefficients `want`?"""
    coef = {}

    def walk(x, sign):
        if isinstance(x, ast.BinOp) and isinstance(x.op, ast.Add):
            walk(x.left, sign)
            walk(x.right, sign)
        elif isinstance(x, ast.BinOp) and isinstance(x.op, ast.Sub):
            walk(x.left, sign)
            walk(x.right, -sign)
        elif isinstance(x, ast.Attribute):
            coef[x.attr] = coef.get(x.attr, 0) + sign
        else:
            coef['?'] = 1
    walk(e, 1)
    return coef == want


def r25_printing(ctx):
    R = 'R25'
    repo = ctx.repo
    for qn in (FIXED, GUARDED, RATIONAL):
        cls = repo.cls(qn)
        f = cls.methods.get('__str__')
        need(f is not None, '%s.__str__ missing' % qn)
        # (a) pure
        impure = [n for n in f.own_nodes() if isinstance(n, ast.Attribute) and isinstance(n.ctx, (ast.Store, ast.Del))]
        impure += [n for n in f.own_nodes() if isinstance(n, ast.Subscript) and isinstance(n.ctx, (ast.Store, ast.Del))]
        impure += [n for n in f.own_nodes() if isinstance(n, (ast.Global, ast.Nonlocal))]
        ctx.check(not impure, R, impure[0] if impure else f.node, f, 'printing a value does not alter it (or anything else)',
                  'no attribute/item store in %s.__str__' % cls.name, '__str__ stores to `%s`' % (unparse(impure[0]) if impure else ''))
        # (c) sign-safe printing, decided on the (conditions -> returned expression) summary of __str__ (locals substituted, conditional
        # expressions split): on a path where the printed quantity X is negative the result is '-' + fmt % (parts of abs(X)); where it
        # is not, fmt % (parts of X or abs(X)) with an empty prefix; the parts fed to // and % are never of unknown sign.
        from ..symret import guarded_returns, _canon_cond
        gr = guarded_returns(f.node, deep_ifexp=True)
        if gr is None:
            ctx.unrecognised(R, f.node, f, 'the way %s.__str__ builds its result' % cls.name, 'not a branching of returns over simple locals')
            continue
        nfmt = 0
        for conds, e, ret in gr:
            if e is None:
                ctx.bad(R, ret or f.node, f, 'a negative value is printed with a minus sign in front of its magnitude', '__str__ can return None')
                continue
            neg_of, nonneg_of = set(), set()
            for t_, tr_ in conds:
                k_, v_ = _canon_cond(t_, tr_, unparse)
                if k_[0] == '<' and k_[2] == '0':
                    (neg_of if v_ else nonneg_of).add(k_[1])
            prefix, rest = None, e
            if isinstance(e, ast.BinOp) and isinstance(e.op, ast.Add) and isinstance(e.left, ast.Constant) and isinstance(e.left.value, str):
                prefix, rest = e.left.value, e.right
            if isinstance(rest, ast.Call) and unparse(rest.func) == 'str' and len(rest.args) == 1 and prefix in (None, ''):
                arg_ = rest.args[0]
                floors = [x_ for x_ in ast.walk(arg_) if isinstance(x_, ast.BinOp) and isinstance(x_.op, (ast.FloorDiv, ast.Mod))]
                plain = isinstance(arg_, ast.Attribute) and arg_.attr == '_value'
                if plain:
                    ctx.ok(R, ret, f, 'a negative value is printed with a minus sign in front of its magnitude', 'integer fast path: str(<stored integer>)', nontrivial=False)
                elif floors and not any(unparse(x_.left) in nonneg_of or (isinstance(x_.left, ast.Call) and unparse(x_.left.func) == 'abs') for x_ in floors):
                    ctx.bad(R, ret, f, 'the integer/fraction split for printing is applied to a magnitude (sign handled separately)',
                            '`%s` floors a value of unknown sign (and drops the fraction without rounding): -0.5 prints as -1' % unparse(rest))
                else:
                    ctx.unrecognised(R, ret or f.node, f, 'the way %s.__str__ builds its result' % cls.name, '`%s` is not str(<stored integer>)' % unparse(rest)[:80])
                continue
            if isinstance(rest, ast.BinOp) and isinstance(rest.op, ast.Mod) and isinstance(rest.right, ast.Call) and isinstance(rest.right.func, ast.Name) \
                    and rest.right.func.id == 'divmod' and len(rest.right.args) == 2:
                a_, b_ = rest.right.args
                rest = ast.BinOp(left=rest.left, op=ast.Mod(), right=ast.Tuple(elts=[ast.BinOp(left=a_, op=ast.FloorDiv(), right=b_),
                                                                                     ast.BinOp(left=a_, op=ast.Mod(), right=b_)], ctx=ast.Load()))
            if not (isinstance(rest, ast.BinOp) and isinstance(rest.op, ast.Mod) and isinstance(rest.right, ast.Tuple)):
                ctx.unrecognised(R, ret or f.node, f, 'the way %s.__str__ builds its result' % cls.name, '`%s` is not `[sign +] fmt %% (parts)`' % unparse(e)[:80])
                continue
            nfmt += 1
            mags = set()

            def nonneg(x):
                if unparse(x) in nonneg_of:
                    mags.add(unparse(x))
                    return True
                if isinstance(x, ast.Call) and isinstance(x.func, ast.Name) and x.func.id == 'abs' and len(x.args) == 1:
                    mags.add(unparse(x.args[0]))
                    return True
                if isinstance(x, ast.UnaryOp) and isinstance(x.op, ast.USub) and unparse(x.operand) in neg_of:
                    mags.add(unparse(x.operand))        # -X on a path where X < 0
                    return True
                if isinstance(x, ast.BinOp) and isinstance(x.op, (ast.FloorDiv, ast.Mod)) and isinstance(x.right, ast.Attribute):
                    return nonneg(x.left)
                if isinstance(x, ast.Constant) and isinstance(x.value, int) and x.value >= 0:
                    return True
                if unparse(x) in nonneg_of:
                    mags.add(unparse(x))
                    return True
                return False
            bad_parts = [unparse(p_) for p_ in rest.right.elts if not nonneg(p_)]
            ctx.check(not bad_parts, R, ret, f, 'the integer/fraction split for printing is applied to a magnitude (sign handled separately)',
                      '%d part(s), each a // or %% of abs(...) (or of a quantity tested non-negative on this path)' % len(rest.right.elts),
                      '`%s` splits a value of unknown sign with floor-based // and %%: -0.5 prints as -1.500' % (bad_parts[0] if bad_parts else ''))
            if bad_parts:
                continue
            if neg_of:
                oks = prefix == '-' and mags <= neg_of
            elif nonneg_of:
                oks = prefix in ('', None) and mags <= nonneg_of
            else:
                oks = False         # the magnitude is printed on a path that never looked at the sign
            ctx.check(oks, R, ret, f, 'a negative value is printed with a minus sign in front of its magnitude',
                      "prefix %r on the path where %s is %s" % (prefix, ', '.join(sorted(neg_of or nonneg_of)), 'negative' if neg_of else 'not negative'),
                      'the sign is not prefixed to the formatted magnitude (prefix %r on a path where %s)'
                      % (prefix, ('%s < 0' % ', '.join(sorted(neg_of))) if neg_of else (('%s >= 0' % ', '.join(sorted(nonneg_of))) if nonneg_of else 'the sign was never tested')))
        if nfmt == 0:
            raise AnalysisError('%s.__str__: no `fmt %% (int part, fraction part)` found' % cls.name)
    # (b) half-up: the constant added before the floor division is defined by initialize() as half the divisor
    for qn in (FIXED, GUARDED):
        cls = repo.cls(qn)
        s_ = cls.methods['__str__']
        init = cls.methods['initialize']
        defs = {}
        for n in init.own_nodes():
            if isinstance(n, ast.Assign) and len(n.targets) == 1 and isinstance(n.targets[0], ast.Attribute) \
                    and isinstance(n.targets[0].value, ast.Name) and n.targets[0].value.id == 'cls':
                defs.setdefault(cls.mangle(n.targets[0].attr), []).append(n.value)
        pair = _round_then_floor(cls, s_)
        what = '%s.__str__ rounds half-up: adds half the dropped unit, then floors' % cls.name
        if pair is None:
            ctx.bad(R, s_.node, s_, what, 'no `v + <const>` followed by `// <divisor>` (in this order) found in __str__: the printed value is truncated, not rounded')
            continue
        ra, da, anchor = pair
        rdef, ddef = defs.get(ra, []), defs.get(da, [])
        ok = len(rdef) == 1 and isinstance(rdef[0], ast.BinOp) and isinstance(rdef[0].op, ast.FloorDiv) \
            and isinstance(rdef[0].left, ast.Attribute) and cls.mangle(rdef[0].left.attr) == da \
            and isinstance(rdef[0].right, ast.Constant) and rdef[0].right.value == 2
        okd = len(ddef) == 1 and isinstance(ddef[0], ast.BinOp) and isinstance(ddef[0].op, ast.Pow) \
            and isinstance(ddef[0].left, ast.Constant) and ddef[0].left.value == 10
        want_exp = '(cls.guard + cls.precision - cls.display)' if qn == GUARDED else '(cls.precision - cls.display)'
        if okd:
            e = ddef[0].right
            names = sorted(x.attr for x in ast.walk(e) if isinstance(x, ast.Attribute))
            okd = names == (['display', 'guard', 'precision'] if qn == GUARDED else ['display', 'precision']) \
                and _linear_ok(e, {'precision': 1, 'guard': 1, 'display': -1} if qn == GUARDED else {'precision': 1, 'display': -1})
        ctx.check(ok and okd, R, anchor, s_, what,
                  'adds cls.%s then floor-divides by cls.%s; initialize(): %s = %s // 2, %s = 10 ** (stored digits - display digits)'
                  % (ra.split('__')[-1], da.split('__')[-1], ra.split('__')[-1], da.split('__')[-1], da.split('__')[-1]),
                  'the rounding constant is `%s` and the divisor `%s`: not "half the dropped unit" / "10 ** dropped digits"'
                  % ([unparse(x) for x in rdef], [unparse(x) for x in ddef]))
        # the display precision is clamped only when it is out of range
        if qn == FIXED:
            # the local that ends up in cls.display
            dsrc = [x.value for x in init.own_nodes() if isinstance(x, ast.Assign) and unparse(x.targets[0]) == 'cls.display']
            dname = None
            if len(dsrc) == 1:
                v_ = dsrc[0]
                if isinstance(v_, ast.Call) and unparse(v_.func) == 'int' and len(v_.args) == 1:
                    v_ = v_.args[0]
                dname = v_.id if isinstance(v_, ast.Name) else None
            need(dname is not None, 'Fixed.initialize: cls.display is not assigned from a local')
            clamps = [n for n in init.own_nodes() if isinstance(n, ast.If) and any(isinstance(x, ast.Assign) and unparse(x.targets[0]) == dname for x in n.body)]
            okc = len(clamps) == 1 and isinstance(clamps[0].test, ast.BoolOp) and isinstance(clamps[0].test.op, ast.Or) and \
                sorted(unparse(v) for v in clamps[0].test.values) == ['%s < 0' % dname, '%s > cls.precision' % dname]
            ctx.check(okc, R, clamps[0] if clamps else init.node, init, 'Fixed honours the configured display digits whenever 0 <= display <= precision',
                      'display is replaced by the precision only under `display < 0 or display > cls.precision`',
                      'the display clamp is `%s`' % (unparse(clamps[0].test) if clamps else None), nontrivial=False)
        # the integer/fraction split uses 10 ** display
        sc = [k for k, v in defs.items() if len(v) == 1 and unparse(v[0]) == '10 ** cls.display']
        used = [x for x in s_.own_nodes() if isinstance(x, ast.Attribute) and cls.mangle(x.attr) in sc]
        ctx.check(bool(sc) and len(used) >= 1, R, s_.node, s_, '%s.__str__ splits at 10 ** display' % cls.name,
                  'integer part // and fraction %% use cls.%s = 10 ** cls.display' % (sc[0].split('__')[-1] if sc else '?'),
                  'the display split does not use 10 ** cls.display', nontrivial=False)
    gd = repo.cls(GUARDED)
    # the underscore format for display > precision
    ok = any('_%0' in (const_str(x) or '').replace('%%', '%') for n in gd.methods['initialize'].own_nodes() if isinstance(n, (ast.Assign, ast.AugAssign))
             for x in ast.walk(n.value))
    ctx.check(ok, R, gd.methods['initialize'].node, gd.methods['initialize'], 'guard digits shown beyond the precision are set off by an underscore',
              '"%d.%0<p>d_%0<g>d" format when display > precision', 'underscore format missing', nontrivial=False)
    rt = repo.cls(RATIONAL)
    txt = {unparse(n.targets[0]): n.value for n in rt.methods['initialize'].own_nodes() if isinstance(n, ast.Assign) and len(n.targets) == 1}
    s = rt.methods['__str__']
    # v = self + R ; v = v.numerator * S // v.denominator   (R = Fraction(1, 2*S), S = 10 ** display digits)
    adds = [n for n in s.own_nodes() if isinstance(n, ast.Assign) and isinstance(n.value, ast.BinOp) and isinstance(n.value.op, ast.Add)
            and isinstance(n.value.left, ast.Name) and n.value.left.id == 'self' and isinstance(n.value.right, ast.Attribute)]
    floors = [n for n in s.own_nodes() if isinstance(n, ast.Assign) and isinstance(n.value, ast.BinOp) and isinstance(n.value.op, ast.FloorDiv)
              and isinstance(n.value.left, ast.BinOp) and isinstance(n.value.left.op, ast.Mult) and 'numerator' in unparse(n.value.left)
              and 'denominator' in unparse(n.value.right)]
    ok = len(adds) == 1 and len(floors) == 1 and adds[0].lineno < floors[0].lineno
    R_attr = S_attr0 = None
    if ok:
        R_attr = adds[0].value.right.attr
        S_attr = [x.attr for x in ast.walk(floors[0].value.left) if isinstance(x, ast.Attribute) and x.attr not in ('numerator', 'denominator')]
        S_attr0 = S_attr[0] if S_attr else None
    if not ok or S_attr0 is None:
        R_attr = S_attr0 = None
        # the same computation written through other locals: read it off the (conditions -> result) summary of __str__ - some path
        # prints the quantity (self + cls.<r>).numerator * cls.<s> // (self + cls.<r>).denominator
        import re as _re
        from ..symret import guarded_returns as _gr
        pat = _re.compile(r"\(self \+ (?:Rational|cls|self)\.(\w+)\)\.numerator \* (?:Rational|cls|self)\.(\w+) // \(self \+ (?:Rational|cls|self)\.(\w+)\)\.denominator")
        for conds_, e_, _r in (_gr(s.node, deep_ifexp=True) or []):
            if e_ is None:
                continue
            m_ = pat.search(unparse(e_))
            if m_ and m_.group(1) == m_.group(3):
                R_attr, S_attr0 = m_.group(1), m_.group(2)
        ok = R_attr is not None
    if ok:
        rdef = txt.get('cls.' + R_attr)
        sdef = txt.get('cls.' + S_attr0) if S_attr0 else None
        ok = rdef is not None and sdef is not None and isinstance(rdef, ast.Call) and unparse(rdef.func) == 'Fraction' and len(rdef.args) == 2 \
            and isinstance(rdef.args[0], ast.Constant) and rdef.args[0].value == 1 \
            and unparse(rdef.args[1]).replace(' ', '') in ('cls.%s*2' % S_attr0, '2*cls.%s' % S_attr0) \
            and isinstance(sdef, ast.BinOp) and isinstance(sdef.op, ast.Pow) and isinstance(sdef.left, ast.Constant) and sdef.left.value == 10
    ctx.check(ok, R, s.node, s, 'Rational.__str__ rounds half-up: adds half a display unit, then floors',
              'v = self + cls.<r>; v = v.numerator * cls.<s> // v.denominator with <r> = Fraction(1, 2 * <s>), <s> = 10 ** display digits',
              'Rational.__str__ does not add Fraction(1, 2 * 10**display) before flooring at 10**display')
    # (d) no lossy rendering of values in the record / hooks
    n_r = 0
    targets = [repo.func('droop.record.ElectionRecord.report'), repo.func('droop.record.ElectionRecord.dump'),
               repo.func('droop.record.ElectionRecord.json')]
    for ri in rules(ctx):
        for hn in ('report', 'dump', 'action'):
            h = ri.cls.find_method(hn)
            if h is not None and h not in targets:
                targets.append(h)
    for f in targets:
        for g in all_funcs_of(f):
            for n in g.own_nodes():
                if isinstance(n, ast.Call) and isinstance(n.func, ast.Name) and n.func.id in ('float', 'round', 'int', 'repr', 'format'):
                    n_r += 1
                    ctx.bad(R, n, g, 'renderings print values with str() only', '%s(...) applied while rendering' % n.func.id)
                if isinstance(n, ast.BinOp) and isinstance(n.op, ast.Mod) and const_str(n.left):
                    n_r += 1
                    bad = [m for m in __import__('re').findall(r'%[-#0 +]*\d*(?:\.\d+)?([a-zA-Z])', const_str(n.left)) if m in 'feEgGr']
                    ctx.check(not bad, R, n, g, 'renderings print values with %s / %d only', 'format `%s`' % const_str(n.left)[:40].replace('\n', '\\n'),
                              'lossy format specifier %%%s in `%s`' % (bad[0] if bad else '', const_str(n.left)[:40]), nontrivial=False)
                if isinstance(n, ast.JoinedStr):
                    for v in n.values:
                        if isinstance(v, ast.FormattedValue) and v.format_spec is not None:
                            ctx.bad(R, n, g, 'renderings print values with str() only', 'f-string format spec while rendering')
                # the printed form is not edited afterwards: no string method / slice applied to str(<item>), and no
                # special-casing of an arithmetic class (one stored value would print differently in report, dump and JSON)
                if isinstance(n, (ast.Attribute, ast.Subscript)) and isinstance(n.value, ast.Call) and isinstance(n.value.func, ast.Name) \
                        and n.value.func.id == 'str' and isinstance(n.ctx, ast.Load):
                    n_r += 1
                    ctx.bad(R, n, g, 'renderings print values with str() only', 'the printed form is edited afterwards: `%s`' % unparse(n.parent if isinstance(n.parent, ast.Call) else n))
                if isinstance(n, ast.Call) and isinstance(n.func, ast.Name) and n.func.id == 'isinstance' and len(n.args) == 2 \
                        and any(isinstance(x, (ast.Attribute, ast.Name)) and (getattr(x, 'attr', None) or getattr(x, 'id', None)) in ('Guarded', 'Fixed', 'Rational')
                                for x in ast.walk(n.args[1])):
                    in_encoder = g.name == 'default' and g.owner_class is not None and (g.owner_class.qualname.startswith('droop.record.ElectionRecord.json.') or any(b_ in ('json_.JSONEncoder', 'json.JSONEncoder', 'JSONEncoder') for b_ in g.owner_class.base_names))
                    n_r += 1
                    ctx.check(in_encoder, R, n, g, 'renderings do not special-case an arithmetic class (the JSON encoder, which returns str(obj), excepted)',
                              'isinstance test in the JSON encoder\'s default()', '`%s` in %s: one class of values is rendered differently here than elsewhere'
                              % (unparse(n), g.qualname), nontrivial=False)
    js = repo.func('droop.record.ElectionRecord.json')
    # the encoder class handed to json.dumps(cls=...): nested in json() or at module level
    enc = []
    for c_ in js.own_nodes():
        if isinstance(c_, ast.Call) and isinstance(c_.func, ast.Attribute) and c_.func.attr in ('dumps', 'dump'):
            for k_ in c_.keywords:
                if k_.arg == 'cls' and isinstance(k_.value, ast.Name):
                    enc += [c for c in repo.classes.values() if c.name == k_.value.id and c.module is js.module]
    okj = False
    from ..symret import guarded_returns
    for c in enc:
        d = c.methods.get('default')
        if d is not None:
            gr = guarded_returns(d.node)
            if gr is None:
                rets = [unparse(r.value) for r in d.own_nodes() if isinstance(r, ast.Return) and r.value is not None]
            else:
                rets = []
                for conds, e, _r in gr:
                    # a path that needs `str(...) is None` cannot be taken
                    dead = any(isinstance(t_, ast.Compare) and len(t_.ops) == 1 and isinstance(t_.ops[0], (ast.Is, ast.IsNot))
                               and isinstance(t_.left, ast.Call) and unparse(t_.left.func) == 'str' and (isinstance(t_.ops[0], ast.Is) == tr_)
                               and isinstance(t_.comparators[0], ast.Constant) and t_.comparators[0].value is None for t_, tr_ in conds)
                    if not dead and e is not None:
                        rets.append(unparse(e))
            p_obj = d.params[1] if len(d.params) > 1 else 'obj'
            others = [r for r in rets if r not in ('str(%s)' % p_obj, 'str(values.rational.Rational(%s))' % p_obj) and '.default(' not in r]
            okj = 'str(%s)' % p_obj in rets and 'str(values.rational.Rational(%s))' % p_obj in rets and not others
    ctx.check(okj, R, js.node, js, 'the JSON rendering uses the printed form of values', 'encoder default(): return str(obj)',
              'JSON encoder no longer stringifies values with str()')


# ---------------------------------------------------------------------------
# R50 immutability
# ---------------------------------------------------------------------------

INPLACE = ('__iadd__', '__isub__', '__imul__', '__itruediv__', '__ifloordiv__', '__imod__', '__ipow__')


def r50_value_immutability(ctx):
    R = 'R50'
    repo = ctx.repo
    n_st = 0
    for qn in (FIXED, GUARDED):
        cls = repo.cls(qn)
        for m in INPLACE:
            ctx.check(m not in cls.methods, R, cls.methods[m].node if m in cls.methods else cls.node, cls.qualname,
                      '%s defines no in-place operator (x += y rebinds, never mutates)' % cls.name, '%s not defined' % m,
                      '%s.%s mutates the left operand: values shared with a recorded snapshot would change' % (cls.name, m), nontrivial=False)
        for f in cls.methods.values():
            fresh = set()
            for n in f.own_nodes():
                if isinstance(n, ast.Assign) and len(n.targets) == 1 and isinstance(n.targets[0], ast.Name) \
                        and isinstance(n.value, ast.Call) and isinstance(n.value.func, ast.Name) \
                        and (n.value.func.id in (cls.name, 'cls')):
                    fresh.add(n.targets[0].id)
            # names assigned anything else are not fresh
            for n in f.own_nodes():
                if isinstance(n, ast.Assign) and len(n.targets) == 1 and isinstance(n.targets[0], ast.Name) \
                        and n.targets[0].id in fresh and not (isinstance(n.value, ast.Call) and isinstance(n.value.func, ast.Name)
                                                              and n.value.func.id in (cls.name, 'cls')):
                    fresh.discard(n.targets[0].id)
            for n in f.own_nodes():
                if isinstance(n, ast.Attribute) and n.attr == '_value' and isinstance(n.ctx, (ast.Store, ast.Del)):
                    n_st += 1
                    base = n.value
                    ok = False
                    how = ''
                    if isinstance(base, ast.Name) and base.id == 'self' and f.name == '__init__':
                        ok, how = True, 'self._value in __init__ (construction)'
                    elif isinstance(base, ast.Name) and base.id in fresh:
                        ok, how = True, '`%s` is bound only to objects constructed in this function' % base.id
                    elif unparse(base) == 'cls.epsilon' and f.name == 'initialize':
                        # cls.epsilon = cls(0) immediately before
                        st = repo.enclosing_stmt(n)
                        blk = st.parent.body if st in getattr(st.parent, 'body', []) else getattr(st.parent, 'orelse', [])
                        i = blk.index(st)
                        ok = i > 0 and unparse(blk[i - 1]) == 'cls.epsilon = cls(0)'
                        how = 'cls.epsilon was constructed by the preceding statement'
                    ctx.check(ok, R, n, f, 'a stored integer is written only into an object constructed in the same function',
                              how, 'store to `%s._value`: `%s` may be an operand or a shared object (e.g. a value already recorded in a snapshot)'
                              % (unparse(base), unparse(base)))
    # no store to _value outside droop/values
    for f in repo.funcs.values():
        if f.module.name.startswith('droop.values'):
            continue
        for n in f.own_nodes():
            if isinstance(n, ast.Attribute) and n.attr == '_value' and isinstance(n.ctx, (ast.Store, ast.Del)):
                ctx.bad(R, n, f, 'no code outside droop/values writes a stored integer', 'store to %s' % unparse(n))
    for m in repo.modules.values():
        if m.name.startswith('droop.values'):
            continue
        for n in ast.walk(m.tree):
            if isinstance(n, ast.Attribute) and n.attr == '_value' and isinstance(n.ctx, ast.Load):
                ctx.note(R, '%s reads ._value directly (%s)' % (m.name, ctx.repo.loc(n)))
    ctx.floor(R, '_value stores in Fixed/Guarded', n_st, 20)
    # Rational: Fraction is immutable; Rational defines __slots__? no instance attributes are assigned
    rat = repo.cls(RATIONAL)
    for f in rat.methods.values():
        for n in f.own_nodes():
            if isinstance(n, ast.Attribute) and isinstance(n.ctx, ast.Store) and isinstance(n.value, ast.Name) and n.value.id == 'self':
                ctx.bad(R, n, f, 'Rational instances carry no mutable attribute', 'store to self.%s' % n.attr)
