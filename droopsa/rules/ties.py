"""R15 tie funnel, R16 extremum polarity, R17 single candidates come out of breakTie, R18 sure-loser
strictness."""
import ast

from ..model import AnalysisError, need, call_name, const_str, unparse, alpha_body, alpha_src
from ..cfg import cfg_of, calls_at, reaching_defs
from .common import (rules, deriv, attr_calls, cfg_node_of, is_selector_call, strip_sorters, all_funcs_of, stmt_text,
                     STATUS_METHODS)


def _break_ties(ctx):
    out = []
    for ri in rules(ctx):
        bt = ri.helper(ctx, 'breakTie')
        need(bt is not None, '%s.count has no local breakTie()' % ri.cls.qualname)
        out.append((ri, bt))
    return out


def _tied_param(bt):
    """the parameter holding the tied candidates: the one handed to C.byTieOrder (falls back to the name `tied`)"""
    for n in bt.own_nodes():
        if isinstance(n, ast.Call) and isinstance(n.func, ast.Attribute) and n.func.attr == 'byTieOrder' and n.args \
                and isinstance(n.args[0], ast.Name) and n.args[0].id in bt.params:
            return n.args[0].id
    for p in bt.params:
        if p == 'tied':
            return p
    raise AnalysisError('breakTie of %s has no parameter holding the tied candidates' % bt.qualname)


def _tie_numbering(ctx, tie):
    """how __bltOptionTie fills self.tieOrder: must map candidate id -> 1-based position in the listed order.
    Returns (True/False/None, text)."""
    lst = tie.params[1] if len(tie.params) > 1 else 'option_list'
    # dict(enumerate(xs, 1)) maps position -> candidate: the inverse permutation
    for n in tie.own_nodes():
        if isinstance(n, ast.Assign) and unparse(n.targets[0]) == 'self.tieOrder' and isinstance(n.value, ast.Call) \
                and isinstance(n.value.func, ast.Name) and n.value.func.id == 'dict' and n.value.args \
                and isinstance(n.value.args[0], ast.Call) and unparse(n.value.args[0].func) == 'enumerate':
            return False, '`%s` maps position -> candidate id; every reader takes tieOrder[cid] as the candidate\'s rank (the inverse ' \
                          'permutation is used)' % unparse(n)
        if isinstance(n, ast.Assign) and unparse(n.targets[0]) == 'self.tieOrder' and isinstance(n.value, ast.DictComp):
            dc = n.value
            g = dc.generators[0]
            if isinstance(g.iter, ast.Call) and unparse(g.iter.func) == 'enumerate' and isinstance(g.target, ast.Tuple) and len(g.target.elts) == 2:
                iv, ev = g.target.elts
                start = g.iter.args[1].value if len(g.iter.args) > 1 and isinstance(g.iter.args[1], ast.Constant) else \
                    next((k.value.value for k in g.iter.keywords if k.arg == 'start' and isinstance(k.value, ast.Constant)), 0)
                val = unparse(dc.value).replace(' ', '')
                v_ok = (start == 1 and val == iv.id) or (start == 0 and val in (iv.id + '+1', '1+' + iv.id))
                k_ok = any(isinstance(x, ast.Name) and x.id == ev.id for x in ast.walk(dc.key))
                return (v_ok and k_ok), 'dict comprehension over enumerate: key from the token, value %s (start %s)' % (unparse(dc.value), start)
    stores = [n for n in tie.own_nodes() if isinstance(n, ast.Subscript) and isinstance(n.ctx, ast.Store) and unparse(n.value) == 'self.tieOrder']
    if len(stores) != 1:
        return None, '__bltOptionTie fills self.tieOrder in an unrecognised way (%d subscript stores)' % len(stores)
    st = ctx.repo.enclosing_stmt(stores[0])
    loop = st.parent
    while loop is not None and not isinstance(loop, (ast.For, ast.FunctionDef)):
        loop = loop.parent
    if not isinstance(loop, ast.For) or not isinstance(st, ast.Assign):
        return None, 'the store into self.tieOrder is not inside a for-loop'
    val = st.value
    # the element variable of the loop must feed the key (through getCid)
    if isinstance(loop.iter, ast.Call) and unparse(loop.iter.func) == 'enumerate':
        if not (isinstance(loop.target, ast.Tuple) and len(loop.target.elts) == 2 and unparse(loop.iter.args[0]) == lst):
            return None, 'enumerate loop of unrecognised shape'
        iv, ev = loop.target.elts
        start = loop.iter.args[1].value if len(loop.iter.args) > 1 and isinstance(loop.iter.args[1], ast.Constant) else \
            next((k.value.value for k in loop.iter.keywords if k.arg == 'start' and isinstance(k.value, ast.Constant)), 0)
        v = unparse(val).replace(' ', '')
        ok = (start == 1 and v == iv.id) or (start == 0 and v in (iv.id + '+1', '1+' + iv.id))
        elem = ev.id
        how = 'for %s, %s in enumerate(%s, %s): self.tieOrder[...] = %s' % (iv.id, ev.id, lst, start, unparse(val))
    else:
        if unparse(loop.iter) != lst or not isinstance(loop.target, ast.Name) or not isinstance(val, ast.Name):
            return None, 'loop over the tie list of unrecognised shape'
        elem = loop.target.id
        cnt = val.id
        inits = [n for n in tie.node.body if isinstance(n, ast.Assign) and isinstance(n.targets[0], ast.Name) and n.targets[0].id == cnt
                 and n.lineno < loop.lineno]
        incs = [n for n in loop.body if isinstance(n, ast.AugAssign) and isinstance(n.target, ast.Name) and n.target.id == cnt]
        ok = len(inits) == 1 and isinstance(inits[0].value, ast.Constant) and inits[0].value.value == 0 and len(incs) == 1 \
            and isinstance(incs[0].op, ast.Add) and isinstance(incs[0].value, ast.Constant) and incs[0].value.value == 1 \
            and incs[0].lineno < st.lineno
        how = '%s = 0; per token: %s += 1; self.tieOrder[cid] = %s' % (cnt, cnt, cnt)
    key = stores[0].slice
    key_expr = key
    if isinstance(key, ast.Name):
        ks = [n for n in loop.body if isinstance(n, ast.Assign) and isinstance(n.targets[0], ast.Name) and n.targets[0].id == key.id]
        key_expr = ks[0].value if len(ks) == 1 else None
    k_ok = key_expr is not None and isinstance(key_expr, ast.Call) and unparse(key_expr.func) == 'self.getCid' \
        and key_expr.args and isinstance(key_expr.args[0], ast.Name) and key_expr.args[0].id == elem
    if not k_ok:
        return False, 'the key of self.tieOrder is not getCid(<token of this position>)'
    return ok, (how if ok else 'the tie rank stored is not the 1-based position of the token: ' + how)


def r15_tie_funnel(ctx):
    R = 'R15'
    repo = ctx.repo
    # (a) byTieOrder call sites and tieOrder loads
    n_calls = 0
    for f in repo.funcs.values():
        for c in f.own_nodes():
            if isinstance(c, ast.Call) and isinstance(c.func, ast.Attribute) and c.func.attr == 'byTieOrder':
                n_calls += 1
                ok = f.parent is not None and f.parent.name == 'count' and any(ri2.helper(ctx, 'breakTie') is f for ri2 in rules(ctx))
                ok = ok or f.qualname == 'droop.candidates.Candidates.select'
                ctx.check(ok, R, c, f, 'the tie-break order is consulted only by the rules\' breakTie functions',
                          'call site inside %s' % f.qualname, 'byTieOrder called from %s' % f.qualname, nontrivial=False)
            if isinstance(c, ast.Attribute) and c.attr == 'tieOrder' and isinstance(c.ctx, ast.Load) \
                    and not f.module.name == 'droop.profile':
                ok = f.qualname in ('droop.candidates.Candidates.byTieOrder', 'droop.candidate.Candidate.as_dict',
                                    'droop.election.Election.__init__')
                ctx.check(ok, R, c, f, 'the per-candidate tie rank is read only by byTieOrder (and copied into the static candidate description)',
                          'load inside %s' % f.qualname, 'Candidate.tieOrder read in %s: the declared order can influence the count '
                          'outside a logged tie' % f.qualname, nontrivial=False)
    # lambdas are not Funcs: scan module-level for tieOrder loads inside lambdas
    for m in repo.modules.values():
        if m.name == 'droop.profile':
            continue
        for n in ast.walk(m.tree):
            if isinstance(n, ast.Lambda):
                for sub in ast.walk(n.body):
                    if isinstance(sub, ast.Attribute) and sub.attr == 'tieOrder':
                        f = repo.enclosing_func(n)
                        ok = f is not None and f.qualname == 'droop.candidates.Candidates.byTieOrder'
                        ctx.check(ok, R, sub, f or m.name, 'the per-candidate tie rank is read only by byTieOrder',
                                  'sort key of Candidates.byTieOrder', 'tieOrder used as a sort key in %s' % (f.qualname if f else m.name))
    # select(order='tie') has no caller
    for f in repo.funcs.values():
        for c in f.own_nodes():
            if isinstance(c, ast.Call):
                for k in c.keywords:
                    if k.arg == 'order' and const_str(k.value) == 'tie':
                        ctx.bad(R, c, f, 'no selection is ordered by the tie-break order outside breakTie', "order='tie' used in %s" % f.qualname)
    ctx.floor(R, 'byTieOrder call sites', n_calls, 8)
    # byTieOrder sorts ascending by tieOrder
    bto = repo.func('droop.candidates.Candidates.byTieOrder')
    rets = [n for n in bto.own_nodes() if isinstance(n, ast.Return)]
    ok = len(rets) == 1 and alpha_body(bto.node) == alpha_src('def f(self, candidates, reverse=False):\n return sorted(candidates, key=lambda c: c.tieOrder, reverse=reverse)') \
        and bto.node.args.defaults and isinstance(bto.node.args.defaults[-1], ast.Constant) and bto.node.args.defaults[-1].value is False
    ctx.check(ok, R, bto.node, bto, 'byTieOrder sorts by ascending tie rank', 'sorted(candidates, key=lambda c: c.tieOrder), reverse defaults to False',
              'byTieOrder no longer sorts ascending by tieOrder')
    # profile numbers the [tie ...] list 1,2,3.. in reading order; default order is the candidate id
    pt = repo.cls('droop.profile.ElectionProfile')
    tie = pt.methods.get(pt.mangle('__bltOptionTie')) or pt.methods.get('__bltOptionTie')
    need(tie is not None, '__bltOptionTie missing')
    ok, how = _tie_numbering(ctx, tie)
    if ok is None:
        raise AnalysisError('R15: ' + how)
    ctx.check(ok, R, tie.node, tie, 'the [tie ...] list is numbered 1,2,3,... in reading order (first listed = lowest rank)', how, how)
    pin = pt.methods['__init__']
    ok = any(isinstance(s, ast.Assign) and isinstance(s.targets[0], ast.Subscript) and unparse(s.targets[0].value) == 'self.tieOrder'
             and isinstance(s.value, ast.Name) and unparse(s.targets[0].slice) == s.value.id
             and isinstance(s.parent, ast.For) and isinstance(s.parent.target, ast.Name) and s.parent.target.id == s.value.id
             for s in ast.walk(pin.node))
    ctx.check(ok, R, pin.node, pin, 'the default tie-break order is the ballot order', 'self.tieOrder[cid] = cid', 'default tie order changed',
              nontrivial=False)
    # (b)+(c) every breakTie
    for ri, bt in _break_ties(ctx):
        cfg = cfg_of(bt)
        tied = _tied_param(bt)
        logs = set()
        for n in cfg.stmt_nodes():
            for c in calls_at(n):
                if ctx.canon(c.func, bt) == 'E.logAction' and c.args and const_str(c.args[0]) == 'tie':
                    logs.add(n)
        single_tests = [t for t in cfg.nodes if t.kind == 'test' and isinstance(t.ast, ast.If)
                        and unparse(t.ast.test) == 'len(%s) == 1' % tied]
        ctx.check(len(single_tests) == 1 and bool(logs), R, bt.node, bt, 'breakTie distinguishes the single-candidate case and logs ties',
                  '`if len(%s) == 1` present; %d tie log site(s)' % (tied, len(logs)), 'breakTie has no single-candidate test or no tie log')
        if len(single_tests) != 1:
            continue
        st = single_tests[0]
        for r in [n for n in bt.own_nodes() if isinstance(n, ast.Return)]:
            rn = cfg.of_stmt[r]
            under_single = rn not in cfg.reach([cfg.entry], edge_ok=lambda a, b, lab: not (a is st and lab is True), include_start=True)
            v = r.value
            if under_single:
                ok = isinstance(v, ast.Call) and unparse(v) == '%s.pop()' % tied or unparse(v) == '%s[0]' % tied
                ctx.check(ok, R, r, bt, 'with one candidate "tied", breakTie returns that candidate', unparse(v),
                          'single-candidate branch returns `%s`' % unparse(v), nontrivial=False)
                continue
            # logged on every path
            logged = rn not in cfg.reach([cfg.entry], avoid=logs, include_start=True)
            ctx.check(logged, R, r, bt, 'every resolution of a tie among several candidates is logged',
                      "every path to this return passes E.logAction('tie', ...)", 'a tie among several candidates can be resolved without a tie log')
            # what is returned
            ok, how = _tie_choice_ok(ctx, bt, cfg, r, tied)
            if ok is None:
                ctx.unrecognised(R, r, bt, 'the candidate breakTie returns', how)
                continue
            ctx.check(ok, R, r, bt, 'a tie is resolved by the declared tie-break order: first listed wins', how, how)


def _tie_choice_ok(ctx, bt, cfg, r, tied):
    v = r.value
    rn = cfg.of_stmt[r]
    expr = v
    if isinstance(v, ast.Name):
        rd = reaching_defs(cfg, v.id, rn)
        if len(rd) > 1 and all(d_ is not cfg.entry and d_.kind == 'stmt' and isinstance(d_.ast, ast.Assign) for d_ in rd):
            # several definitions reach the return (`if ...: c0 = byTieOrder(tied)[0] else: c0 = <member singled out earlier>`):
            # each is judged; one that is not understood makes the verdict "not recognised", not "wrong"
            verdicts = []
            for d_ in rd:
                e_ = d_.ast.value
                if _is_first_by_tie_order(ctx, bt, e_, tied):
                    verdicts.append(True)
                elif _plainly_other_choice(e_, tied):
                    return False, 'breakTie returns `%s`, not C.byTieOrder(%s)[0]' % (unparse(e_), tied)
                else:
                    verdicts.append(None)
            if all(v_ is True for v_ in verdicts):
                return True, 'C.byTieOrder(%s)[0] on every definition reaching the return' % tied
            return None, 'returned local `%s` has a definition that is neither C.byTieOrder(%s)[0] nor a recognised prior-stage choice' % (v.id, tied)
        if len(rd) == 1 and rd[0] is not cfg.entry:
            d = rd[0]
            if d.kind == 'stmt' and isinstance(d.ast, ast.Assign):
                expr = d.ast.value
            elif d.kind == 'iter':
                # scotland: `for c in tied: if c.cid == cn0.cid: return c` with cn0 = X[0] under len(X) == 1
                loop = d.ast
                if unparse(loop.iter) == tied and isinstance(r.parent, ast.If):
                    t = r.parent.test
                    if isinstance(t, ast.Compare) and isinstance(t.ops[0], ast.Eq) and unparse(t.left) == '%s.cid' % v.id:
                        other = t.comparators[0]
                        if isinstance(other, ast.Attribute) and other.attr == 'cid' and isinstance(other.value, ast.Name):
                            rd2 = reaching_defs(cfg, other.value.id, rn)
                            if len(rd2) == 1 and isinstance(rd2[0].ast, ast.Assign) and isinstance(rd2[0].ast.value, ast.Subscript):
                                sub = rd2[0].ast.value
                                X = unparse(sub.value)
                                for tt in cfg.nodes:
                                    if tt.kind == 'test' and isinstance(tt.ast, ast.If) and unparse(tt.ast.test) == 'len(%s) == 1' % X:
                                        if rn not in cfg.reach([cfg.entry], edge_ok=lambda a, b, lab, tt=tt: not (a is tt and lab is True), include_start=True):
                                            return True, 'the member of %s singled out by an earlier stage (len(%s) == 1)' % (tied, X)
                return False, 'returns loop variable `%s` without a singleton justification' % v.id
    if isinstance(expr, ast.Subscript) and isinstance(expr.slice, ast.Constant) and expr.slice.value == 0 \
            and isinstance(expr.value, ast.Call) and isinstance(expr.value.func, ast.Attribute) \
            and expr.value.func.attr == 'byTieOrder' and ctx.canon(expr.value.func.value, bt) == 'E.C' \
            and len(expr.value.args) == 1 and unparse(expr.value.args[0]) == tied and not expr.value.keywords:
        return True, 'C.byTieOrder(%s)[0]: lowest tie rank = first in the declared order' % tied
    return False, 'breakTie returns `%s`, not C.byTieOrder(%s)[0]' % (unparse(expr), tied)


def _is_first_by_tie_order(ctx, bt, expr, tied):
    return isinstance(expr, ast.Subscript) and isinstance(expr.slice, ast.Constant) and expr.slice.value == 0 \
        and isinstance(expr.value, ast.Call) and isinstance(expr.value.func, ast.Attribute) \
        and expr.value.func.attr == 'byTieOrder' and ctx.canon(expr.value.func.value, bt) == 'E.C' \
        and len(expr.value.args) == 1 and unparse(expr.value.args[0]) == tied and not expr.value.keywords


def _plainly_other_choice(expr, tied):
    """an element picked from the tied list by position, by another order, or at random"""
    if isinstance(expr, ast.Subscript):
        # tied[0], byVote(tied)[-1] ...: a positional pick; a pick from a list filtered on identity (`[c for c in tied if c.cid == x.cid][0]`)
        # is the member singled out by something else - not judged here
        return not isinstance(expr.value, (ast.ListComp, ast.GeneratorExp))
    if isinstance(expr, ast.Call):
        nm = expr.func.attr if isinstance(expr.func, ast.Attribute) else (expr.func.id if isinstance(expr.func, ast.Name) else '')
        return nm in ('pop', 'choice', 'min', 'max', 'sorted', 'byVote', 'byBallotOrder', 'byCid', 'sample', 'shuffle')
    return False


# ---------------------------------------------------------------------------
# R16
# ---------------------------------------------------------------------------

def extremum_info(ctx, f, name, at, comp_node=None):
    """`name = [c for c in SRC if c.K == m]` (or Meek's `(m + E.surplus) >= c.K`) with
    `m = min|max|V.min(c.K for c in SRC)`; returns dict(kind, key, src, within) or None"""
    cfg = cfg_of(f)
    if comp_node is not None:
        comp = comp_node            # the tied set written in place as the argument
        rd = [at]
    else:
        rd = reaching_defs(cfg, name, at)
        if len(rd) != 1 or rd[0] is cfg.entry or not isinstance(rd[0].ast, ast.Assign):
            return None
        comp = rd[0].ast.value
    if not (isinstance(comp, ast.ListComp) and len(comp.generators) == 1 and len(comp.generators[0].ifs) == 1
            and isinstance(comp.elt, ast.Name) and isinstance(comp.generators[0].target, ast.Name)
            and comp.elt.id == comp.generators[0].target.id):
        return None
    g = comp.generators[0]
    v = g.target.id
    cond = g.ifs[0]
    if not (isinstance(cond, ast.Compare) and len(cond.ops) == 1):
        return None
    l, r, op = cond.left, cond.comparators[0], cond.ops[0]
    within = False
    key = m = None
    if isinstance(op, ast.Eq):
        for a, b in ((l, r), (r, l)):
            if isinstance(a, ast.Attribute) and isinstance(a.value, ast.Name) and a.value.id == v and isinstance(b, ast.Name):
                key, m = a.attr, b.id
    elif isinstance(op, ast.GtE) and isinstance(r, ast.Attribute) and isinstance(r.value, ast.Name) and r.value.id == v \
            and isinstance(l, ast.BinOp) and isinstance(l.op, ast.Add) and isinstance(l.left, ast.Name) \
            and ctx.canon(l.right, f) == 'E.surplus':
        key, m, within = r.attr, l.left.id, True
    if key is None:
        return None
    rdm = reaching_defs(cfg, m, rd[0])
    if len(rdm) != 1 or rdm[0] is cfg.entry or not isinstance(rdm[0].ast, ast.Assign) or not isinstance(rdm[0].ast.value, ast.Call):
        return None
    mc = rdm[0].ast.value
    kind = None
    if isinstance(mc.func, ast.Name) and mc.func.id in ('min', 'max'):
        kind = mc.func.id
    elif isinstance(mc.func, ast.Attribute) and mc.func.attr == 'min' and ctx.canon(mc.func.value, f) == 'E.V':
        kind = 'min'
    if kind is None or len(mc.args) != 1 or not isinstance(mc.args[0], (ast.GeneratorExp, ast.ListComp)):
        return None
    ge = mc.args[0]
    if not (isinstance(ge.elt, ast.Attribute) and ge.elt.attr == key and len(ge.generators) == 1 and not ge.generators[0].ifs):
        return None
    s1, s2 = g.iter, ge.generators[0].iter
    if unparse(s1) != unparse(s2):
        return None
    sel = is_selector_call(ctx, f, s1)
    if isinstance(s1, ast.Call) and (s1.args or s1.keywords):
        pass
    src = sel if sel else (s1.id if isinstance(s1, ast.Name) else None)
    if src is None:
        return None
    states = deriv(ctx).states(s1, f)
    return dict(kind=kind, key=key, src=src, within=within, states=states)


def r16_extremum_polarity(ctx):
    R = 'R16'
    d = deriv(ctx)
    nlow = nhigh = 0
    for ri in rules(ctx):
        f = ri.count
        cfg = ri.cfg
        callee = ri.helper(ctx, 'breakTie')
        for call in [c for c in f.own_nodes() if isinstance(c, ast.Call) and isinstance(c.func, ast.Name) and callee is not None and c.func.id == callee.name]:
            ti = callee.params.index(_tied_param(callee))
            arg = call.args[ti] if ti < len(call.args) else None
            st = ctx.repo.enclosing_stmt(call)
            need(isinstance(st, ast.Assign) and isinstance(st.targets[0], ast.Name), 'breakTie result not assigned to a name at %s' % ctx.repo.loc(call))
            res = st.targets[0].id
            at = cfg.of_stmt[st]
            # how the chosen candidate is used (next status call on it)
            uses = set()
            for c2 in attr_calls(f, STATUS_METHODS):
                if isinstance(c2.func.value, ast.Name) and c2.func.value.id == res:
                    n2 = cfg_node_of(ctx, f, c2)
                    if at in reaching_defs(cfg, res, n2):
                        uses.add(c2.func.attr)
            need(uses, 'result of breakTie at %s is never elected/defeated/un-pended' % ctx.repo.loc(call))
            info = extremum_info(ctx, f, arg.id, at) if isinstance(arg, ast.Name) else (
                extremum_info(ctx, f, None, at, comp_node=arg) if isinstance(arg, ast.ListComp) else None)
            for u in sorted(uses):
                if u == 'defeat':
                    nlow += 1
                    what = 'the candidate excluded singly is chosen among those with the lowest tally of the continuing candidates'
                    ok = info is not None and info['kind'] == 'min' and info['states'] == frozenset(['hopeful'])
                    if ok and info['within'] and ri.method != 'meek':
                        ok = False
                    how = ('`%s` is the arg-min set of .%s over %s%s' % (unparse(arg)[:40], info['key'], info['src'], ' (within the total surplus)' if info['within'] else '')) if info else ''
                    ctx.check(ok, R, call, f, what, how,
                              'the tied set `%s` handed to breakTie for a defeat is not `[c for c in C.hopeful() if c.K == min(c.K ...)]`%s'
                              % (unparse(arg), (' (found: %s of %s over %s)' % (info['kind'], info['key'], info['src'])) if info else ''))
                elif u in ('unpend', 'elect'):
                    nhigh += 1
                    what = 'the surplus transferred (or candidate elected) first is chosen among those with the highest tally'
                    want_states = frozenset(['pending']) if u == 'unpend' else frozenset(['hopeful'])
                    ok = info is not None and info['kind'] == 'max' and info['states'] == want_states and not info['within']
                    how = ('`%s` is the arg-max set of .%s over %s' % (unparse(arg)[:40], info['key'], info['src'])) if info else ''
                    ctx.check(ok, R, call, f, what, how,
                              'the tied set `%s` handed to breakTie for %s is not the arg-max set over %s%s'
                              % (unparse(arg), u, '|'.join(want_states), (' (found: %s of %s over %s)' % (info['kind'], info['key'], info['src'])) if info else ''))
    ctx.floor(R, 'lowest selections', nlow, 8)
    ctx.floor(R, 'highest selections', nhigh, 5)
    # Scottish prior-stage search
    sc = [ri for ri in rules(ctx) if ri.short == 'scotland']
    if sc:
        bt = sc[0].helper(ctx, 'breakTie')
        # compared with the reference modulo renaming of locals/parameters: the `direction` definition and the whole
        # prior-stage loop (sort ascending, keep the extreme tally, decide when one is left)
        tied = _tied_param(bt)
        reason = [p_ for p_ in bt.params if p_ != tied]
        loops = [n for n in bt.own_nodes() if isinstance(n, ast.For) and isinstance(n.iter, ast.Call)
                 and (unparse(n.iter.func) in ('range', 'reversed'))]
        # a stage loop written some other way (over E.rounds itself, a slice of it, ...): it is there, and it is not the reference
        other_stage_loops = [n for n in bt.own_nodes() if isinstance(n, ast.For) and n not in loops
                             and any(isinstance(x, ast.Attribute) and ctx.canon(x, bt) == 'E.rounds' for x in ast.walk(n.iter))]
        helper_with_loop = [c for c in bt.own_nodes() if isinstance(c, ast.Call) and isinstance(c.func, ast.Name)
                            and d.local_func(c.func.id, bt) is not None
                            and any(isinstance(x, ast.For) for x in d.local_func(c.func.id, bt).all_nodes())]
        dir_def = None
        if loops:
            # the index used on the sorted earlier tallies: a name defined once before the loop
            subs = [x for x in ast.walk(loops[0]) if isinstance(x, ast.Subscript) and isinstance(x.slice, ast.Name) and isinstance(x.ctx, ast.Load)
                    and isinstance(x.parent, ast.Attribute) and x.parent.attr == 'vote']
            if len(subs) == 1:
                dn = subs[0].slice.id
                defs = [a_ for a_ in bt.own_nodes() if isinstance(a_, ast.Assign) and len(a_.targets) == 1 and isinstance(a_.targets[0], ast.Name)
                        and a_.targets[0].id == dn]
                dir_def = defs[0] if len(defs) == 1 else None
        ref = """
def breakTie(tied, reason=None):
    direction = 0 if reason.find('defeat') >= 0 else -1
    for n in range(E.round - 1, -1, -1):
        CN = E.rounds[n]
        tiedCN = C.byVote([cn for cn in CN if cn.cid in tiedCids])
        tiedCN = [cn for cn in tiedCN if cn.vote == tiedCN[direction].vote]
        if len(tiedCN) == 1:
            cn0 = tiedCN[0]
            E.logAction('tie', 'Break tie by prior stage (%s): [%s] -> %s' % (reason, names, cn0.name))
            for c in tied:
                if c.cid == cn0.cid:
                    return c
"""
        import textwrap as _tw
        from ..model import alpha_texts, func_chain
        outer = ast.parse('def g():\n tiedCids = names = E = C = 0').body[0]   # what the fragment reads from its surroundings

        def _same(refsrc):
            rt = ast.parse(_tw.dedent(refsrc)).body[0]
            return alpha_texts([dir_def, loops[0]], func_chain(bt)) == alpha_texts(rt.body, [rt, outer])
        ok_all = False
        if dir_def is not None and len(loops) == 1:
            ok_all = _same(ref) or _same(ref.replace('range(E.round - 1, -1, -1)', 'reversed(range(E.round))'))
        if (dir_def is None or len(loops) != 1) and not other_stage_loops and helper_with_loop:
            ctx.unrecognised(R, bt.node, bt, 'the Scottish prior-stage search of breakTie',
                             'no single stage loop with a single definition of the index inside breakTie (moved into a helper?)')
        else:
          ctx.check(ok_all, R, loops[0] if loops else bt.node, bt,
                  'Scottish tie-break: earlier stages are scanned most recent first; at each, the tied candidates\' tallies of that stage are sorted '
                  'ascending and those with the lowest (defeat) / highest (surplus) tally kept; a single survivor decides',
                  "direction = 0 if reason.find('defeat') >= 0 else -1; for n in range(E.round-1, -1, -1): tiedCN = C.byVote(...); keep == tiedCN[direction].vote "
                  '(equal to the reference definition up to renaming)',
                  'the prior-stage search of breakTie differs from the reference procedure: `%s; %s`'
                  % (stmt_text(dir_def) if dir_def is not None else '<no single definition of the index>', stmt_text(loops[0]) if loops else '<no stage loop>'))
        # E.rounds is appended once per 'round' action (record.py)
        act = ctx.repo.func('droop.record.ElectionRecord.action')
        okc = any(isinstance(n, ast.If) and isinstance(n.test, ast.Compare) and len(n.test.ops) == 1 and isinstance(n.test.ops[0], ast.Eq)
                  and isinstance(n.test.left, ast.Name) and n.test.left.id == act.params[1] and const_str(n.test.comparators[0]) == 'round'
                  and any(isinstance(s.value, ast.Call) and ctx.canon(s.value.func, act) == 'E.rounds.append' and len(s.value.args) == 1
                          and isinstance(s.value.args[0], ast.Call) and ctx.canon(s.value.args[0].func, act) == 'E.C.copy'
                          for s in n.body if isinstance(s, ast.Expr))
                  for n in act.own_nodes())
        ctx.check(okc, R, act.node, act, 'a copy of the candidates is saved at every new round (the stages the Scottish rule looks back at)',
                  "if tag == 'round': E.rounds.append(C.copy())", 'per-round candidate snapshots are no longer saved')


# ---------------------------------------------------------------------------
# R17
# ---------------------------------------------------------------------------

def r17_single_from_breaktie(ctx):
    R = 'R17'
    d = deriv(ctx)
    n = 0
    nb = 0
    for ri in rules(ctx):
        for f in all_funcs_of(ri.count):
            if f is ri.helper(ctx, 'breakTie'):
                continue
            for call in attr_calls(f, ('elect', 'defeat', 'unpend')):
                recv = call.func.value
                if not isinstance(recv, ast.Name):
                    ctx.bad(R, call, f, 'a candidate acted on singly was chosen by breakTie', 'receiver `%s` is not a name' % unparse(recv))
                    continue
                loop, _ = d.for_binding(recv)
                comp, g = d.comp_binding(recv)
                if loop is not None or g is not None:
                    # a member of a batch / sweep (R01, R03, R18).  Neutrality: the batch is not cut out of a list by POSITION
                    # unless that list is ordered by tally (a slice of the id-ordered selection picks candidates by their number)
                    btn_ = ri.helper(ctx, 'breakTie')
                    for s_ in d.sources(recv, f):
                        if btn_ is not None and btn_.name in s_.via:
                            continue
                        ordered = isinstance(s_.origin, ast.Call) and any(k.arg == 'order' and const_str(k.value) == 'vote' for k in s_.origin.keywords)
                        badop = None
                        for op_ in s_.ops:
                            if op_.startswith('byVote'):
                                ordered = True
                            elif op_.startswith(('byBallotOrder', 'byTieOrder', 'sorted', 'reversed')):
                                ordered = ordered and op_ == 'reversed'
                            elif op_ in ('slice', 'idx', 'pop', 'next') and not ordered:
                                badop = op_
                        nb += 1
                        ctx.check(badop is None, R, call, f, 'the members of a batch are not chosen by their position in candidate (ballot-paper / id) order',
                                  'derivation of `%s`: %s' % (recv.id, '/'.join(s_.ops) or 'a status selection, unsliced'),
                                  '`%s` comes from a %s of a list that is not ordered by tally: which candidates are %sed depends on their numbering, '
                                  'not on the votes or the declared tie order' % (recv.id, badop, call.func.attr), nontrivial=False)
                    continue
                n += 1
                srcs = d.sources(recv, f)
                btn = ri.helper(ctx, 'breakTie').name
                ok = bool(srcs) and all(btn in s.via for s in srcs)
                ctx.check(ok, R, call, f, 'a candidate singled out for election, exclusion or transfer is the one breakTie returned',
                          'every derivation of `%s` is returned through breakTie()' % recv.id,
                          '`%s` is picked without breakTie (%s): a tie would be resolved by position, not by the declared order, and not logged'
                          % (recv.id, '; '.join(sorted(set('/'.join(s.ops) or 'direct' for s in srcs))) or 'no derivation'))
    ctx.floor(R, 'single-candidate action sites', n, 13)
    # breakTie hands back one of the LIVE candidates it was given: the parameter holding the tied candidates is only ever narrowed to
    # elements of itself (`tied = [c for c in tied if ...]`); it is never re-bound to other objects (the per-round snapshots in
    # E.rounds are copies: electing / defeating a copy changes nobody's status)
    for ri in rules(ctx):
        bt = ri.helper(ctx, 'breakTie')
        if bt is None:
            continue
        tied = _tied_param(bt)
        for v, st in bt.assigns().get(tied, []):
            okn = False
            if isinstance(v, (ast.ListComp, ast.GeneratorExp)) and len(v.generators) == 1 and isinstance(v.elt, ast.Name) \
                    and isinstance(v.generators[0].target, ast.Name) and v.elt.id == v.generators[0].target.id \
                    and isinstance(v.generators[0].iter, ast.Name) and v.generators[0].iter.id == tied:
                okn = True
            if isinstance(v, ast.Call) and isinstance(v.func, ast.Name) and v.func.id in ('list', 'sorted', 'tuple') and v.args \
                    and isinstance(v.args[0], ast.Name) and v.args[0].id == tied:
                okn = True
            ctx.check(okn, R, st, bt, 'breakTie chooses among the live candidates it was given',
                      '`%s` is narrowed to its own elements' % tied,
                      '`%s` re-binds the tied candidates to other objects (`%s`): what breakTie returns is then not the live candidate - the caller elects / '
                      'defeats a copy and the real candidate keeps its status' % (stmt_text(st), unparse(v)[:60] if isinstance(v, ast.AST) else v))


# ---------------------------------------------------------------------------
# R18
# ---------------------------------------------------------------------------

def _is_total_pending_surplus(ctx, F, e):
    """sum([(c.vote - E.quota) for c in C.pending()], V0)  (list or generator)"""
    if not (isinstance(e, ast.Call) and isinstance(e.func, ast.Name) and e.func.id == 'sum' and len(e.args) == 2):
        return False
    g = e.args[0]
    if not (isinstance(g, (ast.ListComp, ast.GeneratorExp)) and len(g.generators) == 1 and not g.generators[0].ifs):
        return False
    gen = g.generators[0]
    if not (is_selector_call(ctx, F, gen.iter, 'pending') and isinstance(gen.target, ast.Name)):
        return False
    v = gen.target.id
    el = g.elt
    return isinstance(el, ast.BinOp) and isinstance(el.op, ast.Sub) and unparse(el.left) == '%s.vote' % v \
        and ctx.canon(el.right, F) == 'E.quota' and ctx.canon(e.args[1], F) == 'E.V0'


def _whole_tally_term(ctx, f, v):
    """zero, or sum(b.vote for b in E.ballots if b.topCand.<attr>) with exactly that one condition"""
    if v is None:
        return False, 'is not a single definition'
    if isinstance(v, ast.Constant) and v.value == 0:
        return True, 'zero'
    if ctx.canon(v, f) == 'E.V0':
        return True, 'zero'
    if isinstance(v, ast.Call) and isinstance(v.func, ast.Name) and v.func.id == 'sum' and v.args:
        g = v.args[0]
        if isinstance(g, (ast.GeneratorExp, ast.ListComp)) and len(g.generators) == 1:
            gen = g.generators[0]
            if ctx.canon(gen.iter, f) in ('E.ballots',) and isinstance(gen.target, ast.Name):
                b = gen.target.id
                if unparse(g.elt) != '%s.vote' % b:
                    return False, 'sums `%s`, not the ballots\' values' % unparse(g.elt)
                if len(gen.ifs) == 1 and isinstance(gen.ifs[0], ast.Attribute) and unparse(gen.ifs[0].value) == '%s.topCand' % b:
                    return True, 'sum of b.vote over the ballots with b.topCand.%s' % gen.ifs[0].attr
                return False, 'is narrowed by the condition `%s`' % ' and '.join(unparse(i_) for i_ in gen.ifs)
    return False, 'is of an unrecognised form'


def _check_surplus_is_total(ctx, R, ri, F, sname='surplus'):
    """the `surplus` used by a sure-loser test is all the untransferred surplus: the sum over the pending
    candidates of (tally - quota), or (parameter) an argument that contains E.surplus as an additive term"""
    what = 'the surplus added in a sure-loser test is ALL untransferred surplus (every pending candidate\'s tally minus the quota)'
    if sname in F.params:
        i = F.params.index(sname)
        sites = [c for c in F.parent.all_nodes() if isinstance(c, ast.Call) and isinstance(c.func, ast.Name) and c.func.id == F.name]
        ok = bool(sites)
        for c in sites:
            a = c.args[i] if i < len(c.args) else None
            caller = ctx.repo.enclosing_func(c)
            terms = []

            def flat(x):
                if isinstance(x, ast.BinOp) and isinstance(x.op, ast.Add):
                    flat(x.left)
                    flat(x.right)
                else:
                    terms.append(x)
            if a is not None:
                flat(a)
            if not any(ctx.canon(t, caller) == 'E.surplus' for t in terms):
                ok = False
            # the other terms: votes of candidates excluded alongside the batch (mpls: the undeclared write-ins).  Such a term
            # must be the WHOLE tally standing to those candidates: sum of b.vote over the ballots whose top candidate has the
            # attribute that selects them - any further condition leaves out votes that can still reach the remaining candidates
            ccfg = cfg_of(caller)
            for t in terms:
                if ctx.canon(t, caller) == 'E.surplus':
                    continue
                vals = [t]
                if isinstance(t, ast.Name):
                    at_ = cfg_node_of(ctx, caller, c)
                    rds = reaching_defs(ccfg, t.id, at_)
                    vals = [d_.ast.value for d_ in rds if d_ is not ccfg.entry and isinstance(d_.ast, ast.Assign)]
                    if len(vals) != len(rds):
                        vals = [None]
                for v_ in vals:
                    okt, why = _whole_tally_term(ctx, caller, v_)
                    ctx.check(okt, R, v_ if v_ is not None else c, caller,
                              'a term added to the surplus handed to the sure-loser test covers every vote standing to the candidates it is about',
                              why, 'the bound `%s` handed to %s() %s: candidates that those votes could still lift are treated as sure losers'
                              % (unparse(v_) if v_ is not None else unparse(t), F.name, why))
        ctx.check(ok, R, F.node, F, what, '%s(surplus) is called with E.surplus (the total over all elected candidates, R12) as a term' % F.name,
                  '%s() is not given E.surplus' % F.name)
        return
    defs = [n for n in F.own_nodes() if isinstance(n, ast.Assign) and len(n.targets) == 1 and isinstance(n.targets[0], ast.Name)
            and n.targets[0].id == sname]
    ok = len(defs) == 1 and _is_total_pending_surplus(ctx, F, defs[0].value)
    ctx.check(ok, R, defs[0] if defs else F.node, F, what, 'surplus = sum([(c.vote - E.quota) for c in C.pending()], V0)',
              '`surplus` in %s() is `%s`: not the sum of every pending surplus, so candidates that can still catch up are treated as sure losers'
              % (F.name, unparse(defs[0].value) if defs else None))


def _batch_producers(ctx, ri):
    """local helpers that select a batch of hopefuls for exclusion: a capped loop (one containing `break`) over the hopefuls
    sorted by tally, returning candidates (batchDefeat / findCertainLosers by role)"""
    out = []
    for h in ri.helpers.values():
        if not any(isinstance(n, ast.For) and any(isinstance(x, ast.Break) for x in ast.walk(n)) for n in h.own_nodes()):
            continue
        rets = [r for r in h.own_nodes() if isinstance(r, ast.Return) and r.value is not None]
        if rets and all(deriv(ctx).states(r.value, h) == frozenset(['hopeful']) or
                        (isinstance(r.value, (ast.List,)) and not r.value.elts) for r in rets):
            if any(deriv(ctx).states(r.value, h) == frozenset(['hopeful']) for r in rets):
                out.append(h)
    return out


def r18_sure_loser_strict(ctx):
    R = 'R18'
    n = 0
    for ri in rules(ctx):
        for F in _batch_producers(ctx, ri):
            name = F.name
            # comparisons between (<sum of votes> + surplus) and <next>.vote inside the capped loop (the loop with a Break)
            loops = [l for l in F.own_nodes() if isinstance(l, ast.For) and any(isinstance(x, ast.Break) for x in ast.walk(l))]
            need(loops, 'R18: %s has no capped loop' % F.qualname)
            L = loops[0]
            found = 0
            surplus_names = set()
            for c in [x for x in ast.walk(L) if isinstance(x, ast.Compare) and len(x.ops) == 1]:
                l, r, op = c.left, c.comparators[0], c.ops[0]
                if not (isinstance(l, ast.BinOp) and isinstance(l.op, ast.Add) and isinstance(l.left, ast.Name) and isinstance(l.right, ast.Name)):
                    continue
                # one operand accumulates the batch's votes inside this loop (+=), the other is the surplus
                def _acc(x):
                    for a in ast.walk(L):
                        if isinstance(a, ast.AugAssign) and isinstance(a.target, ast.Name) and a.target.id == x.id and 'vote' in unparse(a.value):
                            return True
                        if isinstance(a, ast.Assign) and len(a.targets) == 1 and isinstance(a.targets[0], ast.Name) and a.targets[0].id == x.id \
                                and 'vote' in unparse(a.value):
                            return True
                    return False
                accs = [x for x in (l.left, l.right) if _acc(x)]
                others = [x for x in (l.left, l.right) if x not in accs]
                if len(accs) != 1 or len(others) != 1:
                    continue
                surplus_names.add(others[0].id)
                if not (isinstance(r, ast.Attribute) and r.attr == 'vote'):
                    continue
                par = c.parent
                while par is not None and not isinstance(par, ast.If):
                    par = getattr(par, 'parent', None)
                if par is None:
                    continue
                found += 1
                n += 1
                body_first = par.body[0] if par.body else None
                if isinstance(op, ast.Lt) and par.test is c:
                    ok, how = True, 'batch accepted only under `%s` (strict)' % unparse(c)
                elif isinstance(op, ast.GtE) and isinstance(body_first, ast.Continue) and par.test is c:
                    ok, how = True, 'batch rejected under `%s` -> continue (accepted only under strict <)' % unparse(c)
                else:
                    ok, how = False, 'sure-loser test `%s` is not a strict inequality: a batch whose votes plus surplus EQUAL the next ' \
                                     'tally is not a set of sure losers' % unparse(c)
                ctx.check(ok, R, c, F, 'a batch is excluded only if its votes plus all untransferred surplus are strictly below the next tally', how, how)
            for sn in sorted(surplus_names):
                _check_surplus_is_total(ctx, R, ri, F, sn)
            ctx.check(found >= 1, R, L, F, '%s compares the batch total plus surplus with the next candidate\'s tally' % name,
                      '%d comparison(s)' % found, 'no comparison of (votes + surplus) with the next tally found in %s' % name, nontrivial=False)
    # inline batches (no producer): only candidates without any vote, and only when no surplus is pending
    from .batch import _defeat_loops, _producers_of
    for ri in rules(ctx):
        f, cfg = ri.count, ri.cfg
        for loop in _defeat_loops(ctx, f):
            if is_selector_call(ctx, f, loop.iter, 'hopeful'):
                continue
            it = strip_sorters(ctx, f, loop.iter)
            prods = _producers_of(ctx, f, it, cfg.of_stmt[loop])
            if not any(k == 'inline' for k, _ in prods) or ri.short == 'mpls':
                continue
            n += 1
            head = cfg.of_stmt[loop]
            name = it.id if isinstance(it, ast.Name) else None
            from .loops import extremum_set
            sel = extremum_set(ctx, f, name, head) if name else None
            zero_guard = False
            for t in cfg.nodes:
                if t.kind == 'test' and isinstance(t.ast, ast.If):
                    parts = t.ast.test.values if isinstance(t.ast.test, ast.BoolOp) and isinstance(t.ast.test.op, ast.And) else [t.ast.test]
                    for p_ in parts:
                        if isinstance(p_, ast.Compare) and len(p_.ops) == 1 and isinstance(p_.ops[0], ast.Eq) and isinstance(p_.left, ast.Name) \
                                and ctx.canon(p_.comparators[0], f) == 'E.V0':
                            if head not in cfg.reach([cfg.entry], edge_ok=lambda a, b, lab, t=t: not (a is t and lab is True), include_start=True):
                                zero_guard = True
            no_pending = False
            for t in cfg.nodes:
                if t.kind == 'test' and isinstance(t.ast, ast.If) and is_selector_call(ctx, f, t.ast.test, 'pending'):
                    if head not in cfg.reach([cfg.entry], edge_ok=lambda a, b, lab, t=t: not (a is t and lab is False), include_start=True):
                        no_pending = True
            ctx.check(sel == 'hopeful' and zero_guard and no_pending, R, loop, f,
                      'candidates excluded together without a sure-loser search are exactly the hopefuls with no votes at all, with no surplus pending',
                      '`%s` is the arg-min set of the hopefuls, the minimum is tested == V0, and the branch is the no-pending branch' % name,
                      'the inline batch `%s` is not limited to zero-vote hopefuls with no surplus pending: tied lowest candidates with votes are not sure losers' % name)
    ctx.floor(R, 'sure-loser comparisons', n, 4)
