"""Gregory-family bookkeeping: R07 transfer credits exactly once, R08 reset pairing and tally-writer
inventory, R09 re-weighting, R19 multiplier applied last, R20 order-free ballot loops."""
import ast

from ..model import AnalysisError, need, call_name, const_str, unparse
from ..cfg import cfg_of, calls_at, reaching_defs
from ..pathfacts import search, describe
from .common import (rules, deriv, attr_calls, cfg_node_of, is_selector_call, strip_sorters, all_funcs_of, stmt_text,
                     direct_status_calls, node_effects)
from .loops import _atoms, _assign_transfer

GREGORY = ('wigm', 'wigm_prf', 'cfer', 'scotland', 'mpls')
MUTATORS = ('remove', 'pop', 'append', 'insert', 'extend', 'clear', 'sort', 'reverse')


def gregory_rules(ctx):
    out = [ri for ri in rules(ctx) if ri.method == 'wigm']
    need(len(out) >= 5, 'only %d Gregory-family rule classes found (floor 5)' % len(out))
    return out


def _is_ballot_iter(ctx, f, it):
    """E.ballots / E.ballotsEqual, possibly wrapped in a filtering generator; returns (which, filters, var)"""
    filters = []
    var = None
    while isinstance(it, (ast.GeneratorExp, ast.ListComp)) and len(it.generators) == 1:
        g = it.generators[0]
        if not (isinstance(it.elt, ast.Name) and isinstance(g.target, ast.Name) and it.elt.id == g.target.id):
            return None
        filters += list(g.ifs)
        var = g.target.id
        it = g.iter
    p = ctx.canon(it, f)
    if p in ('E.ballots', 'E.ballotsEqual'):
        return p, filters, var
    return None


def ballot_loops(ctx, f):
    """[(for node, which list, filter conds, ballot var)] over own nodes, For statements only; an `if`
    directly wrapping the whole body (from a do(... for b in E.ballots if cond)) counts as a filter"""
    out = []
    for n in f.own_nodes():
        if isinstance(n, ast.For) and isinstance(n.target, ast.Name):
            r = _is_ballot_iter(ctx, f, n.iter)
            if r:
                which, filters, _ = r
                body = n.body
                if len(body) == 1 and isinstance(body[0], ast.If) and not body[0].orelse:
                    # `for b in E.ballots: if COND: ...` is the filtered loop (normal form of `for b in (b for b in E.ballots if COND)`)
                    t_ = body[0].test
                    filters = filters + (list(t_.values) if isinstance(t_, ast.BoolOp) and isinstance(t_.op, ast.And) else [t_])
                out.append((n, which, filters, n.target.id))
    return out


def _toprank_filter(filters, bvar):
    """the candidate expression X of a filter `b.topRank == X.cid`, or ('in', NAME) for `b.topRank in NAME/[..]`"""
    for c in filters:
        if isinstance(c, ast.Compare) and len(c.ops) == 1 and unparse(c.left) == '%s.topRank' % bvar:
            r = c.comparators[0]
            if isinstance(c.ops[0], ast.Eq) and isinstance(r, ast.Attribute) and r.attr == 'cid':
                return ('eq', unparse(r.value))
            if isinstance(c.ops[0], ast.In):
                if isinstance(r, ast.Name):
                    return ('in', r.id)
                if isinstance(r, ast.ListComp) and isinstance(r.elt, ast.Attribute) and r.elt.attr == 'cid':
                    return ('inlist', unparse(r.generators[0].iter))
    return None


# ---------------------------------------------------------------------------
# R07
# ---------------------------------------------------------------------------

def _walk_facts(ctx, t, b, cfg, credits_c, credits_x):
    """explore the CFG of a transfer() function with the facts X (ballot exhausted) and M (top candidate in the continuing set).
    Returns (violations at candidate credits, at non-transferable credits, at advance() calls, continuing states, number of advance
    sites) or None when a construct is not understood."""
    d = deriv(ctx)
    cont_sets = []

    def atom(e):
        """('X'|'M', polarity) for an atomic test on the ballot, None for anything else"""
        if isinstance(e, ast.Attribute) and e.attr == 'exhausted' and isinstance(e.value, ast.Name) and e.value.id == b:
            return ('X', True)
        if isinstance(e, ast.Attribute) and e.attr in ('topCand', 'topRank') and isinstance(e.value, ast.Name) and e.value.id == b:
            return ('X', False)             # truthy top preference: not exhausted
        if isinstance(e, ast.Compare) and len(e.ops) == 1 and isinstance(e.ops[0], (ast.In, ast.NotIn)) \
                and isinstance(e.left, ast.Attribute) and e.left.attr == 'topCand' and isinstance(e.left.value, ast.Name) and e.left.value.id == b:
            st_ = d.states(e.comparators[0], t)
            if st_ is None:
                return None
            cont_sets.append(st_)
            return ('M', isinstance(e.ops[0], ast.In))
        return None

    def outcomes(e, facts):
        """[(truth, facts)] for evaluating test e under facts (X, M each True/False/None)"""
        if isinstance(e, ast.UnaryOp) and isinstance(e.op, ast.Not):
            return [(not tr, f2) for tr, f2 in outcomes(e.operand, facts)]
        if isinstance(e, ast.BoolOp):
            res = []
            is_and = isinstance(e.op, ast.And)

            def rec(i, f_):
                if i == len(e.values):
                    res.append((is_and, f_))
                    return
                for tr, f2 in outcomes(e.values[i], f_):
                    if tr != is_and:
                        res.append((tr, f2))      # short circuit
                    else:
                        rec(i + 1, f2)
            rec(0, facts)
            return res
        a = atom(e)
        if a is None:
            return [(True, facts), (False, facts)]
        k, pol = a
        i = 0 if k == 'X' else 1
        cur = facts[i]
        out = []
        for val in (True, False):
            if cur is not None and cur != val:
                continue
            f2 = list(facts)
            f2[i] = val
            # an exhausted ballot has no top candidate: M cannot be true
            if f2[0] is True and f2[1] is True:
                continue
            out.append((val == pol, tuple(f2)))
        return out

    bad_c, bad_x, bad_adv = [], [], []
    advs = set()
    seen = set()
    stack = [(cfg.entry, (None, None))]
    while stack:
        node, facts = stack.pop()
        if (node.id, facts) in seen:
            continue
        seen.add((node.id, facts))
        if node in credits_c and not (facts[0] is False and facts[1] is True):
            bad_c.append('line %d credits the top candidate on a path where %s' % (node.line, 'the ballot may be exhausted' if facts[0] is not False
                                                                                    else 'the top candidate need not be continuing'))
        if node in credits_x and facts[0] is not True:
            bad_x.append('line %d adds to the non-transferable total on a path where the ballot need not be exhausted' % node.line)
        is_adv = node.kind == 'stmt' and any(isinstance(c.func, ast.Attribute) and c.func.attr == 'advance' and isinstance(c.func.value, ast.Name)
                                             and c.func.value.id == b for c in calls_at(node))
        if is_adv:
            advs.add(node)
            if not (facts[0] is False and facts[1] is False):
                bad_adv.append('line %d advances the ballot on a path where %s' % (node.line, 'it may be exhausted' if facts[0] is not False
                                                                                   else 'its top candidate may be continuing'))
            facts = (None, None)
        if node.kind == 'test':
            for tr, f2 in outcomes(node.ast.test, facts):
                for nxt, lab in node.succ:
                    if lab is tr:
                        stack.append((nxt, f2))
            continue
        for nxt, lab in node.succ:
            if lab == 'exc':
                continue
            stack.append((nxt, facts))
    cont = None
    if cont_sets and all(c_ == cont_sets[0] for c_ in cont_sets):
        cont = cont_sets[0]
    return sorted(set(bad_c)), sorted(set(bad_x)), sorted(set(bad_adv)), cont, len(advs)


def r07_transfer_once(ctx):
    R = 'R07'
    n = 0
    summaries = {}
    for ri in gregory_rules(ctx):
        t = ri.helper(ctx, 'transfer')
        need(t is not None, '%s.count has no local transfer()' % ri.cls.qualname)
        n += 1
        b = t.params[0]
        cfg = cfg_of(t)
        credits_c, credits_x = set(), set()
        for node in cfg.stmt_nodes():
            st = node.ast
            if node.kind == 'stmt' and isinstance(st, ast.AugAssign) and isinstance(st.op, ast.Add):
                tgt = unparse(st.target)
                amount_ok = unparse(st.value) == '%s.vote' % b
                if tgt == '%s.topCand.vote' % b:
                    credits_c.add(node)
                    ctx.check(amount_ok, R, st, t, 'a transferred ballot is credited with its current value (weight x multiplier)',
                              '%s += %s.vote' % (tgt, b), 'the candidate is credited `%s`, not %s.vote' % (unparse(st.value), b))
                elif ctx.canon(st.target, t) == 'E.exhausted':
                    credits_x.add(node)
                    ctx.check(amount_ok, R, st, t, 'an exhausted ballot adds its current value to the non-transferable total',
                              'E.exhausted += %s.vote' % b, 'the non-transferable total grows by `%s`, not %s.vote' % (unparse(st.value), b))
            elif node.kind == 'stmt' and isinstance(st, (ast.Assign, ast.AugAssign)):
                tg = st.targets[0] if isinstance(st, ast.Assign) else st.target
                if isinstance(tg, ast.Attribute) and tg.attr in ('vote', 'exhausted', 'weight'):
                    ctx.bad(R, st, t, 'transfer() changes tallies only by crediting the ballot once', 'unexpected store `%s`' % stmt_text(st))
        credits = credits_c | credits_x
        once = bool(credits_c) and bool(credits_x) and cfg.exit not in cfg.reach([cfg.entry], avoid=credits, include_start=True) \
            and not any(c2 in cfg.reach([c1]) for c1 in credits for c2 in credits)
        p = None if once else cfg.find_path(cfg.entry, cfg.exit, avoid=credits)
        ctx.check(once, R, t.node, t, 'every transferred ballot is credited exactly once: to a candidate or to the non-transferable total',
                  'every path through transfer() passes exactly one of %d credit statement(s)' % len(credits),
                  'a path through transfer() credits the ballot %s' % ('to nobody: ' + cfg.describe_path(p) if p else 'more than once (or a credit kind is missing)'))
        # guards, decided along the paths of transfer() (facts: X = the ballot is exhausted, M = its top candidate is in the continuing
        # set; both forgotten at advance()): the candidate is credited only with X false and M true, the non-transferable total only
        # with X true, and the ballot advances only past a candidate that is not continuing.  Independent of how the walk is written
        # (`while not exhausted and topCand not in hopeful`, a `while not exhausted:` with an inner test and early return, ...).
        walk = _walk_facts(ctx, t, b, cfg, credits_c, credits_x)
        if walk is None:
            ctx.unrecognised(R, t.node, t, 'the ballot walk of transfer()', 'a test or statement on the walk is not understood')
            continue
        bad_c, bad_x, bad_adv, cont, n_adv = walk
        ctx.check(not bad_c and not bad_x, R, t.node, t, 'the candidate is credited only when the ballot still has a continuing preference',
                  'credit to topCand only on paths with `not %s.exhausted` and topCand continuing, credit to E.exhausted only on paths with `%s.exhausted`' % (b, b),
                  'the credits of transfer() are not split on %s.exhausted: %s' % (b, '; '.join(bad_c + bad_x)))
        okw = cont is not None and 'hopeful' in cont and cont <= frozenset(['hopeful', 'pending']) and not bad_adv and n_adv >= 1
        wl = [x for x in t.own_nodes() if isinstance(x, ast.While)]
        summaries[ri.short] = sorted(cont) if cont else None
        ctx.check(okw, R, wl[0] if wl else t.node, t, 'a transferred ballot moves to its next continuing candidate',
                  'the ballot advances only while not exhausted and topCand not in %s' % ('+'.join(sorted(cont)) if cont else '?'),
                  'the ballot walk of transfer() does not skip exactly the non-continuing candidates%s' % (': ' + '; '.join(bad_adv) if bad_adv else ''))
    # the non-transferable total starts at zero before the first action is recorded or any ballot is transferred
    for ri in gregory_rules(ctx):
        f, cfg = ri.count, ri.cfg
        X = {x for x in cfg.stmt_nodes() if x.kind == 'stmt' and isinstance(x.ast, ast.Assign) and ctx.canon(x.ast.targets[0], f) == 'E.exhausted'}
        oki = bool(X) and all(ctx.canon(x.ast.value, f) == 'E.V0' for x in X) and not any(x in cfg.nodes_in(ri.main_loop()) for x in X)
        users = {x for x in cfg.stmt_nodes() if x not in X and any(ctx.canon(c.func, f) in ('E.logAction', 'E.newRound') or
                                                                (isinstance(c.func, ast.Name) and c.func.id == ri.helper(ctx, 'transfer').name) for c in calls_at(x))}
        early = cfg.reach([cfg.entry], avoid=X, include_start=True) & users
        ctx.check(oki and not early, R, f.node, f, 'the non-transferable total of rule %s starts at zero, once, before anything is recorded or transferred' % ri.short,
                  'E.exhausted = V0 dominates the first logAction/newRound/transfer and is outside the main loop',
                  'E.exhausted is %s' % ('not initialised to zero before line %s' % sorted(x.line for x in early)[0] if early else 're-initialised inside the loop / not zero'))
    ctx.floor(R, 'transfer functions', n, 5)
    ctx.note(R, 'continuing sets of the sibling transfer() functions: %s (mpls also accepts pending candidates: it elects and '
             'transfers in one step and never sets pending)' % summaries)


# ---------------------------------------------------------------------------
# R08
# ---------------------------------------------------------------------------

def _vote_stores(ctx, f):
    """[(node, kind, candidate expr text)] for stores to X.vote in f (own nodes)"""
    out = []
    for n in f.own_nodes():
        if isinstance(n, ast.Assign) and len(n.targets) == 1 and isinstance(n.targets[0], ast.Attribute) and n.targets[0].attr == 'vote':
            v = n.value
            p = ctx.canon(v, f)
            kind = 'zero' if p == 'E.V0' else ('quota' if p == 'E.quota' else 'other')
            out.append((n, kind, unparse(n.targets[0].value)))
        elif isinstance(n, ast.AugAssign) and isinstance(n.target, ast.Attribute) and n.target.attr == 'vote':
            out.append((n, 'aug', unparse(n.target.value)))
        elif isinstance(n, ast.Call) and isinstance(n.func, ast.Attribute) and n.func.attr == 'zeroVote':
            out.append((n, 'zero', unparse(n.func.value)))
        elif isinstance(n, ast.Call) and isinstance(n.func, ast.Attribute) and n.func.attr == 'addVote':
            out.append((n, 'aug', unparse(n.func.value)))
    return out


def _block_of(st):
    par = st.parent
    for fld in ('body', 'orelse', 'finalbody'):
        b = getattr(par, fld, None)
        if isinstance(b, list) and any(x is st for x in b):
            return b
    return None


def _transfer_loop_for(ctx, f, cand_text, before_stmt, list_name=None, tname='transfer'):
    """a ballot loop in the same block, before `before_stmt`, filtered on topRank == <cand>.cid (or `in` the
    cid list of the same candidate list) whose body calls transfer(b) for every selected ballot"""
    blk = _block_of(before_stmt)
    if blk is None:
        return None
    idx = [i for i, x in enumerate(blk) if x is before_stmt][0]
    for st in reversed(blk[:idx]):
        if not isinstance(st, ast.For):
            continue
        r = _is_ballot_iter(ctx, f, st.iter)
        if not r:
            continue
        which, filters, _ = r
        bvar = st.target.id
        body = st.body
        if len(body) == 1 and isinstance(body[0], ast.If) and not body[0].orelse:
            filters = filters + [body[0].test]
            body = body[0].body
        tf = _toprank_filter(filters, bvar)
        if tf is None:
            continue
        calls = [s for s in body if isinstance(s, ast.Expr) and isinstance(s.value, ast.Call) and isinstance(s.value.func, ast.Name)
                 and s.value.func.id == tname and unparse(s.value.args[0]) == bvar]
        if not calls:
            continue
        if tf[0] == 'eq' and tf[1] == cand_text:
            return st
        if tf[0] == 'in' and list_name is not None:
            # cids = [c.cid for c in LIST]
            df, vals = ctx.scope(f).lookup_def(tf[1], f)
            if vals and vals != 'param':
                for val, s in vals:
                    if isinstance(val, ast.ListComp) and isinstance(val.elt, ast.Attribute) and val.elt.attr == 'cid' \
                            and unparse(val.generators[0].iter) == list_name:
                        return st
        if tf[0] == 'inlist' and list_name is not None and tf[1] == list_name:
            return st
    return None


def _dominating_local_facts(ctx, f, cfg, atoms, node):
    """N:/T: facts about locals established by tests whose True (False) edge dominates `node` and whose
    names are not re-bound between the test and the node"""
    from ..pathfacts import literals, apply_literals
    from ..cfg import binds_name
    facts = {}
    for t in cfg.nodes:
        if t.kind != 'test' or not isinstance(t.ast, ast.If):
            continue
        for lab in (True, False):
            if node in cfg.reach([cfg.entry], edge_ok=lambda a, b, l, t=t, lab=lab: not (a is t and l is lab), include_start=True):
                continue
            for lit in literals(atoms.formula(t.ast.test), lab) or []:
                name = None
                if lit[0] == 'lit' and lit[1].startswith('N:'):
                    name = lit[1][2:]
                elif lit[0] == 'tok':
                    name = lit[1]
                if name is None:
                    continue
                fwd = cfg.reach([t], avoid=[t, node], edge_ok=lambda a, b, l, t=t, lab=lab: not (a is t and l is not lab))
                between = {x for x in fwd if node in cfg.reach([x], avoid=[t])}
                if any(binds_name(x, name) for x in between):
                    continue
                nf = apply_literals(facts, [lit])
                if nf is not None:
                    facts = nf
    return facts


def r08_reset_pairing(ctx):
    R = 'R08'
    nresets = 0
    nstores = 0
    for ri in gregory_rules(ctx):
        f = ri.count
        cfg = ri.cfg
        for g in all_funcs_of(f):
            for node, kind, cand in _vote_stores(ctx, g):
                nstores += 1
                st = ctx.repo.enclosing_stmt(node)
                if g is ri.helper(ctx, 'transfer'):
                    continue           # R07
                if kind == 'aug':
                    # the initial tally: a ballot loop over all of E.ballots crediting b.topCand with b.vote
                    loop = st
                    while loop is not None and not isinstance(loop, ast.For):
                        loop = getattr(loop, 'parent', None)
                    ok = False
                    if loop is not None:
                        r = _is_ballot_iter(ctx, g, loop.iter)
                        if r and r[0] == 'E.ballots' and not r[1] and not (len(loop.body) == 1 and isinstance(loop.body[0], ast.If)):
                            bv = loop.target.id
                            amount = node.value if isinstance(node, ast.AugAssign) else (node.args[0] if node.args else None)
                            ok = cand == '%s.topCand' % bv and amount is not None and unparse(amount) == '%s.vote' % bv
                            # before the main loop
                            ok = ok and loop.lineno < ri.main_loop().lineno
                    ctx.check(ok, R, st, g, 'tallies are written only by the first count, transfer() and the two resets',
                              'first count: every ballot credits its top candidate with its value, before the main loop',
                              'tally changed outside first count / transfer / reset: `%s`' % stmt_text(st))
                    continue
                if kind == 'other':
                    ctx.bad(R, st, g, 'tallies are written only by the first count, transfer() and the two resets',
                            'tally assigned `%s`' % stmt_text(st))
                    continue
                nresets += 1
                # the candidate list when the reset is inside `for c in LIST`
                list_name = None
                anchor = st
                loopc = st.parent
                if isinstance(loopc, ast.For) and isinstance(loopc.target, ast.Name) and loopc.target.id == cand \
                        and isinstance(loopc.iter, ast.Name):
                    list_name = loopc.iter.id
                tname = ri.helper(ctx, 'transfer').name
                L = _transfer_loop_for(ctx, g, cand, anchor, None, tname)
                if L is None and list_name is not None:
                    L = _transfer_loop_for(ctx, g, cand, loopc, list_name, tname)
                what = 'a tally is reset to %s only after every ballot standing to that candidate has been passed on' % \
                       ('zero' if kind == 'zero' else 'the quota')
                ctx.check(L is not None, R, st, g, what,
                          'preceded in the same block by the ballot loop at line %s (filter on topRank == %s.cid, transfer(b) for each)'
                          % (L.lineno if L is not None else '?', cand),
                          '`%s` is not preceded by a loop that transfers every ballot whose top rank is %s: their value vanishes from the count'
                          % (stmt_text(st), cand))
                if kind == 'quota' and L is not None:
                    # the loop is the re-weighting loop (R09) - the elected candidate keeps exactly the quota
                    pass
        # every single defeat that is followed by another round is followed by a reset of that candidate
        loop = ri.main_loop()
        head = cfg.of_stmt[loop]
        atoms = _atoms(ctx, f)
        base_on_node = _assign_transfer(ctx, f, atoms)
        for call in attr_calls(f, ('defeat',)):
            recv = call.func.value
            if not isinstance(recv, ast.Name):
                continue
            lp, _ = deriv(ctx).for_binding(recv)
            dn = cfg_node_of(ctx, f, call)
            if dn not in cfg.nodes_in(loop):
                continue
            if lp is not None:
                # batch: the list is reset by a loop `for c in LIST: c.vote = V0` / do(c.zeroVote() ...) later
                lst = strip_sorters(ctx, f, lp.iter)
                lname = lst.id if isinstance(lst, ast.Name) else None
                resets = set()
                for n2 in cfg.nodes_in(loop):
                    if n2.kind == 'iter' and isinstance(n2.ast.iter, ast.Name) and n2.ast.iter.id == lname and n2.ast is not lp:
                        if any(k == 'zero' for (_, k, c) in _vote_stores_in(ctx, n2.ast)):
                            resets.add(n2)
                    if n2.kind == 'stmt' and lname is None:
                        pass
                # inline reset inside the same loop (wigm zero batch: defeat loop, then second loop over the same list)
                if not resets and any(k == 'zero' for (_, k, c) in _vote_stores_in(ctx, lp)):
                    resets.add(cfg.of_stmt[lp])
                start = cfg.of_stmt[lp]
            else:
                resets = {n2 for n2 in cfg.nodes_in(loop) if n2.kind == 'stmt' and any(
                    k == 'zero' and c == recv.id for (_, k, c) in _vote_stores_in(ctx, n2.ast))}
                # `L = [X]` ... `for c in L: ...; c.vote = V0`: a loop over a list that holds the defeated candidate
                for n2 in cfg.nodes_in(loop):
                    if n2.kind == 'iter' and isinstance(n2.ast.iter, ast.Name) and isinstance(n2.ast.target, ast.Name):
                        lv = n2.ast.target.id
                        if not any(k == 'zero' and c == lv for (_, k, c) in _vote_stores_in(ctx, n2.ast)):
                            continue
                        rds = reaching_defs(cfg, n2.ast.iter.id, n2)
                        holds = [d_ for d_ in rds if d_ is not cfg.entry and isinstance(d_.ast, ast.Assign)
                                 and isinstance(d_.ast.value, ast.List)
                                 and any(isinstance(e, ast.Name) and e.id == recv.id for e in d_.ast.value.elts)]
                        if holds and any(dn in cfg.reach([cfg.entry], include_start=True) and h in cfg.reach([dn]) for h in holds):
                            resets.add(n2)
                start = dn
            facts0 = _dominating_local_facts(ctx, f, cfg, atoms, start)

            def on_node(node, facts, start=start):
                if node is not start and node_effects(ctx, f, node):
                    facts = {k: v for k, v in facts.items() if k not in ('H', 'P', 'G', 'S')}
                return base_on_node(node, facts)
            p = search(cfg, start, facts0, head, resets, atoms, on_node=on_node)
            ctx.check(p is None, R, call, f, 'after an exclusion that is followed by another round, the excluded candidate\'s ballots are '
                                             'transferred and the tally zeroed',
                      'every path from the defeat back to the loop head passes the reset of `%s` (%d site(s))' % (recv.id, len(resets)),
                      'the count can continue to the next round after defeating `%s` without transferring its ballots: %s'
                      % (recv.id, describe(p) if p else ''))
    ctx.floor(R, 'tally resets', nresets, 12)
    ctx.floor(R, 'tally stores', nstores, 22)


def _vote_stores_in(ctx, stmt, f=None):
    out = []
    f = f or ctx.repo.enclosing_func(stmt)
    for n in ast.walk(stmt):
        if isinstance(n, ast.Assign) and len(n.targets) == 1 and isinstance(n.targets[0], ast.Attribute) and n.targets[0].attr == 'vote':
            v = ctx.canon(n.value, f) if f is not None else unparse(n.value)
            out.append((n, 'zero' if v in ('V0', 'E.V0') else ('quota' if v == 'E.quota' else 'other'), unparse(n.targets[0].value)))
        elif isinstance(n, ast.Call) and isinstance(n.func, ast.Attribute) and n.func.attr == 'zeroVote':
            out.append((n, 'zero', unparse(n.func.value)))
    return out


# ---------------------------------------------------------------------------
# R09
# ---------------------------------------------------------------------------

def r09_reweighting(ctx):
    R = 'R09'
    n = 0
    for ri in gregory_rules(ctx):
        f = ri.count
        cfg = ri.cfg
        for g in all_funcs_of(f):
            for st in [x for x in g.own_nodes() if isinstance(x, ast.Assign) and len(x.targets) == 1
                       and isinstance(x.targets[0], ast.Attribute) and x.targets[0].attr == 'weight']:
                n += 1
                what = 'a surplus transfer sets each ballot\'s value to old value x surplus / tally of the elected candidate, rounded down'
                bexpr = unparse(st.targets[0].value)
                loop = st.parent
                extra_filters = []
                if isinstance(loop, ast.If) and not loop.orelse and isinstance(loop.parent, ast.For) and loop.parent.body == [loop]:
                    t_ = loop.test
                    extra_filters = list(t_.values) if isinstance(t_, ast.BoolOp) and isinstance(t_.op, ast.And) else [t_]
                    loop = loop.parent
                if not (isinstance(loop, ast.For) and isinstance(loop.target, ast.Name) and loop.target.id == bexpr and g is f):
                    ctx.bad(R, st, g, what, 'ballot weight stored outside a ballot loop of count(): `%s`' % stmt_text(st))
                    continue
                r = _is_ballot_iter(ctx, f, loop.iter)
                tf = _toprank_filter(list(r[1]) + extra_filters, bexpr) if r else None
                if not r or tf is None or tf[0] != 'eq':
                    ctx.bad(R, st, f, what, 're-weighting loop is not filtered on `%s.topRank == <candidate>.cid`' % bexpr)
                    continue
                X = tf[1]
                v = st.value
                form = None
                old = S_ = T = None
                if isinstance(v, ast.BinOp) and isinstance(v.op, ast.Div) and isinstance(v.left, ast.BinOp) and isinstance(v.left.op, ast.Mult):
                    a, b_ = v.left.left, v.left.right
                    T = v.right
                    for o_, s_ in ((a, b_), (b_, a)):
                        if unparse(o_) == '%s.weight' % bexpr:
                            old, S_ = o_, s_
                    form = 'mul-then-div (each a floor at the class scale: fixed arithmetic is forced or guarded/rational is exact)'
                elif isinstance(v, ast.Call) and ctx.canon(v.func, f) == 'E.V.muldiv' and len(v.args) == 3:
                    old, S_, T = v.args
                    rd = [k for k in v.keywords if k.arg == 'round']
                    if not (rd and const_str(rd[0].value) == 'down'):
                        ctx.bad(R, st, f, what, "V.muldiv(...) for a transfer value is not called with round='down'")
                        continue
                    form = "V.muldiv(..., round='down')"
                if old is None or unparse(old) != '%s.weight' % bexpr:
                    ctx.bad(R, st, f, what, 'new weight `%s` is not <old weight> x surplus / tally' % unparse(v))
                    continue
                # S is `X.vote - E.quota` (directly or through a single reaching definition)
                at = cfg.of_stmt[st]
                sdef = S_
                if isinstance(S_, ast.Name):
                    rd = reaching_defs(cfg, S_.id, at)
                    sdef = rd[0].ast.value if len(rd) == 1 and rd[0] is not cfg.entry and isinstance(rd[0].ast, ast.Assign) else None
                s_ok = sdef is not None and isinstance(sdef, ast.BinOp) and isinstance(sdef.op, ast.Sub) \
                    and unparse(sdef.left) == '%s.vote' % X and ctx.canon(sdef.right, f) == 'E.quota'
                t_ok = unparse(T) == '%s.vote' % X
                # followed by transfer(b) in the same body; then X.vote = E.quota after the loop
                blk_ = st.parent.body if isinstance(st.parent, ast.If) else loop.body
                idx = blk_.index(st)
                nxt = blk_[idx + 1] if idx + 1 < len(blk_) else None
                tr_ok = isinstance(nxt, ast.Expr) and unparse(nxt.value) == '%s(%s)' % (ri.helper(ctx, 'transfer').name, bexpr)
                blk = _block_of(loop)
                li = [i for i, x in enumerate(blk) if x is loop][0]
                after = blk[li + 1] if li + 1 < len(blk) else None
                q_ok = isinstance(after, ast.Assign) and unparse(after.targets[0]) == '%s.vote' % X and ctx.canon(after.value, f) == 'E.quota'
                # X is an elected candidate: an unpend()/elect() on X dominates the store
                el = [cfg_node_of(ctx, f, c) for c in attr_calls(f, ('unpend', 'elect')) if unparse(c.func.value) == X]
                e_ok = any(cfg.dominates(e, at) for e in el)
                # no tally change of X between the surplus definition and the loop
                why = []
                if not s_ok:
                    why.append('the surplus factor is not `%s.vote - E.quota`' % X)
                if not t_ok:
                    why.append('the divisor `%s` is not the tally %s.vote of the candidate whose ballots are walked' % (unparse(T), X))
                if not tr_ok:
                    why.append('the re-weighted ballot is not passed to transfer() next')
                if not q_ok:
                    why.append('the elected candidate\'s tally is not set to the quota right after the loop')
                if not e_ok:
                    why.append('%s is not an elected candidate here (no dominating elect/unpend): re-weighting on an exclusion path' % X)
                ctx.check(not why, R, st, f, what,
                          '%s.weight = %s.weight x (%s.vote - E.quota) / %s.vote via %s; then transfer(%s); then %s.vote = E.quota'
                          % (bexpr, bexpr, X, X, form, bexpr, X), '; '.join(why))
    ctx.floor(R, 're-weighting sites', n, 5)
    # ballots of excluded candidates move at unchanged value: no weight store in any loop whose filter candidate was defeated
    # (covered by e_ok above: every weight store is dominated by an elect/unpend of the same candidate)
    # other writers of .weight in the package: Ballot.__init__/restart, meek distributeVotes/iterateStep, qpq
    allowed = ('droop.election.Election.Ballot.__init__', 'droop.election.Election.Ballot.restart')
    for fq, g in ctx.repo.funcs.items():
        if g.module.name.startswith('droop.rules.') and any(g.module.name.endswith(x) for x in GREGORY):
            continue
        if g.module.name in ('droop.rules.meek', 'droop.rules.meek_prf', 'droop.rules.qpq'):
            continue
        for x in g.own_nodes():
            if isinstance(x, ast.Attribute) and x.attr == 'weight' and isinstance(x.ctx, ast.Store):
                ctx.check(fq in allowed, R, x, g, 'outside the rules, ballot weights are written only by Ballot.__init__/restart',
                          fq, 'ballot weight stored in %s' % fq, nontrivial=False)


# ---------------------------------------------------------------------------
# R19
# ---------------------------------------------------------------------------

def _multiplier_aliases(f):
    """locals of f or of an enclosing function whose every definition is `<x>.multiplier`"""
    out = set()
    g = f
    while g is not None:
        for nm, defs in g.assigns().items():
            if defs and all(isinstance(v_, ast.Attribute) and v_.attr == 'multiplier' for v_, _st in defs):
                out.add(nm)
        g = g.parent
    return out


def _ballot_vars(ctx, f):
    """names of f that hold a ballot: loop variables over E.ballots / E.ballotsEqual (possibly filtered) and a
    parameter on which .advance() / .exhausted / .topCand is used"""
    out = set()
    for n in f.own_nodes():
        if isinstance(n, ast.For) and isinstance(n.target, ast.Name) and _is_ballot_iter(ctx, f, n.iter):
            out.add(n.target.id)
        if isinstance(n, (ast.GeneratorExp, ast.ListComp)):
            for g in n.generators:
                if isinstance(g.target, ast.Name) and ctx.canon(g.iter, f) in ('E.ballots', 'E.ballotsEqual'):
                    out.add(g.target.id)
        if isinstance(n, ast.Attribute) and n.attr in ('advance', 'exhausted', 'topCand', 'topRank') and isinstance(n.value, ast.Name) \
                and n.value.id in f.params:
            out.add(n.value.id)
    return out


def r19_multiplier_last(ctx):
    R = 'R19'
    repo = ctx.repo
    n = 0
    vote = repo.func('droop.election.Election.Ballot.vote')
    rets = sorted(unparse(r.value) for r in vote.own_nodes() if isinstance(r, ast.Return))
    ctx.check(rets == ['self.weight', 'self.weight * self.multiplier'], R, vote.node, vote,
              'a ballot line\'s value is its (already rounded) weight times its multiplier',
              'Ballot.vote returns self.weight * self.multiplier (self.weight when the multiplier is 1)', 'Ballot.vote returns %s' % rets)
    # the multiplier is never an operand of a comparison between arithmetic values: a Guarded comparison records the distance of its
    # operands in the class statistics (maxDiff / minDiff), which the report prints - `multiplier == V1` records |m - 1|, a figure
    # that changes when identical ballots are split over lines or merged
    for f in repo.funcs.values():
        if not f.module.name.startswith('droop') or f.module.name == 'droop.profile':
            continue
        for x in f.own_nodes():
            if isinstance(x, ast.Compare) and any(isinstance(o, ast.Attribute) and o.attr == 'multiplier' for o in [x.left] + list(x.comparators)):
                ctx.bad(R, x, f, 'a line multiplier is never compared as an arithmetic value (comparisons of guarded values feed the printed statistics)',
                        '`%s` compares the multiplier with an arithmetic value: under guarded arithmetic the comparison records |multiplier - 1| in '
                        'maxDiff / minDiff, so the report of the same ballots differs with the way they are grouped into lines' % unparse(x))
    fast = [x for x in vote.own_nodes() if isinstance(x, ast.If)]
    okf = len(fast) <= 1 and all(unparse(f_.body[0]) == 'return self.weight' for f_ in fast)
    ctx.check(okf, R, vote.node, vote, 'the multiplier-1 shortcut of Ballot.vote (if any) returns the bare weight',
              'if <multiplier is one>: return self.weight', 'shortcut changed', nontrivial=False)
    for f in repo.funcs.values():
        if not f.module.name.startswith('droop'):
            continue
        # locals that merely alias a line's multiplier (`multiplier = b.multiplier`)
        malias = _multiplier_aliases(f)
        for x in f.own_nodes():
            if isinstance(x, ast.BinOp) and isinstance(x.op, ast.Mult) and \
                    any(isinstance(s, ast.Attribute) and s.attr == 'multiplier' or isinstance(s, ast.Name) and s.id in malias
                        for s in (x.left, x.right)):
                if f.module.name == 'droop.profile':
                    continue
                n += 1
                # context: the product must only be accumulated
                par = x.parent
                ok, how = False, ''
                if isinstance(par, ast.AugAssign) and par.value is x and isinstance(par.op, (ast.Add, ast.Sub)):
                    ok, how = True, 'added to / subtracted from an accumulator (`%s`)' % stmt_text(par)
                elif isinstance(par, ast.Return) and f is vote:
                    ok, how = True, 'the value of the ballot line'
                elif isinstance(par, ast.Assign) and len(par.targets) == 1 and isinstance(par.targets[0], ast.Name):
                    nm = par.targets[0].id
                    uses = [u for u in f.own_nodes() if isinstance(u, ast.Name) and u.id == nm and isinstance(u.ctx, ast.Load)]
                    ok = bool(uses) and all(isinstance(u.parent, ast.AugAssign) and u.parent.value is u and isinstance(u.parent.op, (ast.Add, ast.Sub))
                                            for u in uses)
                    how = '`%s` is only added to / subtracted from accumulators (%d uses)' % (nm, len(uses))
                elif isinstance(par, ast.Call) and isinstance(par.func, ast.Name) and par.func.id == 'sum':
                    ok, how = True, 'summed'
                elif isinstance(par, (ast.GeneratorExp, ast.ListComp)) and isinstance(par.parent, ast.Call) and unparse(par.parent.func) == 'sum':
                    ok, how = True, 'summed'
                # the other operand is a finished value (a name, attribute, or one value operation), not itself a product with the multiplier
                ctx.check(ok, R, x, f, 'the ballot multiplier is applied last: the product only feeds additive accumulators',
                          how, '`%s` flows into `%s`: the multiplier takes part in a rounded operation, so splitting or merging identical '
                               'ballots changes the result' % (unparse(x), stmt_text(repo.enclosing_stmt(x))))
    ctx.floor(R, 'multiplier products', n, 6)
    # no weight / keep computation has the multiplier (or the multiplied ballot value) among its inputs
    for f in repo.funcs.values():
        if not f.module.name.startswith('droop.rules'):
            continue
        for st in f.own_nodes():
            tgt = None
            val = None
            if isinstance(st, ast.Assign) and len(st.targets) == 1:
                tg = st.targets[0]
                if isinstance(tg, ast.Attribute) and tg.attr in ('weight', 'kf'):
                    tgt, val = tg, st.value
                elif isinstance(tg, ast.Tuple):
                    for e in tg.elts:
                        if isinstance(e, ast.Attribute) and e.attr in ('weight', 'kf'):
                            tgt, val = e, st.value
            if tgt is None:
                continue
            bvars = _ballot_vars(ctx, f)
            malias = _multiplier_aliases(f)
            bad = [s for s in ast.walk(val) if (isinstance(s, ast.Attribute) and s.attr == 'multiplier')
                   or (isinstance(s, ast.Name) and s.id in malias)
                   or (isinstance(s, ast.Attribute) and s.attr == 'vote' and isinstance(s.value, ast.Name)
                       and s.value.id in bvars)]
            ctx.check(not bad, R, st, f, 'transfer values and keep factors are computed per ballot paper, without the multiplier',
                      '`%s` has no multiplier among its inputs' % stmt_text(st),
                      '`%s` uses %s: the weight of a ballot line would depend on how many identical ballots it stands for'
                      % (stmt_text(st), unparse(bad[0]) if bad else ''), nontrivial=False)


# ---------------------------------------------------------------------------
# R20
# ---------------------------------------------------------------------------

def r20_order_free_loops(ctx):
    R = 'R20'
    n = 0
    for ri in rules(ctx):
        for g in all_funcs_of(ri.count):
            for loop, which, filters, bvar in ballot_loops(ctx, g):
                n += 1
                bad = []
                for sub in ast.walk(loop):
                    if sub is loop:
                        continue
                    if isinstance(sub, (ast.Return,)):
                        bad.append(('return', sub))
                    if isinstance(sub, ast.Break):
                        # a break of an inner loop (over the ranking) is fine; of the ballot loop is not
                        inner = sub.parent
                        while inner is not None and not isinstance(inner, (ast.For, ast.While)):
                            inner = inner.parent
                        if inner is loop:
                            bad.append(('break', sub))
                    if isinstance(sub, ast.Assign):
                        for t in sub.targets:
                            for tt in (t.elts if isinstance(t, ast.Tuple) else [t]):
                                if isinstance(tt, ast.Attribute):
                                    base = tt.value
                                    if isinstance(base, ast.Name) and base.id == bvar:
                                        continue                      # per-ballot field
                                    bad.append(('plain store to shared state `%s`' % unparse(tt), sub))
                                elif isinstance(tt, ast.Subscript):
                                    bad.append(('item store `%s`' % unparse(tt), sub))
                    # the list being walked is not changed under the walk (removing an element makes the iterator skip the next line)
                    if isinstance(sub, ast.Call) and isinstance(sub.func, ast.Attribute) and sub.func.attr in MUTATORS \
                            and ctx.canon(sub.func.value, g) in ('E.ballots', 'E.ballotsEqual'):
                        bad.append(('the ballot list is modified while it is walked (`%s`)' % unparse(sub), sub))
                    if isinstance(sub, ast.Delete) and any(ctx.canon(getattr(t_, 'value', t_), g) in ('E.ballots', 'E.ballotsEqual') for t_ in sub.targets):
                        bad.append(('the ballot list is modified while it is walked (`%s`)' % unparse(sub), sub))
                    # a per-line count: `n += <constant>` counts ballot LINES, and the number of lines a set of ballots is
                    # written as is presentation (1000 ballots on one line or on three)
                    if isinstance(sub, ast.AugAssign) and isinstance(sub.op, (ast.Add, ast.Sub)) and isinstance(sub.value, ast.Constant) \
                            and isinstance(sub.value.value, (int, float)) and not isinstance(sub.value.value, bool):
                        bad.append(('`%s` counts ballot lines, not ballots (a line stands for `multiplier` ballots)' % unparse(sub), sub))
                ctx.check(not bad, R, loop, g, 'a loop over the ballots only accumulates: its result cannot depend on the order of the ballot lines',
                          'no break/return; stores only to fields of the ballot itself, to locals, and additive `+=`/`-=` accumulators',
                          'the result of this ballot loop depends on how the ballots are written (order / grouping of lines): %s at line %s' % (bad[0][0], bad[0][1].lineno) if bad else '')
    ctx.floor(R, 'ballot loops', n, 25)
    # the NUMBER OF LINES is presentation too: len(E.ballots) / len(E.ballotsEqual) / len(<profile>.ballotLines) never enters the count
    # (a line stands for `multiplier` ballots; the ballot total is E.nBallots)
    for f in ctx.repo.funcs.values():
        if not f.module.name.startswith('droop') or f.module.name == 'droop.profile':
            continue
        for x in f.own_nodes():
            if isinstance(x, ast.Call) and isinstance(x.func, ast.Name) and x.func.id == 'len' and len(x.args) == 1:
                a = x.args[0]
                p_ = ctx.canon(a, f) or ''
                if p_ in ('E.ballots', 'E.ballotsEqual') or (isinstance(a, ast.Attribute) and a.attr in ('ballotLines', 'ballotLinesEqual', 'ballots', 'ballotsEqual')):
                    ctx.bad(R, x, f, 'the number of ballot LINES is never used as a quantity (it changes when identical ballots are merged or split)',
                            '`%s` counts lines, not ballots: the same ballots written with other multipliers give another figure' % unparse(x))


# ---------------------------------------------------------------------------
# R54 QPQ: an election by quotient re-weights the winner's ballots before the next action is recorded
# ---------------------------------------------------------------------------

def r54_qpq_reweight(ctx):
    """QPQ [2.5]: when a candidate is elected by quotient, each ballot standing to him now counts 1/quotient candidates elected.
    The bookkeeping the property states - the fractional numbers of candidates elected by the ballots add up to the number
    elected - needs that pass after EVERY quotient election, also the last one: every path from the elect call to the next
    recorded action passes the loop that sets b.weight for the ballots whose top rank is the winner."""
    R = 'R54'
    qs = [ri for ri in rules(ctx) if ri.short == 'qpq']
    need(len(qs) == 1, 'R54: rule class qpq not found')
    ri = qs[0]
    f, cfg = ri.count, ri.cfg
    loop = ri.main_loop()
    n = 0
    for call in attr_calls(f, ('elect',)):
        recv = call.func.value
        if not isinstance(recv, ast.Name):
            continue
        lp, _ = deriv(ctx).for_binding(recv)
        if lp is not None:
            continue                       # elect-remaining sweeps: no quotient involved
        en = cfg_node_of(ctx, f, call)
        if en not in cfg.nodes_in(loop):
            continue
        n += 1
        # the re-weighting loop for this winner
        rew = set()
        for node, which, filters, bvar in ballot_loops(ctx, f):
            tf = _toprank_filter(filters, bvar)
            if tf and tf[0] == 'eq' and tf[1] == recv.id and any(
                    isinstance(x, ast.Assign) and isinstance(x.targets[0], ast.Attribute) and x.targets[0].attr == 'weight'
                    and unparse(x.targets[0].value) == bvar for x in ast.walk(node)):
                rew.add(cfg.of_stmt[node])
        recs = {x for x in cfg.stmt_nodes() if x is not en and any(ctx.canon(c.func, f) in ('E.logAction', 'E.newRound') for c in calls_at(x))}
        stops = recs | {cfg.exit, cfg.of_stmt[loop]}
        r = cfg.reach([en], avoid=rew)
        ok = bool(rew) and not (r & stops)
        ctx.check(ok, R, call, f, 'a QPQ election by quotient is followed, before anything else is recorded, by the pass that re-weights the winner\'s ballots',
                  'every path from `%s.elect(...)` to the next recorded action passes the loop over the ballots with topRank == %s.cid that sets b.weight'
                  % (recv.id, recv.id),
                  'after `%s.elect(...)` the count can record its next action (or end) without re-weighting the ballots that elected %s: the '
                  'ballots\' fractional numbers of elected candidates no longer add up to the number elected' % (recv.id, recv.id))
    ctx.floor(R, 'quotient elections', n, 1)


# ---------------------------------------------------------------------------
# R55 QPQ stage bookkeeping equals Woodall's 2.3 - 2.5 (compared with reference statements modulo renaming)
# ---------------------------------------------------------------------------

QPQ_STAGE = [
    ('the inactive-ballot total starts each stage at zero', 'E.tx = E.V0'),
    ('the active-ballot count starts each stage at zero', 'E.va = E.V0'),
    ('contributing-ballot counts and elected-candidate sums of the hopefuls start each stage at zero',
     'for c in E.C.hopeful():\n    c.vote = E.V0\n    c.tc = E.V0'),
    ('2.3/2.4: an exhausted ballot adds the candidates it has elected to tx; an active ballot counts towards va, and towards vc and tc of its top hopeful',
     'for b in E.ballots:\n    if b.exhausted:\n        E.tx += b.weight * b.multiplier\n    else:\n        E.va += b.multiplier\n'
     '        b.topCand.tc += b.weight * b.multiplier\n        b.topCand.vote += b.multiplier'),
    ('2.3: quotient qc = vc / (1 + tc) for every hopeful', 'for c in E.C.hopeful():\n    c.quotient = c.vote / (E.V1 + c.tc)'),
]


def r55_qpq_stage(ctx):
    R = 'R55'
    from .common import ctext, ctext_ref
    qs = [ri for ri in rules(ctx) if ri.short == 'qpq']
    need(len(qs) == 1, 'R55: rule class qpq not found')
    ri = qs[0]
    f, cfg = ri.count, ri.cfg
    loop = ri.main_loop()
    body_stmts = [s_ for s_ in ast.walk(loop) if isinstance(s_, ast.stmt) and s_ is not loop and s_ in cfg.of_stmt]
    texts = {}
    for s_ in body_stmts:
        try:
            texts.setdefault(ctext(ctx, f, s_), []).append(s_)
        except Exception:      # pragma: no cover
            continue
    found = []
    for what, ref in QPQ_STAGE:
        want = ctext_ref(ref)
        hits = texts.get(want, [])
        ctx.check(len(hits) == 1, R, hits[0] if hits else loop, f, 'QPQ stage: ' + what,
                  ' '.join(ref.split()), 'no statement of the stage loop equals (up to renaming) `%s`' % ' '.join(ref.split()))
        found.append(hits[0] if len(hits) == 1 else None)
    # order: zeroing -> ballot pass -> quotients -> quota -> choice of the highest quotient
    quota_n = [x for x in cfg.nodes_in(loop) if x.kind == 'stmt' and isinstance(x.ast, ast.Assign) and ctx.canon(x.ast.targets[0], f) == 'E.quota']
    choice = [x for x in cfg.nodes_in(loop) if x.kind == 'stmt' and isinstance(x.ast, ast.Assign) and isinstance(x.ast.value, ast.Call)
              and unparse(x.ast.value.func) == 'max' and 'quotient' in unparse(x.ast.value)]
    if all(x is not None for x in found) and len(quota_n) == 1 and len(choice) == 1:
        chain = [cfg.of_stmt[found[0]], cfg.of_stmt[found[1]], cfg.of_stmt[found[2]], cfg.of_stmt[found[3]], cfg.of_stmt[found[4]], quota_n[0], choice[0]]
        head = cfg.of_stmt[loop]
        oko = True
        for a, b in zip(chain[2:], chain[3:]):
            # a dominates b within one pass: b not reachable from the loop head avoiding a
            if b in cfg.reach([head], avoid=[a], edge_ok=lambda x, y, lab: not (x is head and lab is False)):
                oko = False
        for z in chain[:2]:
            if chain[3] in cfg.reach([head], avoid=[z], edge_ok=lambda x, y, lab: not (x is head and lab is False)):
                oko = False
        ctx.check(oko, R, loop, f, 'QPQ stage: totals are zeroed, then the ballots are walked, then quotients, then the quota, then the highest quotient is looked for',
                  'each step dominates the next within a pass of the main loop', 'the stage steps are not in this order on every path')
    else:
        ctx.bad(R, loop, f, 'QPQ stage: totals are zeroed, then the ballots are walked, then quotients, then the quota, then the highest quotient is looked for',
                'quota assignment / choice of the highest quotient not found once each in the stage loop')
    # 2.5a: each ballot of the winner is deemed to have elected 1/qc candidates
    ws = [x for x in body_stmts if isinstance(x, ast.Assign) and isinstance(x.targets[0], ast.Attribute) and x.targets[0].attr == 'weight']
    okw = False
    if len(ws) == 1:
        v = ws[0].value
        if isinstance(v, ast.Name):
            rd = reaching_defs(cfg, v.id, cfg.of_stmt[ws[0]])
            v = rd[0].ast.value if len(rd) == 1 and rd[0] is not cfg.entry and isinstance(rd[0].ast, ast.Assign) else None
        def _is_winner_quotient(e):
            if isinstance(e, ast.Attribute) and e.attr == 'quotient':
                return True
            if isinstance(e, ast.Name):        # the highest quotient itself (the winner's, by construction of the tied set)
                rd2 = reaching_defs(cfg, e.id, cfg.of_stmt[ws[0]])
                return len(rd2) == 1 and rd2[0] is not cfg.entry and isinstance(rd2[0].ast, ast.Assign) and isinstance(rd2[0].ast.value, ast.Call) \
                    and unparse(rd2[0].ast.value.func) == 'max' and 'quotient' in unparse(rd2[0].ast.value)
            return False
        okw = v is not None and isinstance(v, ast.BinOp) and isinstance(v.op, ast.Div) and ctx.canon(v.left, f) == 'E.V1' and _is_winner_quotient(v.right)
    ctx.check(okw, R, ws[0] if ws else loop, f, 'QPQ 2.5a: a ballot that elected the winner is deemed to have elected 1/qc candidates',
              'b.weight = V1 / <winner>.quotient', 'the new weight of the winner\'s ballots is not 1 / quotient of the winner')
    # a restart (after an exclusion) un-elects everybody and sends every ballot back to its first preference with nothing elected
    rs = [x for x in body_stmts if isinstance(x, ast.If) and isinstance(x.test, ast.Name)]
    okr = False
    for x in rs:
        t_ = ' '.join(ctext(ctx, f, y) for y in x.body)
        okr = okr or ('.unelect()' in t_ and '.restart(E.V0)' in t_)
    ctx.check(okr, R, rs[0] if rs else loop, f, 'QPQ: after an exclusion the count restarts: everybody un-elected, every ballot back at its first preference with weight 0',
              'if restart: for c in C.elected(): c.unelect(); for b in E.ballots: b.restart(V0); transfer(b)', 'restart block changed')
