"""R34 option layer order, R35 forced closure of statutory rules, R36 construction order."""
import ast

from ..model import AnalysisError, need, call_name, const_str, unparse, get_arg
from ..cfg import cfg_of, calls_at
from .common import rules, stmt_text, all_funcs_of

LAYERS = ['default', 'file_options', 'cmd_options', 'force']     # later wins (property C17)

# rule names the property lists as fixed by statute
STATUTORY = ['scotland', 'mpls', 'wigm-prf', 'wigm-prf-batch', 'meek-prf', 'cfer', 'cfer-batch', 'qpq']


def _self_attr(e):
    if isinstance(e, ast.Attribute) and isinstance(e.value, ast.Name) and e.value.id == 'self':
        return e.attr
    return None


def r34_layer_order(ctx):
    R = 'R34'
    repo = ctx.repo
    opt = repo.cls('droop.options.Options')
    getopt = opt.methods.get('getopt')
    record = opt.methods.get('record')
    setopt = opt.methods.get('setopt')
    update = opt.methods.get('update')
    init = opt.methods.get('__init__')
    need(all(x is not None for x in (getopt, record, setopt, update, init)), 'Options.getopt/record/setopt/update/__init__ missing')
    # setopt returns the value in force AFTER it has registered the default / forced value: the value it reads (self.getopt) is read after
    # every store into a layer, and that is what it returns.  (Fixed.initialize relies on the returned value being the forced one.)
    scfg = cfg_of(setopt)
    reads = [x for x in scfg.stmt_nodes() if x.kind == 'stmt' and isinstance(x.ast, ast.Assign) and isinstance(x.ast.value, ast.Call)
             and unparse(x.ast.value.func) == 'self.getopt']
    stores = [x for x in scfg.stmt_nodes() if any(isinstance(y, ast.Subscript) and isinstance(y.ctx, ast.Store) and _self_attr(y.value) in ('force', 'default', 'cmd_options', 'file_options')
                                                  for y in ast.walk(x.ast)) or any(isinstance(c.func, ast.Attribute) and c.func.attr in ('setdefault', 'update') and _self_attr(c.func.value)
                                                                                  in ('force', 'default') for c in calls_at(x))]
    rets = [r for r in setopt.own_nodes() if isinstance(r, ast.Return) and r.value is not None]
    oks = len(reads) == 1 and bool(stores) and all(isinstance(r.value, ast.Name) and r.value.id == reads[0].ast.targets[0].id for r in rets) \
        and not any(st in scfg.reach([reads[0]]) for st in stores)
    ctx.check(oks, R, setopt.node, setopt, 'setopt() returns the effective value as it stands after its own default / forced value has been registered',
              'the single self.getopt() read follows every layer store and is what is returned',
              'setopt() reads the effective value before it stores the forced/default value (or returns something else): a caller that forces an '
              'option gets back the value the user supplied')
    # getopt: v = self.L0.get(name, None); v = self.L1.get(name, v); ...; return v
    body = [s for s in getopt.node.body if not (isinstance(s, ast.Expr) and isinstance(s.value, ast.Constant))]
    chain = []
    var = None
    shape_ok = True
    pname = getopt.params[1] if len(getopt.params) > 1 else None
    steps = body[:-1]
    if steps and isinstance(steps[0], ast.Assign) and len(steps[0].targets) == 1 and isinstance(steps[0].targets[0], ast.Name) \
            and isinstance(steps[0].value, ast.Constant) and steps[0].value.value is None:
        # `v = None` first, then every layer falls back to v (the chain with its start written out)
        var = steps[0].targets[0].id
        steps = steps[1:]
    for s in steps:
        if not (isinstance(s, ast.Assign) and len(s.targets) == 1 and isinstance(s.targets[0], ast.Name)
                and isinstance(s.value, ast.Call) and isinstance(s.value.func, ast.Attribute) and s.value.func.attr == 'get'
                and _self_attr(s.value.func.value) and len(s.value.args) == 2
                and isinstance(s.value.args[0], ast.Name) and s.value.args[0].id == pname):
            shape_ok = False
            break
        fallback = s.value.args[1]
        if var is None:
            if not (isinstance(fallback, ast.Constant) and fallback.value is None):
                shape_ok = False
                break
        else:
            if not (isinstance(fallback, ast.Name) and fallback.id == var and s.targets[0].id == var):
                shape_ok = False
                break
        var = s.targets[0].id
        chain.append(_self_attr(s.value.func.value))
    if shape_ok:
        shape_ok = bool(body) and isinstance(body[-1], ast.Return) and isinstance(body[-1].value, ast.Name) \
            and body[-1].value.id == var
    if not shape_ok:
        # a layer lookup combined by `or` / a conditional is a recognisable, wrong shape: a falsy value (0, False)
        # of the higher layer is treated as absent
        bad = [n for n in getopt.own_nodes() if isinstance(n, (ast.BoolOp, ast.IfExp))
               and any(isinstance(c, ast.Call) and isinstance(c.func, ast.Attribute) and c.func.attr == 'get' and _self_attr(c.func.value)
                       for c in ast.walk(n))]
        if bad:
            ctx.bad(R, bad[0], getopt, 'getopt consults the layers default < file < command < forced (later overrides earlier)',
                    '`%s`: a layer is consulted through a value-dependent fallback, so an option set to 0 or False in the overriding '
                    'layer is ignored in favour of the lower layer' % unparse(bad[0]))
            return
        raise AnalysisError('R34: Options.getopt is not a chain of `v = self.<layer>.get(name, v)` steps - shape not recognised')
    ctx.check(chain == LAYERS, R, getopt.node, getopt,
              'getopt consults the layers default < file < command < forced (later overrides earlier)',
              'chain of .get() steps reads %s' % ' -> '.join(chain),
              'getopt consults the layers in the order %s, the property requires %s' % (' -> '.join(chain), ' -> '.join(LAYERS)))
    # record(): effective.update(self.L) in the same order
    ups = []
    for s in record.node.body:
        if isinstance(s, ast.Expr) and isinstance(s.value, ast.Call) and isinstance(s.value.func, ast.Attribute) \
                and s.value.func.attr == 'update' and isinstance(s.value.func.value, ast.Name) and s.value.args:
            a = _self_attr(s.value.args[0])
            if a:
                ups.append((s.value.func.value.id, a))
    names = set(v for v, _ in ups)
    need(len(names) == 1 and ups, 'R34: Options.record does not build the effective options by successive update() calls')
    rchain = [a for _, a in ups]
    ctx.check(rchain == LAYERS, R, record.node, record,
              'the recorded effective options are layered in the same order as getopt',
              'effective.update(...) order: %s' % ' -> '.join(rchain),
              'record() layers the effective options as %s; getopt uses %s' % (' -> '.join(rchain), ' -> '.join(chain)))
    ev = names.pop()
    ret = [n for n in record.own_nodes() if isinstance(n, ast.Return)]
    okr = len(ret) == 1 and isinstance(ret[0].value, ast.Call) and \
        any(k.arg == 'options' and isinstance(k.value, ast.Name) and k.value.id == ev for k in ret[0].value.keywords)
    ctx.check(okr, R, ret[0] if ret else record.node, record, "record() reports the layered result under 'options'",
              'dict(..., options=%s)' % ev, "record() does not return the effective options under 'options'", nontrivial=False)
    # record reports each layer under its own name (copy of the right dict)
    if okr:
        want = {'cmd': 'cmd_options', 'file_options': 'file_options', 'default': 'default', 'force': 'force'}
        got = {}
        for k in ret[0].value.keywords:
            if k.arg in want and isinstance(k.value, ast.Call) and isinstance(k.value.func, ast.Attribute) \
                    and k.value.func.attr == 'copy':
                got[k.arg] = _self_attr(k.value.func.value)
        ctx.check(got == want, R, ret[0], record, 'record() reports each layer under its own name',
                  'cmd/file_options/default/force are copies of the corresponding dicts',
                  'record() reports layers %s, expected %s' % (got, want))
    # setopt: default recorded with setdefault on self.default; force stores into self.force under `if force:`
    sd = [c for c in setopt.own_nodes() if isinstance(c, ast.Call) and isinstance(c.func, ast.Attribute)
          and c.func.attr == 'setdefault' and _self_attr(c.func.value) == 'default']
    ctx.check(len(sd) == 1, R, sd[0] if sd else setopt.node, setopt, 'setopt records the rule default in the default layer',
              'self.default.setdefault(optname, ...)', 'setopt does not record the default in self.default')
    fs = [n for n in setopt.own_nodes() if isinstance(n, ast.Subscript) and isinstance(n.ctx, ast.Store)
          and _self_attr(n.value)]
    force_stores = [n for n in fs if _self_attr(n.value) == 'force']
    okf = len(force_stores) == 1
    if okf:
        st = repo.enclosing_stmt(force_stores[0])
        par = st.parent
        okf = isinstance(par, ast.If) and isinstance(par.test, ast.Name) and par.test.id == 'force' and st in par.body
    ctx.check(okf, R, force_stores[0] if force_stores else setopt.node, setopt,
              'setopt(force=True) stores the value into the forced layer (only then)', '`if force: self.force[optname] = ...`',
              'setopt does not store forced values into self.force under `if force:`')
    others = [n for n in fs if _self_attr(n.value) not in ('force', 'allowed')]
    ctx.check(not others, R, others[0] if others else setopt.node, setopt,
              'setopt writes no layer other than default/force', 'only self.force[...] and self.allowed[...] are subscripted for store',
              'setopt also stores into self.%s' % (_self_attr(others[0].value) if others else ''))
    rets = [n for n in setopt.own_nodes() if isinstance(n, ast.Return)]
    okg = bool(rets) and all(isinstance(r.value, ast.Name) for r in rets) and len({r.value.id for r in rets}) == 1
    if okg:
        # every return (one, or several after early exits) hands back the one local read from self.getopt(optname)
        v = rets[0].value.id
        asg = [n for n in setopt.own_nodes() if isinstance(n, ast.Assign) and isinstance(n.targets[0], ast.Name)
               and n.targets[0].id == v]
        okg = len(asg) == 1 and unparse(asg[0].value) == 'self.getopt(%s)' % setopt.params[1]
    ctx.check(okg, R, rets[0] if rets else setopt.node, setopt, 'setopt returns the layered value (through getopt)',
              'optvalue = self.getopt(optname); return optvalue', 'setopt does not return getopt(optname)')
    # update(): file_options=True -> self.file_options else self.cmd_options
    sel = [n for n in update.own_nodes() if isinstance(n, ast.IfExp)]
    oku = len(sel) == 1 and isinstance(sel[0].test, ast.Name) and sel[0].test.id == 'file_options' \
        and _self_attr(sel[0].body) == 'file_options' and _self_attr(sel[0].orelse) == 'cmd_options'
    ctx.check(oku, R, sel[0] if sel else update.node, update,
              'update(file_options=True) writes the file layer, otherwise the command layer',
              'opts = self.file_options if file_options else self.cmd_options',
              'update() does not select the layer by its file_options flag')
    # recursive call for dicts passes the flag on
    rec_calls = [c for c in update.own_nodes() if isinstance(c, ast.Call) and unparse(c.func) == 'self.update']
    okp = all((len(c.args) >= 3 and isinstance(c.args[2], ast.Name) and c.args[2].id == 'file_options')
              or any(k.arg == 'file_options' and isinstance(k.value, ast.Name) and k.value.id == 'file_options' for k in c.keywords)
              for c in rec_calls) and bool(rec_calls)
    ctx.check(okp, R, rec_calls[0] if rec_calls else update.node, update, 'update(dict) passes the layer flag to each item',
              'self.update(key, val, file_options)', 'the recursive update() call drops the file_options flag')
    # __init__: constructor options are the command layer; the others start empty
    ia = {}
    for n in init.own_nodes():
        if isinstance(n, ast.Assign) and _self_attr(n.targets[0]):
            ia[_self_attr(n.targets[0])] = n.value
    okc = 'cmd_options' in ia and 'options' in unparse(ia['cmd_options']) and \
        all(k in ia and isinstance(ia[k], ast.Call) and unparse(ia[k]) == 'dict()' for k in ('file_options', 'default', 'force'))
    ctx.check(okc, R, init.node, init, "the caller's options form the command layer; the other layers start empty",
              'cmd_options from the constructor argument; file_options/default/force = dict()',
              'Options.__init__ initialises the layers differently')


def _option_reads(ctx, f):
    """[(name or None, call, kind)] for getopt/setopt calls in f (own nodes + nested)"""
    out = []
    for n in f.all_nodes():
        if isinstance(n, ast.Call) and isinstance(n.func, ast.Attribute) and n.func.attr in ('getopt', 'setopt'):
            recv = unparse(n.func.value)
            g_ = ctx.repo.enclosing_func(n) or f
            if recv.endswith('options') or recv == 'options' or ctx.canon(n.func.value, g_) == 'E.options':
                nm = const_str(n.args[0]) if n.args else None
                out.append((nm, n, n.func.attr))
    return out


def _forced(ctx, f):
    """option name -> value node for setopt(name, default=v, force=True) in f"""
    out = {}
    for nm, c, kind in _option_reads(ctx, f):
        if kind == 'setopt':
            fv = get_arg(c, 2, 'force')
            if isinstance(fv, ast.Constant) and fv.value is True and nm is not None:
                out[nm] = get_arg(c, 1, 'default')
    return out


def _arith_class_for(ctx, name_node_value):
    return {'fixed': 'droop.values.fixed.Fixed', 'integer': 'droop.values.fixed.Fixed',
            'guarded': 'droop.values.guarded.Guarded', 'rational': 'droop.values.rational.Rational'}.get(name_node_value)


def r35_forced_closure(ctx):
    R = 'R35'
    repo = ctx.repo
    by_name = {}
    for ri in rules(ctx):
        for nm in ri.names:
            by_name[nm] = ri
    arith = repo.func('droop.values.ArithmeticClass')
    n = 0
    for rn in STATUTORY:
        ri = by_name.get(rn)
        if ri is None:
            ctx.bad(R, None, 'droop', 'statutory rule %s is registered' % rn, 'no rule class returns the name %r' % rn)
            continue
        opts = ri.cls.methods.get('options')
        need(opts is not None, '%s.options missing' % ri.cls.qualname)
        forced = _forced(ctx, opts)
        what0 = 'statutory rule %s forces its arithmetic' % rn
        av = forced.get('arithmetic')
        if av is None or not const_str(av):
            ctx.bad(R, opts.node, opts, what0, "options() does not call setopt('arithmetic', <literal>, force=True): "
                                               "the arithmetic of %s can be reconfigured from the command line or the ballot file" % rn)
            continue
        ctx.ok(R, opts.node, opts, what0, "setopt('arithmetic', default=%r, force=True)" % const_str(av), nontrivial=False)
        # forced constants are literals or class constants of the rule
        for k, v in forced.items():
            lit = isinstance(v, ast.Constant) or (isinstance(v, ast.Attribute) and isinstance(v.value, ast.Name)
                                                  and v.value.id in ('self', 'cls')
                                                  and isinstance(ri.cls.find_attr(v.attr), ast.Constant))
            ctx.check(lit, R, v if v is not None else opts.node, opts, '%s: forced value of %s is a constant of the rule' % (rn, k),
                      '%s = %s' % (k, unparse(v) if v is not None else None),
                      'forced value of %s is computed (%s): it may depend on supplied options' % (k, unparse(v) if v is not None else None))
        # reads: the rule's own methods
        reads = []
        seen_m = set()
        for kls in ri.cls.mro():        # the rule's own methods and everything it inherits (MethodWIGM / MethodMeek / ElectionRule helpers)
            for mname_, m in kls.methods.items():
                if mname_ in seen_m:
                    continue            # overridden further down the MRO
                seen_m.add(mname_)
                for nm_, c, kind in _option_reads(ctx, m):
                    reads.append((nm_, c, m))
        # + ArithmeticClass + initialize of the selected class
        acls = repo.cls(_arith_class_for(ctx, const_str(av)) or '?')
        for fn in (arith, acls.methods.get('initialize')):
            need(fn is not None, 'arithmetic initialize missing')
            for nm_, c, kind in _option_reads(ctx, fn):
                reads.append((nm_, c, fn))
        for nm_, c, fn in reads:
            n += 1
            what = 'every option read on behalf of statutory rule %s is forced by it' % rn
            if nm_ is None:
                raise AnalysisError('R35: non-literal option name in %s (%s)' % (fn.qualname, stmt_text(c)))
            if nm_ == 'rule' or nm_ in forced:
                ctx.ok(R, c, fn, what, "option '%s' is %s" % (nm_, 'the rule name itself' if nm_ == 'rule' else 'forced by %s.options()' % ri.short))
            else:
                ctx.bad(R, c, fn, what, "%s reads option '%s' for rule %s, which does not force it: a command-line or "
                                        "ballot-file value changes the count" % (fn.qualname, nm_, rn))
        # attributes of self assigned in options() from option values must come from forced options / rule name
        for s in opts.own_nodes():
            if isinstance(s, ast.Assign) and _self_attr(s.targets[0]):
                for sub in ast.walk(s.value):
                    if isinstance(sub, ast.Call) and isinstance(sub.func, ast.Attribute) and sub.func.attr in ('getopt', 'setopt'):
                        nm_ = const_str(sub.args[0]) if sub.args else None
                        ctx.check(nm_ == 'rule' or nm_ in forced, R, s, opts,
                                  '%s: rule parameters kept on self derive only from forced options or the rule name' % rn,
                                  'self.%s derives from %r' % (_self_attr(s.targets[0]), nm_),
                                  'self.%s is set from the unforced option %r' % (_self_attr(s.targets[0]), nm_))
    ctx.floor(R, 'option reads of statutory rules', n, 60)
    # parametric rules must not force (information) - and every registered name is classified
    for nm, ri in sorted(by_name.items()):
        if nm not in STATUTORY:
            ctx.note(R, 'rule %s is parametric (not in the statutory list of the property)' % nm)


def rule_ctor_names(init):
    """(name of the local holding the rule class, name of the local holding the rule name) in Election.__init__:
    `self.rule = X(self)` with `X = electionRule(N)`"""
    for n in init.own_nodes():
        if isinstance(n, ast.Assign) and len(n.targets) == 1 and unparse(n.targets[0]) == 'self.rule' and isinstance(n.value, ast.Call) \
                and isinstance(n.value.func, ast.Name):
            x = n.value.func.id
            for m in init.own_nodes():
                if isinstance(m, ast.Assign) and len(m.targets) == 1 and isinstance(m.targets[0], ast.Name) and m.targets[0].id == x \
                        and isinstance(m.value, ast.Call) and unparse(m.value.func) == 'electionRule' and len(m.value.args) == 1 \
                        and isinstance(m.value.args[0], ast.Name):
                    return x, m.value.args[0].id
            return x, None
    return None, None


def _driver_passes_options_unchanged(ctx, R):
    """Droop.main hands the caller's option dict to Election as it received it: anything main() writes into it lands in the
    caller (command-line) layer and outranks the ballot file - a default belongs in the rule's own setopt(default=...)"""
    main = ctx.repo.funcs.get('Droop.main')
    need(main is not None, 'R36: Droop.main not found')
    mk = [c for c in main.own_nodes() if isinstance(c, ast.Call) and unparse(c.func).split('.')[-1] == 'Election' and len(c.args) >= 2]
    need(len(mk) == 1 and isinstance(mk[0].args[1], ast.Name), 'R36: Election(profile, options) construction not found in Droop.main')
    oname = mk[0].args[1].id
    ctx.check(oname in main.params, R, mk[0], main, 'the driver passes the caller\'s options to the election', 'Election(..., %s) with %s a parameter of main()' % (oname, oname),
              'Election is given `%s`, which is not the option dict main() received' % oname, nontrivial=False)
    writes = []
    for n in main.all_nodes():
        if isinstance(n, ast.Subscript) and isinstance(n.ctx, (ast.Store, ast.Del)) and isinstance(n.value, ast.Name) and n.value.id == oname:
            writes.append(n)
        if isinstance(n, ast.Call) and isinstance(n.func, ast.Attribute) and isinstance(n.func.value, ast.Name) and n.func.value.id == oname \
                and n.func.attr in ('setdefault', 'update', 'pop', 'popitem', 'clear', '__setitem__', '__delitem__'):
            writes.append(n)
        if isinstance(n, ast.Assign) and any(isinstance(t, ast.Name) and t.id == oname for t in n.targets):
            writes.append(n)
    ctx.check(not writes, R, writes[0] if writes else main.node, main,
              'the driver does not write into the caller\'s option layer (a value put there outranks the ballot file\'s options)',
              'no store / setdefault / update on `%s` in Droop.main' % oname,
              '`%s` writes into the option dict that becomes the command-line layer: it overrides what the ballot file specifies although the caller '
              'supplied nothing' % (stmt_text(ctx.repo.enclosing_stmt(writes[0])) if writes else ''))


def _one_option_per_setting(ctx, R):
    """each setting of an arithmetic class (precision, guard, display / dp) is governed by ONE option name: two names for one setting are
    resolved through the layers separately, so a lower layer's value under one name can beat a higher layer's value under the other"""
    n = 0
    for qn in ('droop.values.fixed.Fixed', 'droop.values.guarded.Guarded', 'droop.values.rational.Rational'):
        cls = ctx.repo.cls(qn)
        init = cls.methods.get('initialize')
        need(init is not None, '%s.initialize missing' % qn)

        def names_in(e, depth=0):
            out = set()
            for x in ast.walk(e):
                if isinstance(x, ast.Call) and isinstance(x.func, ast.Attribute) and x.func.attr in ('getopt', 'setopt') and x.args and const_str(x.args[0]):
                    out.add(const_str(x.args[0]))
                elif isinstance(x, ast.Name) and isinstance(x.ctx, ast.Load) and depth < 3 and x.id in init.assigns():
                    for v, st in init.assigns()[x.id]:
                        if isinstance(v, ast.AST) and not isinstance(v, ast.AugAssign):
                            out |= names_in(v, depth + 1)
            return out
        per_attr = {}
        for st in init.own_nodes():
            if isinstance(st, ast.Assign) and isinstance(st.targets[0], ast.Attribute) and isinstance(st.targets[0].value, ast.Name) and st.targets[0].value.id == 'cls':
                ns = names_in(st.value)
                if ns:
                    per_attr.setdefault(st.targets[0].attr, []).append((ns, st))
        for attr, lst in sorted(per_attr.items()):
            n += 1
            allnames = set()
            for ns, st in lst:
                allnames |= ns
            # `arithmetic` selects the class and may appear alongside (cls.name = ...); a setting proper has one source
            src = allnames - {'arithmetic'}
            ctx.check(len(src) <= 1, R, lst[0][1], init, 'the class setting %s.%s is taken from one option name' % (cls.name, attr),
                      'from option %s' % (sorted(src) or ['arithmetic']),
                      '%s.%s is set from the options %s: the same setting under two names is layered twice (a ballot-file value under one name beats '
                      'the caller\'s value under the other)' % (cls.name, attr, sorted(src)), nontrivial=False)
    ctx.floor(R, 'class settings taken from options', n, 6)


def _driver_registers_outputs_first(ctx, R):
    """the report header lists the options nobody asked for: every option the driver itself consumes (dump, json, report) is
    registered (setopt) before the first rendering is made - a registration that can follow E.report() comes too late"""
    main = ctx.repo.funcs.get('Droop.main')
    need(main is not None, 'R36: Droop.main not found')
    cfg = cfg_of(main)
    renders = [x for x in cfg.stmt_nodes() if any(isinstance(c.func, ast.Attribute) and c.func.attr == 'report' and not unparse(c.func.value).endswith('rule')
                                                 for c in calls_at(x))]
    # calls through a local bound to E.report (a table of renderers) count as renders as well
    bound = set()
    for x in main.own_nodes():
        if isinstance(x, ast.Attribute) and x.attr == 'report' and isinstance(x.ctx, ast.Load) and not isinstance(x.parent, ast.Call):
            bound.add(x)
    regs = [x for x in cfg.stmt_nodes() + [n for n in cfg.nodes if n.kind == 'test'] if any(
        isinstance(c.func, ast.Attribute) and c.func.attr == 'setopt' and unparse(c.func.value).endswith('options') for c in calls_at(x))]
    late = []
    if bound:
        late = regs       # renderers handed around as values: the order of registration and rendering is no longer visible; be explicit
        late = [x for x in regs if any(isinstance(p_, (ast.For, ast.While)) for p_ in _ancestors(x.ast))]
    for r_ in renders:
        after = cfg.reach([r_])
        late += [x for x in regs if x in after and x is not r_]
    ctx.check(not late and bool(renders or bound), R, (late[0].ast if late else main.node), main,
              'the driver registers the options it consumes before it renders the report (whose header names the unused options)',
              '%d setopt registration(s), none reachable after the first E.report()' % len(regs),
              'an option is registered (line %s) where a report may already have been rendered: the header of that report lists it as unused although it is honoured'
              % (late[0].line if late else '?'))


def _ancestors(node):
    n = getattr(node, 'parent', None)
    while n is not None:
        yield n
        n = getattr(n, 'parent', None)


def _unused_overrides_from_live_options(ctx, R):
    """the report's "unused / overridden options" notes are computed on the election's live Options object when the report is made:
    options consumed after the count (dump, json, report in Droop.main) are then known to be used.  A snapshot taken at the first
    action (the record's copy of the layers) is stale by then."""
    n = 0
    for f in ctx.repo.funcs.values():
        if not f.module.name.startswith('droop') or f.module.name == 'droop.options':
            continue
        for c in f.own_nodes():
            if isinstance(c, ast.Call) and isinstance(c.func, ast.Attribute) and c.func.attr in ('unused', 'overrides') and not c.args:
                n += 1
                ctx.check(ctx.canon(c.func.value, f) == 'E.options', R, c, f,
                          'the unused / overridden option notes are computed on the live options of the election',
                          'E.options.%s()' % c.func.attr,
                          '`%s` is not called on the election\'s own Options object: options consumed after the snapshot (dump, json, report) '
                          'are reported as unused' % unparse(c), nontrivial=False)
    ctx.floor(R, 'unused()/overrides() call sites', n, 2)


def r36_construction_order(ctx):
    R = 'R36'
    repo = ctx.repo
    _driver_passes_options_unchanged(ctx, R)
    _driver_registers_outputs_first(ctx, R)
    _one_option_per_setting(ctx, R)
    _unused_overrides_from_live_options(ctx, R)
    init = repo.func('droop.election.Election.__init__')
    cfg = cfg_of(init)

    def find(pred, desc):
        hits = [n for n in cfg.stmt_nodes() if any(pred(c) for c in calls_at(n))]
        need(len(hits) >= 1, 'R36: %s not found in Election.__init__' % desc)
        return hits[0]
    # every call that writes the option layers (Options.update) in Election.__init__
    merges = [n for n in cfg.stmt_nodes() if any(isinstance(c.func, ast.Attribute) and c.func.attr == 'update'
                                                 and unparse(c.func.value) in ('options', 'self.options') for c in calls_at(n))]
    need(merges, 'R36: no options.update(...) call (merge of the profile options) found in Election.__init__')
    # the profile's options must reach such a call (directly or through a local holding options.parse(electionProfile.options))
    def mentions_profile_options(c):
        for a in list(c.args) + [k.value for k in c.keywords]:
            for x in ast.walk(a):
                if isinstance(x, ast.Attribute) and x.attr == 'options' and isinstance(x.value, ast.Name) and x.value.id == 'electionProfile':
                    return True
                if isinstance(x, ast.Name):
                    df, vals = ctx.scope(init).lookup_def(x.id, init)
                    if vals and vals != 'param':
                        for val, st_ in vals:
                            if isinstance(val, ast.AST) and any(isinstance(y, ast.Attribute) and y.attr == 'options' and isinstance(y.value, ast.Name)
                                                                and y.value.id == 'electionProfile' for y in ast.walk(val)):
                                return True
        return False
    pm = [n for n in merges if any(mentions_profile_options(c) for c in calls_at(n) if isinstance(c.func, ast.Attribute) and c.func.attr == 'update')]
    need(pm, 'R36: merge of the profile options not found in Election.__init__')
    for n_ in pm:
        mcall = [c for c in calls_at(n_) if isinstance(c.func, ast.Attribute) and c.func.attr == 'update'][0]
        fo = get_arg(mcall, 2, 'file_options')
        ctx.check(isinstance(fo, ast.Constant) and fo.value is True, R, mcall, init,
                  'options embedded in the ballot file are merged into the file layer', 'update(..., file_options=True)',
                  'profile options are merged without file_options=True: they land in the command layer and override the caller')
    merge = sorted(pm, key=lambda x: x.line)[-1]      # the LAST merge of profile options must still precede the rule
    rc_name, rn_name = rule_ctor_names(init)
    need(rc_name is not None, 'R36: `self.rule = <RuleClass>(self)` not found in Election.__init__')
    mk_rule = find(lambda c: isinstance(c.func, ast.Name) and c.func.id == rc_name, 'Rule(self)')
    rule_opts = find(lambda c: unparse(c.func) == 'self.rule.options', 'self.rule.options()')
    arith = find(lambda c: unparse(c.func).endswith('ArithmeticClass'), 'values.ArithmeticClass(self.options)')
    cands = find(lambda c: isinstance(c.func, ast.Name) and c.func.id == 'Candidates', 'Candidates(self)')
    order = [('profile options merged', merge), ('rule object created', mk_rule), ('rule.options()', rule_opts),
             ('arithmetic selected', arith), ('candidates built', cands)]
    for (da, a), (db, b) in zip(order, order[1:]):
        ctx.check(cfg.dominates(a, b) and a is not b and b not in cfg.reach([cfg.entry], avoid=[a], include_start=True),
                  R, b.ast, init, 'construction order: %s before %s' % (da, db),
                  'line %d dominates line %d' % (a.line, b.line), '%s (line %d) does not precede %s (line %d) on every path'
                  % (da, a.line, db, b.line))
    # nothing interprets an option value before the rule has had its say: between the merge and rule.options() the only things
    # done with the options object are update / parse and reading the rule NAME.  (A value the rule is going to override by force
    # must not be able to stop - or alter - the count beforehand.)
    pre = cfg.reach([cfg.entry], avoid=[rule_opts], include_start=True)
    for x in pre:
        for c in calls_at(x):
            if isinstance(c.func, ast.Attribute) and (unparse(c.func.value) in ('options', 'self.options') or ctx.canon(c.func.value, init) == 'E.options'):
                m_ = c.func.attr
                okc = m_ in ('update', 'parse') or (m_ == 'getopt' and c.args and const_str(c.args[0]) == 'rule')
                ctx.check(okc, R, c, init, 'before rule.options() runs, option values are only merged, and only the rule name is read',
                          'options.%s(...)' % m_,
                          '`%s` runs before the rule has forced its own values: a caller / ballot-file value that a statutory rule overrides can '
                          'still change or refuse the count' % unparse(c), nontrivial=False)
    # the arithmetic class is chosen from the same Options object the rule processed
    acall = [c for c in calls_at(arith) if unparse(c.func).endswith('ArithmeticClass')][0]
    ctx.check(acall.args and unparse(acall.args[0]) == 'self.options', R, acall, init,
              'the arithmetic is selected from the options the rule has processed', 'ArithmeticClass(self.options)',
              'ArithmeticClass is not given self.options')
    # rulename is read through getopt (layered), not from one layer
    rn = [n for n in init.own_nodes() if isinstance(n, ast.Assign) and isinstance(n.targets[0], ast.Name)
          and n.targets[0].id == rn_name]
    ctx.check(len(rn) == 1 and unparse(rn[0].value) == "options.getopt('rule')", R, rn[0] if rn else init.node, init,
              'the rule is selected through the layered getopt', "rulename = options.getopt('rule')",
              'the rule name is not read through getopt')


# ---------------------------------------------------------------------------
# R59 an option with a fixed set of spellings is tested by comparing with one of them
# ---------------------------------------------------------------------------

def r59_enum_options(ctx):
    """a rule parameter taken from `setopt(name, ..., allowed=(<strings>))` is a word, not a flag: every test of it in the rule class
    (and the method classes it inherits from) compares it with one of the allowed spellings.  A truth test (`if not self.defeat_batch`)
    is true for every spelling - 'none' included - so the option stops meaning anything."""
    R = 'R59'
    n = 0
    for ri in rules(ctx):
        opt = ri.cls.find_method('options')
        if opt is None:
            continue
        enums = {}
        for st in opt.own_nodes():
            if isinstance(st, ast.Assign) and _self_attr(st.targets[0]) and isinstance(st.value, ast.Call) and isinstance(st.value.func, ast.Attribute) \
                    and st.value.func.attr == 'setopt':
                al = [k.value for k in st.value.keywords if k.arg == 'allowed']
                if al and isinstance(al[0], (ast.Tuple, ast.List)) and al[0].elts and all(const_str(e) is not None for e in al[0].elts):
                    enums[_self_attr(st.targets[0])] = [const_str(e) for e in al[0].elts]
        if not enums:
            continue
        for kls in ri.cls.mro():
            for m in kls.methods.values():
                for g in all_funcs_of(m):
                    for x in g.own_nodes():
                        if not (isinstance(x, ast.Attribute) and isinstance(x.ctx, ast.Load) and isinstance(x.value, ast.Name) and x.value.id == 'self' and x.attr in enums):
                            continue
                        par = x.parent
                        n += 1
                        words = enums[x.attr]
                        if isinstance(par, ast.Compare) and len(par.ops) == 1 and isinstance(par.ops[0], (ast.Eq, ast.NotEq, ast.In, ast.NotIn)):
                            other = par.comparators[0] if par.left is x else par.left
                            lits = [const_str(other)] if const_str(other) is not None else \
                                ([const_str(e) for e in other.elts] if isinstance(other, (ast.Tuple, ast.List, ast.Set)) else [None])
                            ok = all(l in words for l in lits)
                            ctx.check(ok, R, par, g, 'the option word self.%s of rule %s is compared with one of its spellings %s' % (x.attr, ri.short, words),
                                      unparse(par), '`%s` compares self.%s with %s, which is not among its spellings %s' % (unparse(par), x.attr, lits, words), nontrivial=False)
                        elif isinstance(par, (ast.If, ast.While, ast.IfExp, ast.BoolOp, ast.UnaryOp, ast.Assert)) and not (isinstance(par, (ast.If, ast.While, ast.IfExp)) and par.test is not x):
                            ctx.bad(R, x, g, 'the option word self.%s of rule %s is compared with one of its spellings %s' % (x.attr, ri.short, words),
                                    '`%s` tests the truth of self.%s: every spelling is a non-empty string, so the test does not distinguish %s'
                                    % (unparse(par)[:80], x.attr, ' from '.join(repr(w) for w in words[:2])))
                        else:
                            ctx.ok(R, x, g, 'the option word self.%s of rule %s is compared with one of its spellings %s' % (x.attr, ri.short, words),
                                   'used as a value (`%s`)' % unparse(par)[:60], nontrivial=False)
    ctx.floor(R, 'uses of option words', n, 2)
