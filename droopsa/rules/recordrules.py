"""R37 status changes log themselves, R38 first action / end-of-count agreement, R39 tag agreement,
R40 action-key flow, R41 renderers read only the record, R42 dump arity."""
import ast

from ..model import AnalysisError, need, call_name, const_str, unparse, alpha_body, alpha_src
from ..cfg import cfg_of, calls_at
from .common import rules, deriv, stmt_text, node_effects, all_funcs_of, effects

RECORD = 'droop.record.ElectionRecord'
BASE_KEYS = ('tag', 'msg', 'round')


def _tags_tuple(ctx):
    """the tuple of tags asserted by ElectionRecord.action, and the fill tags"""
    act = ctx.repo.func(RECORD + '.action')
    tags, fill = None, None
    for n in act.own_nodes():
        if isinstance(n, ast.Assert):
            for sub in ast.walk(n.test):
                if isinstance(sub, ast.Compare) and isinstance(sub.left, ast.Name) and sub.left.id == 'tag' \
                        and isinstance(sub.ops[0], ast.In) and isinstance(sub.comparators[0], ast.Tuple):
                    tags = [const_str(e) for e in sub.comparators[0].elts]
        if isinstance(n, ast.If):
            t = n.test
            parts = t.values if isinstance(t, ast.BoolOp) and isinstance(t.op, ast.And) else [t]
            for p in parts:
                if isinstance(p, ast.Compare) and isinstance(p.left, ast.Name) and p.left.id == 'tag' \
                        and any(isinstance(s, ast.Expr) and unparse(s.value) == 'self._fill()' for b_ in n.body for s in ast.walk(b_)):
                    if isinstance(p.ops[0], ast.In) and isinstance(p.comparators[0], ast.Tuple):
                        fill = [const_str(e) for e in p.comparators[0].elts]
                    elif isinstance(p.ops[0], ast.Eq) and const_str(p.comparators[0]):
                        fill = [const_str(p.comparators[0])]
    need(tags and None not in tags, 'R39: tag tuple of ElectionRecord.action not found')
    need(fill and None not in fill, 'R38: fill tags of ElectionRecord.action not found')
    return tags, fill


def r37_status_changes_logged(ctx):
    R = 'R37'
    cand = ctx.repo.cls('droop.candidate.Candidate')
    for name, tag in (('elect', 'elect'), ('defeat', 'defeat')):
        f = cand.methods.get(name)
        need(f is not None, 'Candidate.%s missing' % name)
        cfg = cfg_of(f)
        stores = [n for n in cfg.stmt_nodes() if n.kind == 'stmt' and isinstance(n.ast, ast.Assign)
                  and unparse(n.ast.targets[0]) == 'self.state']
        logs = set()
        for n in cfg.stmt_nodes():
            for c in calls_at(n):
                if ctx.canon(c.func, f) == 'E.logAction' and c.args and const_str(c.args[0]) == tag:
                    logs.add(n)
        ok = bool(stores) and bool(logs) and all(cfg.exit not in cfg.reach([s], avoid=logs) for s in stores)
        # the message names the candidate
        named = all(any(isinstance(x, ast.Attribute) and x.attr == 'name' and isinstance(x.value, ast.Name) and x.value.id == 'self'
                        for c in calls_at(n) for a in c.args[1:] for x in ast.walk(a)) for n in logs)
        ctx.check(ok and named, R, f.node, f, "Candidate.%s logs a '%s' action naming the candidate on every path after the status store" % (name, tag),
                  "every path from `self.state = ...` to the end passes self.E.logAction('%s', ... self.name)" % tag,
                  "Candidate.%s can change the status without logging a '%s' action naming the candidate" % (name, tag))
    # the tags 'elect' and 'defeat' are emitted only by Candidate.elect / Candidate.defeat, so every listed election or
    # exclusion is a status change made at that step
    for f in ctx.repo.funcs.values():
        for c in f.own_nodes():
            if isinstance(c, ast.Call) and isinstance(c.func, ast.Attribute) and c.func.attr in ('logAction', 'action') and c.args \
                    and const_str(c.args[0]) in ('elect', 'defeat'):
                ok = f.owner_class is cand and f.name == const_str(c.args[0])
                ctx.check(ok, R, c, f, "an 'elect'/'defeat' action is recorded only by the method that makes that status change",
                          'inside Candidate.%s' % f.name, "'%s' action logged from %s: the record lists an election/exclusion that is not "
                          "the status change made at that step" % (const_str(c.args[0]), f.qualname), nontrivial=False)
    # tally-carrying actions (every tag but 'log') are recorded only while the count itself runs: from the rules' count()
    # and their local helpers, from the Candidate status methods, Election.newRound and Election.count.  Whatever runs
    # after (or instead of) the count - report/dump/json, interrupt handling - may only add 'log' lines, which carry no tallies.
    n_snap = 0
    for f in ctx.repo.funcs.values():
        if not (f.module.name.startswith('droop') or f.module.name == 'Droop'):
            continue
        for c in f.own_nodes():
            if not (isinstance(c, ast.Call) and isinstance(c.func, ast.Attribute) and c.func.attr in ('logAction', 'action') and c.args):
                continue
            if c.func.attr == 'action' and not unparse(c.func.value).endswith('erecord'):
                continue
            tag = const_str(c.args[0])
            if tag == 'log':
                continue
            n_snap += 1
            out = f.outermost
            in_count = out.name == 'count' and out.owner_class is not None and out.module.name.startswith('droop.rules.')
            ok = in_count or f.owner_class is cand or f.qualname in ('droop.election.Election.newRound', 'droop.election.Election.count',
                                                                     'droop.election.Election.logAction')
            ctx.check(ok, R, c, f, 'snapshots of the tallies are recorded only by the count itself (rule code, Candidate status methods, newRound, Election.count)',
                      'recorded from %s' % f.qualname,
                      "a '%s' action (which snapshots every tally) is recorded from %s: outside the count the books need not balance "
                      '(an interrupt can land in the middle of a transfer)' % (tag if tag else unparse(c.args[0]), f.qualname), nontrivial=False)
    ctx.floor(R, 'snapshot-recording call sites', n_snap, 35)
    # unpend logs 'unpend' when given a message (informational shape)
    # Election.logAction forwards to the record unconditionally
    la = ctx.repo.func('droop.election.Election.logAction')
    body = [s for s in la.node.body if not (isinstance(s, ast.Expr) and isinstance(s.value, ast.Constant))]
    ok = len(body) == 1 and isinstance(body[0], ast.Expr) and unparse(body[0].value) == 'self.erecord.action(action, msg)'
    ctx.check(ok, R, la.node, la, 'Election.logAction forwards every action to the record', 'self.erecord.action(action, msg)',
              'Election.logAction does not forward unconditionally to ElectionRecord.action')
    # ... and Election.log is nothing but logAction('log', msg): no flag, no filter (the interrupt notice goes through it)
    lg = ctx.repo.func('droop.election.Election.log')
    okl = alpha_body(lg.node) == alpha_src("def log(self, msg):\n self.logAction('log', msg)")
    ctx.check(okl, R, lg.node, lg, 'Election.log records every message as a log action, unconditionally', "self.logAction('log', msg)",
              'Election.log does more (or less) than self.logAction(\'log\', msg): a message - the interrupt notice is one - can be dropped')


def _emits(ctx, f, node, fill_tags):
    """classify the actions a CFG node may emit: ('fill'|'other'|'log'|None)"""
    kinds = set()
    for c in calls_at(node):
        kind, recv, nm = call_name(c)
        p = ctx.canon(c.func, f)
        if p == 'E.logAction':
            t = const_str(c.args[0]) if c.args else None
            kinds.add('fill' if t in fill_tags else ('log' if t == 'log' else 'other'))
        elif p == 'E.newRound':
            kinds.add('fill' if 'round' in fill_tags else 'other')
        elif p == 'E.log':
            kinds.add('log')
        elif kind == 'attr' and nm in ('elect', 'defeat'):
            kinds.add('other')
        elif kind == 'attr' and nm == 'unpend' and (c.args or c.keywords):
            kinds.add('other')
        elif kind == 'name':
            callee = deriv(ctx).local_func(nm, f)
            if callee is not None and _func_emits(ctx, callee):
                kinds.add('other')
    return kinds


def _func_emits(ctx, f, _seen=None):
    _seen = _seen or set()
    if f.qualname in _seen:
        return False
    _seen.add(f.qualname)
    for n in f.own_nodes():
        if isinstance(n, ast.Call):
            kind, recv, nm = call_name(n)
            p = ctx.canon(n.func, f)
            if p in ('E.logAction', 'E.newRound') or (kind == 'attr' and nm in ('elect', 'defeat', 'unpend')):
                return True
            if kind == 'name':
                callee = deriv(ctx).local_func(nm, f)
                if callee is not None and _func_emits(ctx, callee, _seen):
                    return True
    return False


def r38_first_and_last_action(ctx):
    R = 'R38'
    tags, fill = _tags_tuple(ctx)
    for ri in rules(ctx):
        f, cfg = ri.count, ri.cfg
        fills = set()
        others = set()
        for n in cfg.stmt_nodes():
            k = _emits(ctx, f, n, fill)
            if 'fill' in k:
                fills.add(n)
            elif 'other' in k:
                others.add(n)
        before = cfg.reach([cfg.entry], avoid=fills, include_start=True) & others
        ctx.check(bool(fills) and not before, R, f.node, f,
                  'the first non-log action of a count is one of %s (it fills the record header)' % '/'.join(fill),
                  'no elect/defeat/transfer/tie action is reachable before the first begin/count/round action (%d sites)' % len(fills),
                  'an action at line %s can be recorded before any begin/count/round action' % (sorted(x.line for x in before)[0] if before else '?'))
    # Election.count: rule.count(); then the 'end' action; then elected/defeated/withdrawn read from C with no status
    # writer in between; then postCheck - checked on the CFG, extra non-status statements are tolerated
    cnt = ctx.repo.func('droop.election.Election.count')
    ccfg = cfg_of(cnt)

    def nodes_calling(pred):
        return {x for x in ccfg.stmt_nodes() if any(pred(c) for c in calls_at(x))}
    rc = nodes_calling(lambda c: unparse(c.func) == 'self.rule.count')
    need(len(rc) == 1, 'R38: Election.count does not call self.rule.count() exactly once')
    rcn = list(rc)[0]
    ends = nodes_calling(lambda c: unparse(c.func) == 'self.logAction' and c.args and const_str(c.args[0]) == 'end')
    ok_end = len(ends) == 1 and ccfg.exit not in ccfg.reach([rcn], avoid=ends) and list(ends)[0] in ccfg.reach([rcn])
    ctx.check(ok_end, R, list(ends)[0].ast if ends else cnt.node, cnt, "the 'end' action follows the rule's count on every path",
              "every path from self.rule.count() to the end of Election.count passes self.logAction('end', ...)",
              "Election.count can finish without recording the 'end' action after the rule's count")
    res = {}
    for x in ccfg.stmt_nodes():
        st = x.ast
        if x.kind == 'stmt' and isinstance(st, ast.Assign) and len(st.targets) == 1 and unparse(st.targets[0]) in ('self.elected', 'self.defeated', 'self.withdrawn'):
            res.setdefault(unparse(st.targets[0]), []).append(x)
    want = {'self.elected': 'self.C.elected()', 'self.defeated': 'self.C.defeated()', 'self.withdrawn': 'self.C.withdrawn()'}
    after_end = ccfg.reach(list(ends)) if ends else set()
    ok_res = True
    why = ''
    for tgt, val in want.items():
        xs = [x for x in res.get(tgt, []) if x in after_end]
        if len(xs) != 1 or unparse(xs[0].ast.value) != val:
            ok_res = False
            why = '%s is not assigned %s after the end action (%s)' % (tgt, val, [unparse(x.ast.value) for x in res.get(tgt, [])])
    # nothing that can change a status between the end action and the last result assignment
    if ok_res and ends:
        last = max((x for v in res.values() for x in v if x in after_end), key=lambda x: x.line)
        between = ccfg.reach(list(ends), avoid=[last])
        for x in between:
            for c in calls_at(x):
                fn = unparse(c.func)
                if fn.endswith(('.elect', '.defeat', '.unelect', '.unpend', 'rule.count')) or fn in ('self.count',):
                    ok_res = False
                    why = 'status-changing call `%s` between the end action and the result assignment' % fn
    ctx.check(ok_res, R, cnt.node, cnt, "the results the election object reports are read from the candidates after the 'end' action, with no status change in between",
              'elected/defeated/withdrawn = C.elected()/defeated()/withdrawn() after the end action', why)
    pcs = nodes_calling(lambda c: unparse(c.func) == 'self.postCheck')
    ok_pc = bool(pcs) and all(ccfg.exit not in ccfg.reach([x], avoid=pcs) for v in res.values() for x in v if x in after_end) and ok_res
    ctx.check(ok_pc, R, cnt.node, cnt, 'the post-count sanity check runs after the results were read', 'self.postCheck() on every path after the result assignments',
              'Election.count can return without running postCheck on the results')
    # postCheck asserts seats filled
    pc = ctx.repo.func('droop.election.Election.postCheck')
    asserts = [n for n in pc.own_nodes() if isinstance(n, ast.Assert)]
    txt = unparse(asserts[0].test) if asserts else ''
    okp = alpha_body(pc.node) == alpha_src('def postCheck(self):\n nElected = len(self.elected)\n nEligible = len(self.C.eligible())\n'
                                           ' assert nElected == self.nSeats or (nElected < self.nSeats and nElected == nEligible)')
    ctx.check(okp, R, pc.node, pc, 'postCheck asserts that the seats are filled or every eligible candidate is elected',
              txt, 'postCheck no longer asserts the seat count')


def r39_tag_agreement(ctx):
    R = 'R39'
    tags, fill = _tags_tuple(ctx)
    n = 0
    emitted = set()
    for f in ctx.repo.funcs.values():
        for c in f.own_nodes():
            if isinstance(c, ast.Call) and isinstance(c.func, ast.Attribute) and c.func.attr == 'logAction':
                n += 1
                t = const_str(c.args[0]) if c.args else None
                if t is None and f.qualname == 'droop.election.Election.log':
                    continue
                if t is None:
                    # Election.logAction(self, action, msg) forwarding its own parameter
                    if f.qualname == 'droop.election.Election.logAction':
                        continue
                    raise AnalysisError('R39: non-literal action tag at %s' % ctx.repo.loc(c))
                emitted.add(t)
                ctx.check(t in tags, R, c, f, 'every action tag passed to logAction is one the recorder accepts',
                          "'%s' is in the tuple asserted by ElectionRecord.action" % t,
                          "tag '%s' is not in ElectionRecord.action's tuple: AssertionError at run time" % t, nontrivial=False)
    ctx.floor(R, 'logAction call sites', n, 35)
    # tags named by the renderers
    for qn in (RECORD + '.report', RECORD + '.dump', 'droop.rules.qpq.Rule.report'):
        f = ctx.repo.func(qn)
        for cmp_ in [x for x in f.own_nodes() if isinstance(x, ast.Compare)]:
            l = cmp_.left
            if isinstance(l, ast.Subscript) and const_str(l.slice) == 'tag':
                vals = []
                for c in cmp_.comparators:
                    if isinstance(c, ast.Tuple):
                        vals += [const_str(e) for e in c.elts]
                    elif const_str(c):
                        vals.append(const_str(c))
                for v in vals:
                    if v in tags:
                        continue
                    if v == 'pend':
                        ctx.note(R, "%s names the tag 'pend', which no code emits and the recorder does not accept (dead alternative)" % qn)
                        continue
                    ctx.bad(R, cmp_, f, 'renderers test only tags the recorder accepts', "renderer tests for unknown tag '%s'" % v)
    ctx.note(R, 'tags emitted: %s; accepted: %s' % (sorted(emitted), tags))
    return emitted


def _key_loads(f, names):
    """[(key, node, recvname)] literal-key subscript loads on the given local names"""
    out = []
    for n in f.own_nodes():
        if isinstance(n, ast.Subscript) and isinstance(n.ctx, ast.Load) and isinstance(n.value, ast.Name) \
                and n.value.id in names and const_str(n.slice) is not None:
            out.append((const_str(n.slice), n, n.value.id))
    return out


def _key_stores(f, names):
    out = set()
    for n in f.own_nodes():
        if isinstance(n, ast.Subscript) and isinstance(n.ctx, ast.Store) and isinstance(n.value, ast.Name) \
                and n.value.id in names and const_str(n.slice) is not None:
            out.add(const_str(n.slice))
        if isinstance(n, ast.Call) and isinstance(n.func, ast.Name) and n.func.id == 'dict' and n.keywords:
            par = getattr(n, 'parent', None)
            if isinstance(par, ast.Assign) and isinstance(par.targets[0], ast.Name) and par.targets[0].id in names:
                out |= set(k.arg for k in n.keywords if k.arg)
    return out


def _tag_tests(f, var):
    """tests on <var>['tag'] in f: [(If node, tagset, positive)] : positive=True means the True branch
    is taken when tag in tagset"""
    out = []
    for n in f.own_nodes():
        if not isinstance(n, ast.If):
            continue
        parts = n.test.values if isinstance(n.test, ast.BoolOp) else [n.test]
        kind_ = False if len(parts) == 1 else ('and' if isinstance(n.test.op, ast.And) else 'or')
        for p in parts:
            if isinstance(p, ast.Compare) and isinstance(p.left, ast.Name) and len(p.ops) == 1:
                # `tag = A['tag']` (the only binding of the local) and a test on `tag`
                ds = f.assigns().get(p.left.id, [])
                if len(ds) == 1 and isinstance(ds[0][0], ast.Subscript) and const_str(ds[0][0].slice) == 'tag' \
                        and isinstance(ds[0][0].value, ast.Name) and ds[0][0].value.id == var:
                    p = ast.Compare(left=ds[0][0], ops=p.ops, comparators=p.comparators)
            if isinstance(p, ast.Compare) and isinstance(p.left, ast.Subscript) and const_str(p.left.slice) == 'tag' \
                    and isinstance(p.left.value, ast.Name) and p.left.value.id == var and len(p.ops) == 1:
                c = p.comparators[0]
                if isinstance(c, ast.Attribute) and isinstance(c.value, ast.Name) and f.owner_class is not None \
                        and (c.value.id in ('self', 'cls') or c.value.id == f.owner_class.name):
                    # a class-level constant table (never stored to by any method): its keys / elements
                    cv = f.owner_class.class_attrs.get(c.attr)
                    stored = any(isinstance(x, ast.Attribute) and x.attr == c.attr and isinstance(x.ctx, (ast.Store, ast.Del))
                                 for x in ast.walk(f.module.tree)) or any(
                        isinstance(x, ast.Subscript) and isinstance(x.ctx, (ast.Store, ast.Del)) and isinstance(x.value, ast.Attribute) and x.value.attr == c.attr
                        for x in ast.walk(f.module.tree))
                    if cv is not None and not stored:
                        c = cv
                if isinstance(c, ast.Dict):
                    vals = [const_str(e) if e is not None else None for e in c.keys]
                else:
                    vals = [const_str(e) for e in c.elts] if isinstance(c, (ast.Tuple, ast.List, ast.Set)) else [const_str(c)]
                if None in vals:
                    continue
                if isinstance(p.ops[0], (ast.Eq, ast.In)):
                    out.append((n, set(vals), True, kind_))
                elif isinstance(p.ops[0], (ast.NotEq, ast.NotIn)):
                    out.append((n, set(vals), False, kind_))
    return out


def _log_excluded(ctx, f, node, var, skip_tags=('log',)):
    """is `node` (an AST node in f) unreachable for an action whose tag is in skip_tags?  True when
    every path from the function entry to the node takes an edge that excludes those tags."""
    cfg = cfg_of(f)
    st = node
    while st is not None and st not in cfg.of_stmt:
        st = getattr(st, 'parent', None)
    if st is None:
        return False
    cn = cfg.of_stmt[st]
    tests = _tag_tests(f, var)
    for t in skip_tags:
        excl = []      # (cfg test node, label) edges on which the tag cannot be t
        for ifn, vals, positive, conj in tests:
            tn = cfg.of_stmt[ifn]
            # a conclusion from the True edge needs the part to be true there (not so for a disjunct of `or`); one from the False
            # edge needs it to be false there (not so for a conjunct of `and`)
            if positive:
                if t not in vals and conj != 'or':
                    excl.append((tn, True))        # tag in {tags other than t}
                elif t in vals and conj != 'and':
                    excl.append((tn, False))       # not (tag in {.., t, ..})
            else:
                if t in vals and conj != 'or':
                    excl.append((tn, True))        # tag not in {.., t, ..}
                elif t not in vals and conj != 'and':
                    excl.append((tn, False))       # tag in {tags other than t}
        if not excl:
            return False

        def edge_ok(a, b, lab, excl=excl):
            return (a, lab) not in excl
        if cn in cfg.reach([cfg.entry], edge_ok=edge_ok, include_start=True):
            return False
    return True


def _is_actions_iter(f, it):
    """self['actions'], or a local one of whose definitions is self['actions'] (an alias - possibly re-bound to a filtered copy,
    which R42 reports)"""
    if unparse(it) == "self['actions']":
        return True
    if isinstance(it, ast.Name) and it.id in f.assigns():
        return any(isinstance(v, ast.AST) and unparse(v) == "self['actions']" for v, st in f.assigns()[it.id])
    return False


def _action_var(f):
    """the local that holds one action dict: appended to self['actions'] (recorder) or the loop variable over
    self['actions'] (renderers)"""
    for n in f.own_nodes():
        if isinstance(n, ast.Call) and isinstance(n.func, ast.Attribute) and n.func.attr == 'append' and unparse(n.func.value) == "self['actions']" \
                and len(n.args) == 1 and isinstance(n.args[0], ast.Name):
            return n.args[0].id
    for n in f.own_nodes():
        if isinstance(n, ast.For) and isinstance(n.target, ast.Name) and _is_actions_iter(f, n.iter):
            return n.target.id
    raise AnalysisError('%s: no local holding an action of self[\'actions\'] found' % f.qualname)


def _record_derived(g):
    """names of g that refer to the record or a part of it: the parameters, and locals defined as a subscript of /
    an element of / a .get() on such a name (transitively)"""
    names = set(g.params)
    changed = True
    while changed:
        changed = False
        for nm, defs in g.assigns().items():
            if nm in names:
                continue
            for val, st in defs:
                src = None
                if isinstance(val, ast.Subscript):
                    src = val.value
                elif isinstance(val, ast.Call) and isinstance(val.func, ast.Attribute) and val.func.attr in ('get', 'items', 'values'):
                    src = val.func.value
                elif hasattr(val, 'for_node'):
                    src = val.for_node.iter
                while isinstance(src, (ast.Subscript, ast.Call, ast.Attribute)):
                    src = src.value if not isinstance(src, ast.Call) else src.func
                if isinstance(src, ast.Name) and src.id in names:
                    names.add(nm)
                    changed = True
    return names


def r40_action_key_flow(ctx):
    R = 'R40'
    repo = ctx.repo
    rec = repo.cls(RECORD)
    act = rec.methods['action']
    av_act = _action_var(act)
    base_keys = _key_stores(act, (av_act,))
    need(set(BASE_KEYS) <= base_keys, 'R40: ElectionRecord.action does not create tag/msg/round')
    # keys stored for log actions: those stored before the log fast path returns = dict(...) literal
    log_keys = set(BASE_KEYS)
    report = rec.methods['report']
    dump = rec.methods['dump']
    n = 0
    # families
    fam = {}
    for ri in rules(ctx):
        a = ri.cls.find_method('action')
        fam.setdefault(a.qualname if a else None, []).append(ri)
    for ri in rules(ctx):
        ah = ri.cls.find_method('action')
        hook_keys = _key_stores(ah, ('action',)) if ah is not None else set()
        stored = base_keys | hook_keys
        # hook stores must be unconditional for non-None action
        for hname in ('report', 'dump'):
            h = ri.cls.find_method(hname)
            if h is None or h.owner_class.qualname == 'droop.rules.electionrule.ElectionRule':
                continue
            for k, node, rv in _key_loads(h, ('action',)):
                n += 1
                what = "%s.%s reads action['%s'] only from actions that carry it" % (ri.short, hname, k)
                if k in log_keys:
                    ctx.ok(R, node, h, what, 'every action carries tag/msg/round', nontrivial=False)
                    continue
                if k not in stored:
                    ctx.bad(R, node, h, what, "no recorder stores action['%s'] for rule %s (stored: %s)" % (k, ri.short, sorted(stored)))
                    continue
                # must not be reached for a log action
                ok = False
                how = ''
                if hname == 'report':
                    # own tag test, or a section literal whose call sites in ElectionRecord.report are log-excluded
                    if _log_excluded(ctx, h, node, 'action'):
                        ok, how = True, "guarded by the hook's own test on action['tag']"
                    else:
                        secs = _dominating_sections(ctx, h, node)
                        if secs:
                            sites = [c for c in report.own_nodes() if isinstance(c, ast.Call) and isinstance(c.func, ast.Attribute)
                                     and c.func.attr == 'report' and len(c.args) >= 3 and const_str(c.args[2]) in secs]
                            if sites and all(_log_excluded(ctx, report, c, _action_var(report)) for c in sites):
                                ok, how = True, "read under section %s, which ElectionRecord.report invokes only after its " \
                                                "log/round fast paths" % '/'.join(sorted(secs))
                else:
                    # (the call may sit in a helper nested in dump that takes the action as a parameter)
                    sites = [(g_, c) for g_ in [dump] + list(dump.children.values()) for c in g_.own_nodes()
                             if isinstance(c, ast.Call) and isinstance(c.func, ast.Attribute)
                             and c.func.attr == 'dump' and any(kw.arg == 'action' for kw in c.keywords)]

                    def avar(g_, c):
                        v_ = [kw.value for kw in c.keywords if kw.arg == 'action'][0]
                        if isinstance(v_, ast.Name) and (g_ is not dump):
                            return v_.id
                        return _action_var(dump)
                    if sites and all(_log_excluded(ctx, g_, c, avar(g_, c)) for g_, c in sites):
                        ok, how = True, 'dump hooks receive an action only in the branch that excludes log actions'
                ctx.check(ok, R, node, h, what, how, "action['%s'] is not stored for 'log' actions, and this read is reachable for one" % k)
    # ElectionRecord.report / dump themselves
    for f in (report, dump):
        for k, node, rv in _key_loads(f, (_action_var(f),)):
            n += 1
            what = "ElectionRecord.%s reads A['%s'] only from actions that carry it" % (f.name, k)
            if k in log_keys:
                ctx.ok(R, node, f, what, 'every action carries tag/msg/round', nontrivial=False)
            elif k not in base_keys:
                ctx.bad(R, node, f, what, "ElectionRecord.action does not store A['%s']" % k)
            else:
                ctx.check(_log_excluded(ctx, f, node, _action_var(f)), R, node, f, what,
                          "dominated by an edge on which A['tag'] != 'log'",
                          "A['%s'] is read for 'log' actions, which carry only tag/msg/round: KeyError" % k)
    ctx.floor(R, 'action key reads', n, 20)
    # per-candidate keys read unconditionally from cstate: initialised before the first fill action
    _check_cstate_keys(ctx, R)


def _dominating_sections(ctx, h, node):
    """section literals S such that every path from the entry of the hook to node takes an edge on which `section == S` holds (the True
    edge of `section == S`, the False edge of `section != S`, conjunctions included) - however the test is spelled (if/elif chain,
    guard clause with an early return, negated test)"""
    cfg = cfg_of(h)
    st = node
    while st is not None and st not in cfg.of_stmt:
        st = getattr(st, 'parent', None)
    if st is None:
        return set()
    at = cfg.of_stmt[st]
    pname = h.params[3] if len(h.params) > 3 else 'section'
    edges = {}          # S -> set of (test node, label)
    for t in cfg.nodes:
        if t.kind != 'test':
            continue
        tt = t.ast.test
        neg = False
        while isinstance(tt, ast.UnaryOp) and isinstance(tt.op, ast.Not):
            tt, neg = tt.operand, not neg
        parts = tt.values if isinstance(tt, ast.BoolOp) and isinstance(tt.op, ast.And) and not neg else [tt]
        for p in parts:
            if isinstance(p, ast.Compare) and len(p.ops) == 1 and isinstance(p.left, ast.Name) and p.left.id in (pname, 'section') \
                    and const_str(p.comparators[0]) is not None:
                if isinstance(p.ops[0], ast.Eq) and (len(parts) == 1 or not neg):
                    edges.setdefault(const_str(p.comparators[0]), set()).add((t, not neg))
                elif isinstance(p.ops[0], ast.NotEq) and len(parts) == 1:
                    edges.setdefault(const_str(p.comparators[0]), set()).add((t, neg))
    out = set()
    for S, es in edges.items():
        if at not in cfg.reach([cfg.entry], edge_ok=lambda a, b, lab, es=es: (a, lab) not in es, include_start=True):
            out.add(S)
    return out


def _contains(a, b):
    return any(x is b for x in ast.walk(a))


def _check_cstate_keys(ctx, R):
    """cstate[cid][K] read without .get() by a dump/report hook => Candidate.as_dict emits K for every
    eligible candidate: K is 'vote'/'state'/'code' (unconditional for non-withdrawn) or the field is
    initialised for every hopeful before the first begin/count/round action"""
    repo = ctx.repo
    cand = repo.cls('droop.candidate.Candidate')
    asd = cand.methods['as_dict']
    uncond = set()
    cond = {}
    cdict_names = set(r_.value.id for r_ in asd.own_nodes() if isinstance(r_, ast.Return) and isinstance(r_.value, ast.Name))
    need(cdict_names, 'Candidate.as_dict does not return a local dict')
    for n in asd.own_nodes():
        if isinstance(n, ast.Subscript) and isinstance(n.ctx, ast.Store) and isinstance(n.value, ast.Name) and n.value.id in cdict_names:
            k = const_str(n.slice)
            st = repo.enclosing_stmt(n)
            par = st.parent
            if isinstance(par, ast.If) and isinstance(par.test, ast.Compare) and unparse(par.test).endswith('is not None'):
                cond[k] = unparse(par.test.left)
            else:
                uncond.add(k)
    tags, fill = _tags_tuple(ctx)
    for ri in rules(ctx):
        for hname in ('report', 'dump'):
            h = ri.cls.find_method(hname)
            if h is None or h.owner_class.qualname == 'droop.rules.electionrule.ElectionRule':
                continue
            for n in h.own_nodes():
                if isinstance(n, ast.Subscript) and isinstance(n.ctx, ast.Load) and const_str(n.slice) in cond:
                    k = const_str(n.slice)
                    base = unparse(n.value)
                    b_ = n.value
                    while isinstance(b_, ast.Subscript):
                        b_ = b_.value
                    if isinstance(b_, ast.Name) and b_.id in h.assigns():
                        base += ' ' + ' '.join(unparse(v_) for v_, _s in h.assigns()[b_.id] if isinstance(v_, ast.AST))
                    if 'cstate' not in base:
                        continue
                    field = cond[k].split('.')[-1]
                    what = "%s.%s reads cstate[...]['%s'] unconditionally: %s is set for the candidates it is read for" % (ri.short, hname, k, field)
                    if field == 'pending':
                        # read only for elected candidates; elect() always stores pending
                        el = cand.methods['elect']
                        okp = any(isinstance(s, ast.Assign) and unparse(s.targets[0]) == 'self.pending' for s in el.own_nodes())
                        ctx.check(okp, R, n, h, what, 'Candidate.elect stores self.pending on every call; the read is over elected candidates',
                                  'Candidate.elect no longer stores self.pending')
                        continue
                    # field initialised for every hopeful before the first fill action in count()
                    f, cfg = ri.count, ri.cfg
                    inits = set()
                    for fn in cfg.nodes:
                        if fn.kind == 'iter' and deriv(ctx).states(fn.ast.iter, f) == frozenset(['hopeful']):
                            for s in fn.ast.body:
                                if isinstance(s, ast.Assign) and isinstance(s.targets[0], ast.Attribute) and s.targets[0].attr == field:
                                    inits.add(fn)
                    fills = {x for x in cfg.stmt_nodes() if 'fill' in _emits(ctx, f, x, fill) or 'other' in _emits(ctx, f, x, fill)}
                    ok = bool(inits) and not (cfg.reach([cfg.entry], avoid=inits, include_start=True) & fills)
                    ctx.check(ok, R, n, h, what, 'a loop over C.hopeful() assigns .%s before the first recorded action of count()' % field,
                              '.%s is not initialised for every hopeful candidate before the first recorded action: as_dict omits '
                              "'%s' and the renderer raises KeyError" % (field, k))


def r41_renderers_read_record(ctx):
    R = 'R41'
    repo = ctx.repo
    rec = repo.cls(RECORD)
    allowed = {'E.rule', 'E.V', 'E.V0', 'E.V1', 'E.options'}
    funcs = [rec.methods[m] for m in ('report', 'dump', 'json')]
    for ri in rules(ctx):
        for hname in ('report', 'dump'):
            h = ri.cls.find_method(hname)
            if h is not None and h not in funcs and h.owner_class.qualname != 'droop.rules.electionrule.ElectionRule':
                funcs.append(h)
    n = 0
    for f in funcs:
        for g in all_funcs_of(f):
            for node in g.own_nodes():
                if isinstance(node, ast.Attribute) and isinstance(node.ctx, ast.Load):
                    p = ctx.canon(node, g)
                    if p in ('E.V.exact', 'E.V.quasi_exact', 'E.V.name') or (node.attr in ('exact', 'quasi_exact') and ctx.canon(node.value, g) == 'E.V'):
                        n += 1
                        ctx.bad(R, node, g, 'renderers take their figures from the record, not from the live election object',
                                '%s makes a printed figure depend on a property of the arithmetic class (`%s`): the record holds the figure, the rendering prints it'
                                % (g.qualname, unparse(node)))
                    if p and p.startswith('E.') and p.count('.') == 1:
                        n += 1
                        ctx.check(p in allowed, R, node, g,
                                  'renderers take their figures from the record, not from the live election object',
                                  '%s is configuration (rule / arithmetic class / options), not count state' % p,
                                  '%s reads live count state %s instead of the recorded value' % (g.qualname, p), nontrivial=False)
                # no stores into the record or its actions
                if isinstance(node, ast.Subscript) and isinstance(node.ctx, (ast.Store, ast.Del)) and isinstance(node.value, ast.Name) \
                        and node.value.id in _record_derived(g):
                    ctx.bad(R, node, g, 'renderers do not modify the record', 'store into %s[...] while rendering' % node.value.id)
    ctx.floor(R, 'election-object reads in renderers', n, 10)


def _appended_counts(f, listvar, branch_nodes):
    """number of items appended to listvar by statements: `x += [..]`, `x.append(..)`, `x.extend([..])`"""
    n = 0
    for s in branch_nodes:
        for sub in ast.walk(s):
            if isinstance(sub, ast.AugAssign) and isinstance(sub.target, ast.Name) and sub.target.id == listvar \
                    and isinstance(sub.value, ast.List):
                n += len(sub.value.elts)
            elif isinstance(sub, ast.Call) and isinstance(sub.func, ast.Attribute) and isinstance(sub.func.value, ast.Name) \
                    and sub.func.value.id == listvar:
                if sub.func.attr == 'append':
                    n += 1
                elif sub.func.attr == 'extend' and sub.args and isinstance(sub.args[0], ast.List):
                    n += len(sub.args[0].elts)
    return n


def _one_output_per_action(ctx, R, f, outvar, skip_ok=None):
    """in the loop `for A in self['actions']` of a renderer every path through the body appends to the output list"""
    cfg = cfg_of(f)
    loops = [n for n in f.own_nodes() if isinstance(n, ast.For) and _is_actions_iter(f, n.iter)]
    need(len(loops) == 1, "R42: loop over self['actions'] not found in %s" % f.qualname)
    L = loops[0]
    if isinstance(L.iter, ast.Name):
        defs = [v for v, st in f.assigns()[L.iter.id]]
        whole = all(isinstance(v, ast.AST) and unparse(v) == "self['actions']" for v in defs)
        ctx.check(whole, R, L, f, '%s renders the whole action list' % f.name, '`%s` is only ever self[\'actions\']' % L.iter.id,
                  '`%s` is re-bound to `%s`: %s leaves recorded actions out, so it no longer agrees with the record, the JSON and the other renderings'
                  % (L.iter.id, '; '.join(unparse(v)[:80] for v in defs if isinstance(v, ast.AST) and unparse(v) != "self['actions']"), f.name))
    head = cfg.of_stmt[L]
    outs = set()
    for x in cfg.nodes_in(L):
        for c in calls_at(x):
            if isinstance(c.func, ast.Attribute) and c.func.attr in ('append', 'extend') and isinstance(c.func.value, ast.Name) \
                    and c.func.value.id == outvar:
                outs.add(x)
            if skip_ok and skip_ok(c, x):
                outs.add(x)
    body_entry = [t for t, lab in head.succ if lab is True]
    ok = bool(outs) and head not in cfg.reach(body_entry, avoid=outs, include_start=True)
    ctx.check(ok, R, L, f, 'every recorded action produces output in %s (rows/lines correspond one to one to the record)' % f.name,
              'every path through the loop body appends to `%s`' % outvar,
              'an action can be skipped by %s: the rendering no longer lines up with the record, the JSON and the other renderings' % f.name)


def r42b_every_action_rendered(ctx):
    """the part of R42 that matters to an interrupted count: dump and report render EVERY recorded action (the interrupt notice is an
    ordinary log action at the end of the list)"""
    _r42_outputs(ctx, 'R42b')


def _r42_outputs(ctx, R):
    repo = ctx.repo

    def out_var(f):
        for r_ in f.own_nodes():
            if isinstance(r_, ast.Return) and r_.value is not None:
                v_ = r_.value
                if isinstance(v_, ast.Call) and isinstance(v_.func, ast.Attribute) and v_.func.attr == 'join' and len(v_.args) == 1:
                    v_ = v_.args[0]
                if isinstance(v_, ast.Name):
                    return v_.id
        raise AnalysisError('%s: %s does not return a joined list' % (R, f.qualname))
    _one_output_per_action(ctx, R, repo.func(RECORD + '.dump'), out_var(repo.func(RECORD + '.dump')))
    _one_output_per_action(ctx, R, repo.func(RECORD + '.report'), out_var(repo.func(RECORD + '.report')),
                           skip_ok=lambda c, x: ctx.canon(c.func, repo.func(RECORD + '.report')) == 'E.rule.report' and len(c.args) >= 3
                           and const_str(c.args[2]) == 'action' and x.kind == 'test')


def r42_dump_arity(ctx):
    R = 'R42'
    repo = ctx.repo
    def out_var(f):
        """the list the renderer joins and returns"""
        for r_ in f.own_nodes():
            if isinstance(r_, ast.Return) and r_.value is not None:
                v_ = r_.value
                if isinstance(v_, ast.Call) and isinstance(v_.func, ast.Attribute) and v_.func.attr == 'join' and len(v_.args) == 1:
                    v_ = v_.args[0]
                if isinstance(v_, ast.Name):
                    return v_.id
        raise AnalysisError('R42: %s does not return a joined list' % f.qualname)
    _one_output_per_action(ctx, R, repo.func(RECORD + '.dump'), out_var(repo.func(RECORD + '.dump')))
    _one_output_per_action(ctx, R, repo.func(RECORD + '.report'), out_var(repo.func(RECORD + '.report')),
                           skip_ok=lambda c, x: ctx.canon(c.func, repo.func(RECORD + '.report')) == 'E.rule.report' and len(c.args) >= 3
                           and const_str(c.args[2]) == 'action' and x.kind == 'test')
    # hooks: header branch vs data branch for (cid is None) and (cid is not None)
    seen = set()
    for ri in rules(ctx):
        h = ri.cls.find_method('dump')
        if h is None or h.qualname in seen or h.owner_class.qualname == 'droop.rules.electionrule.ElectionRule':
            continue
        seen.add(h.qualname)
        lv = h.params[1]
        top = [s for s in h.node.body if isinstance(s, ast.If)]
        def none_test(t, pname):
            """True for `<pname> is None`, False for `<pname> is not None`, else None"""
            if isinstance(t, ast.Compare) and len(t.ops) == 1 and isinstance(t.left, ast.Name) and t.left.id == pname \
                    and isinstance(t.comparators[0], ast.Constant) and t.comparators[0].value is None:
                return True if isinstance(t.ops[0], ast.Is) else (False if isinstance(t.ops[0], ast.IsNot) else None)
            return None
        need(len(h.params) >= 4, 'R42: %s does not take (line, action, cid, cstate)' % h.qualname)
        p_action, p_cid = h.params[2], h.params[3]
        # the number of fields appended in each of the four cases (header / data row) x (per election / per candidate), found by
        # walking the hook with `action is None` and `cid is None` decided: the nesting order of the two tests, elif chains, early
        # returns and conditional expressions all come out the same

        class _Refuse(Exception):
            pass

        def count(stmts, a_none, c_none):
            """fields appended by the statements in that case; raises _Refuse on a test it cannot decide"""
            nfields = 0
            for st_ in stmts:
                if isinstance(st_, ast.If):
                    known = decide(st_.test, a_none, c_none)
                    if known is None:
                        raise _Refuse(unparse(st_.test))
                    k_, done_ = count(st_.body if known else st_.orelse, a_none, c_none)
                    nfields += k_
                    if done_:
                        return nfields, True
                elif isinstance(st_, ast.Return):
                    return nfields, True
                elif isinstance(st_, ast.AugAssign) and isinstance(st_.target, ast.Name) and st_.target.id == lv and isinstance(st_.value, ast.IfExp):
                    known = decide(st_.value.test, a_none, c_none)
                    if known is None:
                        raise _Refuse(unparse(st_.value.test))
                    br_ = st_.value.body if known else st_.value.orelse
                    nfields += len(br_.elts) if isinstance(br_, ast.List) else 0
                else:
                    nfields += _appended_counts(h, lv, [st_])
            return nfields, False

        def decide(t, a_none, c_none):
            if isinstance(t, ast.UnaryOp) and isinstance(t.op, ast.Not):
                k_ = decide(t.operand, a_none, c_none)
                return None if k_ is None else not k_
            if isinstance(t, ast.BoolOp):
                ks = [decide(v_, a_none, c_none) for v_ in t.values]
                if isinstance(t.op, ast.And):
                    return False if False in ks else (None if None in ks else True)
                return True if True in ks else (None if None in ks else False)
            for pn_, val_ in ((p_action, a_none), (p_cid, c_none)):
                k_ = none_test(t, pn_)
                if k_ is not None:
                    return k_ == val_
                if isinstance(t, ast.Name) and t.id == pn_:
                    return not val_         # truthiness of the action dict / the cid (ids start at 1)
            return None
        try:
            table = {(a_, c_): count(h.node.body, a_, c_)[0] for a_ in (True, False) for c_ in (True, False)}
        except _Refuse as e_:
            ctx.unrecognised(R, h.node, h, 'the header / data branches of the dump hook', 'test `%s` is not on (action is None, cid is None)' % e_)
            continue
        for label, c_ in (('per-election', True), ('per-candidate', False)):
            hd, dt = table[(True, c_)], table[(False, c_)]
            ctx.check(hd == dt, R, h.node, h, 'dump hook appends as many %s data fields as header fields' % label,
                      'header branch appends %d, data branch appends %d' % (hd, dt),
                      '%s: header branch appends %d column name(s), data branch %d value(s): rows and header disagree' % (label, hd, dt))
    # ElectionRecord.dump: header construction vs row constructions
    d = repo.func(RECORD + '.dump')
    hooks = [c for c in d.own_nodes() if isinstance(c, ast.Call) and ctx.canon(c.func, d) == 'E.rule.dump' and c.args and isinstance(c.args[0], ast.Name)]
    hnames = set(c.args[0].id for c in hooks if not any(k.arg == 'action' for k in c.keywords))
    rnames = set(c.args[0].id for c in hooks if any(k.arg == 'action' for k in c.keywords))
    need(len(hnames) == 1 and len(rnames) == 1, 'R42: the header / row lists handed to E.rule.dump are not one local each (%s / %s)' % (hnames, rnames))
    hname, rname = list(hnames)[0], list(rnames)[0]
    hdr = [s for s in d.own_nodes() if isinstance(s, ast.Assign) and isinstance(s.targets[0], ast.Name) and s.targets[0].id == hname
           and isinstance(s.value, ast.List)]
    need(len(hdr) == 1, 'R42: header list `h = [...]` not found in ElectionRecord.dump')
    hbase = len(hdr[0].value.elts)
    hloop = [s for s in d.node.body if isinstance(s, ast.For) and isinstance(s.iter, ast.Name)
             and any(c in hooks and c.args[0].id == hname for x_ in s.body for c in ast.walk(x_))]
    need(len(hloop) == 1, 'R42: per-candidate header loop not found')
    ecids = hloop[0].iter.id
    hper = _appended_counts(d, hname, hloop[0].body)
    hook_h = [c for c in hooks if c.args[0].id == hname]
    rows = [s for s in d.own_nodes() if isinstance(s, ast.Assign) and isinstance(s.targets[0], ast.Name) and s.targets[0].id == rname
            and isinstance(s.value, ast.List)]
    need(rows, 'R42: no row construction `r = [...]` found')
    for row in rows:
        # the statements that follow in the same block
        blk = row.parent.body if row in getattr(row.parent, 'body', []) else row.parent.orelse
        idx = blk.index(row)
        rest = blk[idx + 1:]
        rbase = len(row.value.elts)
        rloops = [s for s in rest if isinstance(s, ast.For) and unparse(s.iter) == ecids]
        rper = _appended_counts(d, rname, rloops[0].body) if rloops else None
        hook_r = [c for s in rest for c in ast.walk(s) if isinstance(c, ast.Call) and ctx.canon(c.func, d) == 'E.rule.dump']
        same_shape = rbase == hbase and rper == hper and len(hook_r) == len(hook_h)
        ctx.check(same_shape, R, row, d, 'every dump row has the column count of the header',
                  'row: %d base fields + rule hook + per candidate (%s + rule hook); header: %d + hook + (%d + hook)'
                  % (rbase, rper, hbase, hper),
                  'row `%s` has %d fields and %s per-candidate part; the header has %d base columns, rule columns and %d + rule '
                  'columns per candidate' % (stmt_text(row), rbase, 'no' if rper is None else 'a %d-field' % rper, hbase, hper))


# ---------------------------------------------------------------------------
# R57 what is recorded under a name is the quantity of that name
# ---------------------------------------------------------------------------

R57_TABLE = {
    # function qualname: {recorded key: canonical source (ctext normal form of the right-hand side)}
    'droop.record.ElectionRecord.action': {'quota': 'E.quota', 'votes': 'sum([c.vote for c in E.C.eligible()], E.V0)', 'cstate': 'E.C.cState()',
                                           'tag': 'tag', 'msg': 'msg', 'round': 'E.round'},
    'droop.record.ElectionRecord._fill': {'seats': 'E.nSeats', 'nballots': 'E.nBallots', 'quota': 'E.quota', 'title': 'E.title',
                                          'cids': "E.C.cidList('all')", 'ecids': "E.C.cidList('eligible')", 'cdict': 'E.C.cDict()',
                                          'arithmetic_name': 'E.V.name', 'rule_name': 'E.rule.name', 'method': 'E.rule.method'},
    'droop.rules.electionmethods.MethodMeek.action': {'residual': 'self.E.residual', 'surplus': 'self.E.surplus', 'omega': 'self.omega'},
    'droop.rules.electionmethods.MethodWIGM.action': {'nt_votes': 'self.E.exhausted', 'surplus': 'self.E.surplus'},
    'droop.rules.qpq.Rule.action': {'votes': 'self.E.votes'},
    'droop.candidate.Candidate.as_dict': {'cid': 'self.cid', 'ballot_order': 'self.order', 'tie_order': 'self.tieOrder', 'name': 'self.name', 'nick': 'self.nick',
                                          'state': 'self.state', 'code': 'self.code()', 'vote': 'self.vote', 'kf': 'self.kf', 'quotient': 'self.quotient',
                                          'pending': 'self.pending'},
}


def r57_recorded_sources(ctx):
    """every figure the record carries is read from the election field of that meaning when the action is recorded: a `quota` that is
    E.quota, a `surplus` that is E.surplus, a per-candidate `vote` that is the candidate's tally ... (the renderings, and every
    conservation statement about recorded snapshots, read these keys)"""
    R = 'R57'
    from .common import ctext, ctext_ref
    n = 0
    for qn, table in sorted(R57_TABLE.items()):
        f = ctx.repo.funcs.get(qn)
        need(f is not None, 'R57: %s not found' % qn)
        got = {}
        for x in f.own_nodes():
            if isinstance(x, ast.Assign) and isinstance(x.targets[0], ast.Subscript) and const_str(x.targets[0].slice) is not None:
                got.setdefault(const_str(x.targets[0].slice), []).append((x.value, x))
            if isinstance(x, ast.Call) and isinstance(x.func, ast.Name) and x.func.id == 'dict' and x.keywords:
                for k in x.keywords:
                    if k.arg:
                        got.setdefault(k.arg, []).append((k.value, x))
        for key, want in sorted(table.items()):
            n += 1
            vals = got.get(key, [])
            # self.E.x and E.x are the same path; compare through ctext (aliases -> paths), and accept the `self.E.` spelling
            pl = [p_ for p_ in f.params if p_ not in ('self', 'cls')]
            wants = {ctext_ref(want, pl), ctext_ref(want.replace('self.E.', 'E.'), pl)}
            ok = len(vals) >= 1 and all(ctext(ctx, f, v) in wants or ctext(ctx, f, v).replace('self.E.', 'E.') in wants for v, st in vals)
            ctx.check(ok, R, vals[0][1] if vals else f.node, f, "what is recorded as '%s' in %s is %s" % (key, f.name, want),
                      '%s' % '; '.join(unparse(v) for v, st in vals)[:120],
                      "'%s' is recorded from `%s`, not from %s: the record, the renderings and every check on recorded totals see another quantity"
                      % (key, '; '.join(unparse(v) for v, st in vals)[:120] if vals else '<nothing>', want), nontrivial=False)
    ctx.floor(R, 'recorded keys', n, 30)
