"""R21: abstract interpretation of the Fixed / Guarded method bodies.

Abstract integer = a normalised operand form (term) with a scale dimension:
  ('in', p)     the stored scaled integer of value-parameter p            dim 1
  ('conv', p)   the stored integer of cls(p): p converted by the constructor
                (value -> copied, python int n -> n * scale)              dim 1
  ('int', p)    parameter p known to be a python int                      dim 0
  ('S',)        the class scale factor 10**precision (10**(p+g) guarded)  dim 1
  ('k', n)      integer literal                                           dim 0
  ('ulp',)      the literal 1 added to a dim-1 quantity: one unit in the last place
  ('add', ts) ('mul', ts) ('neg', t) ('abs', t) ('fdiv', n, d) ('mod', n, d)
`+`/`-` need equal dimensions, `*` adds them, `//` and divmod subtract them; every store to
`_value` must have dimension 1.  A method is summarised as {path condition: returned form}; the
summary is compared with the specification table derived from property C12/C13 (rules/values.py).

Path conditions: 'int'/'val' (isinstance(other, int)), 'guard'/'noguard' (cls.guard truthiness),
('up', remainder)/'noup' (`rem and round == 'up'`), ('?', text) for any other test.
Raising paths (argument validation) are dropped.
"""
import ast

from .model import AnalysisError, need, unparse, const_str


class DimError(Exception):
    pass


# -- terms ---------------------------------------------------------------------

def add(*ts):
    out = []
    for t in ts:
        if t[0] == 'add':
            out += list(t[1])
        else:
            out.append(t)
    out.sort(key=repr)
    return ('add', tuple(out)) if len(out) != 1 else out[0]


def mul(*ts):
    out = []
    for t in ts:
        if t[0] == 'mul':
            out += list(t[1])
        else:
            out.append(t)
    out.sort(key=repr)
    return ('mul', tuple(out)) if len(out) != 1 else out[0]


def neg(t):
    if t[0] == 'neg':
        return t[1]
    return ('neg', t)


def dim(t):
    k = t[0]
    if k in ('in', 'conv', 'S', 'ulp'):
        return 1
    if k in ('int', 'k'):
        return 0
    if k in ('neg', 'abs'):
        return dim(t[1])
    if k == 'add':
        ds = set(dim(x) for x in t[1])
        if len(ds) != 1:
            raise DimError('addition of quantities of different scale: %s' % show(t))
        return ds.pop()
    if k == 'mul':
        return sum(dim(x) for x in t[1])
    if k in ('fdiv', 'mod'):
        return dim(t[1]) - dim(t[2]) if k == 'fdiv' else dim(t[1])
    if k == 'opaque':
        raise DimError('the scale of `%s` cannot be determined' % t[1])
    raise DimError('unknown term %r' % (t,))


def roundings(t):
    """number of rounding (floor) operations in the form"""
    k = t[0]
    if k in ('fdiv',):
        return 1 + roundings(t[1]) + roundings(t[2])
    if k in ('mod',):
        return roundings(t[1]) + roundings(t[2])
    if k in ('neg', 'abs'):
        return roundings(t[1])
    if k in ('add', 'mul'):
        return sum(roundings(x) for x in t[1])
    return 0


def show(t):
    k = t[0]
    if k == 'in':
        return '%s.v' % t[1]
    if k == 'conv':
        return 'V(%s).v' % t[1]
    if k == 'int':
        return t[1]
    if k == 'S':
        return 'SCALE'
    if k == 'k':
        return str(t[1])
    if k == 'ulp':
        return '1ulp'
    if k == 'neg':
        return '-(%s)' % show(t[1])
    if k == 'abs':
        return '|%s|' % show(t[1])
    if k == 'add':
        return '(' + ' + '.join(show(x) for x in t[1]) + ')'
    if k == 'mul':
        return '(' + ' * '.join(show(x) for x in t[1]) + ')'
    if k == 'fdiv':
        return 'floor(%s / %s)' % (show(t[1]), show(t[2]))
    if k == 'mod':
        return '(%s mod %s)' % (show(t[1]), show(t[2]))
    if k == 'opaque':
        return '<%s>' % t[1]
    return repr(t)


# -- abstract values -------------------------------------------------------------

class Obj:
    def __init__(self, cls, term, fresh):
        self.cls = cls
        self.term = term
        self.fresh = fresh

    def copy(self):
        return Obj(self.cls, self.term, self.fresh)


class IntV:
    def __init__(self, term):
        self.term = term


class Param:
    """parameter of unknown kind (value or python int)"""
    def __init__(self, name, kind='any'):
        self.name = name
        self.kind = kind      # 'any' | 'int' | 'val'


class StrV:
    def __init__(self, s):
        self.s = s


class CmpV:
    def __init__(self, op, left, right):
        self.op, self.left, self.right = op, left, right


class TupV:
    def __init__(self, items):
        self.items = items


class Other:
    def __init__(self, text):
        self.text = text


class Outcome:
    def __init__(self, conds, value, stores, notes):
        self.conds = conds
        self.value = value
        self.stores = stores      # [(node, term, fresh_ok)]
        self.notes = notes


class Interp:
    def __init__(self, cls, scale_attr, clsnames):
        self.cls = cls                    # ClassInfo
        self.scale_attr = scale_attr      # mangled name of the scale attribute
        self.clsnames = clsnames          # names that denote the class inside its methods

    # -- helpers
    def is_cls_ref(self, e):
        return isinstance(e, ast.Name) and e.id in self.clsnames

    def _attr_name(self, e):
        return self.cls.mangle(e.attr)

    def term_of(self, v, what):
        if isinstance(v, IntV):
            return v.term
        if isinstance(v, Obj):
            raise AnalysisError('R21: value object used as an integer in %s' % what)
        if isinstance(v, Param):
            if v.kind == 'int':
                return ('int', v.name)
            raise AnalysisError('R21: parameter %s used as an integer without an isinstance test in %s' % (v.name, what))
        if isinstance(v, Other):
            return ('opaque', v.text)       # an integer expression the domain has no form for
        raise AnalysisError('R21: cannot take the integer value of %s in %s' % (type(v).__name__, what))

    def construct(self, args, env, node):
        if len(args) == 2:
            flag = args[1]
            if isinstance(flag, ast.Constant) and flag.value is True:
                v = self.eval(args[0], env)
                return Obj(self.cls, self.term_of(v, 'constructor'), True)
            raise AnalysisError('R21: constructor with non-literal setval at line %d' % node.lineno)
        v = self.eval(args[0], env)
        if isinstance(v, Obj):
            return Obj(self.cls, v.term, True)
        if isinstance(v, IntV):
            return Obj(self.cls, mul(v.term, ('S',)), True)
        if isinstance(v, Param):
            if v.kind == 'int':
                return Obj(self.cls, mul(('int', v.name), ('S',)), True)
            if v.kind == 'val':
                return Obj(self.cls, ('in', v.name), True)
            return Obj(self.cls, ('conv', v.name), True)
        raise AnalysisError('R21: constructor argument not understood at line %d' % node.lineno)

    # -- expressions
    def eval(self, e, env):
        if isinstance(e, ast.Name):
            if e.id in env:
                return env[e.id]
            if e.id in self.clsnames:
                return Other('class')
            return Other(e.id)
        if isinstance(e, ast.Constant):
            if isinstance(e.value, bool) or e.value is None:
                return Other(repr(e.value))
            if isinstance(e.value, int):
                return IntV(('k', e.value))
            if isinstance(e.value, str):
                return StrV(e.value)
            return Other(repr(e.value))
        if isinstance(e, ast.Attribute):
            if e.attr == '_value':
                base = self.eval(e.value, env)
                if isinstance(base, Obj):
                    return IntV(base.term)
                if isinstance(base, Param):
                    if base.kind == 'int':
                        raise AnalysisError('R21: ._value of an int parameter')
                    return IntV(('in', base.name))
                raise AnalysisError('R21: ._value of %s at line %d' % (unparse(e.value), e.lineno))
            if isinstance(e.value, ast.Name) and (e.value.id in ('self', 'cls') or e.value.id in self.clsnames):
                if self._attr_name(e) == self.scale_attr:
                    return IntV(('S',))
                return Other('attr:' + e.attr)
            return Other(unparse(e))
        if isinstance(e, ast.UnaryOp):
            if isinstance(e.op, ast.USub):
                v = self.eval(e.operand, env)
                return IntV(neg(self.term_of(v, 'negation')))
            if isinstance(e.op, ast.UAdd):
                return self.eval(e.operand, env)
            if isinstance(e.op, ast.Not):
                return Other('not ' + unparse(e.operand))
        if isinstance(e, ast.BinOp):
            l = self.eval(e.left, env)
            r = self.eval(e.right, env)
            if isinstance(l, StrV) or isinstance(r, StrV):
                return Other(unparse(e))
            if isinstance(l, Other) and isinstance(r, Other):
                return Other(unparse(e))
            lt, rt = self.term_of(l, unparse(e)), self.term_of(r, unparse(e))
            if isinstance(e.op, ast.Add):
                return IntV(self._add(lt, rt))
            if isinstance(e.op, ast.Sub):
                return IntV(self._add(lt, neg(rt)))
            if isinstance(e.op, ast.Mult):
                return IntV(mul(lt, rt))
            if isinstance(e.op, ast.FloorDiv):
                return IntV(('fdiv', lt, rt))
            if isinstance(e.op, ast.Mod):
                return IntV(('mod', lt, rt))
            return IntV(('op:' + type(e.op).__name__, lt, rt))
        if isinstance(e, ast.Call):
            fn = e.func
            if isinstance(fn, ast.Name):
                if fn.id in self.clsnames:
                    return self.construct(e.args, env, e)
                if fn.id == 'abs' and len(e.args) == 1:
                    return IntV(('abs', self.term_of(self.eval(e.args[0], env), 'abs')))
                if fn.id == 'int' and len(e.args) == 1:
                    return self.eval(e.args[0], env)
                if fn.id == 'divmod' and len(e.args) == 2:
                    n = self.term_of(self.eval(e.args[0], env), 'divmod')
                    d = self.term_of(self.eval(e.args[1], env), 'divmod')
                    return TupV([IntV(('fdiv', n, d)), IntV(('mod', n, d))])
                if fn.id == 'isinstance' and len(e.args) == 2:
                    return Other('isinstance:%s:%s' % (unparse(e.args[0]), unparse(e.args[1])))
                if fn.id == 'min':
                    return Other('min')
            if isinstance(fn, ast.Attribute):
                # int(a).__eq__(int(b))
                if fn.attr in ('__eq__', '__ne__', '__lt__', '__le__', '__gt__', '__ge__') and len(e.args) == 1:
                    l = self.eval(fn.value, env)
                    r = self.eval(e.args[0], env)
                    if isinstance(l, IntV) and isinstance(r, IntV):
                        return CmpV(fn.attr, l.term, r.term)
                if fn.attr == '__cmp__' and isinstance(fn.value, ast.Name) and fn.value.id == 'self':
                    return Other('cmp:' + unparse(e.args[0]) if e.args else 'cmp')
            return Other(unparse(e))
        if isinstance(e, ast.Compare) and len(e.ops) == 1:
            l = self.eval(e.left, env)
            r = self.eval(e.comparators[0], env)
            if isinstance(l, IntV) and isinstance(r, IntV):
                opn = {'Eq': '__eq__', 'NotEq': '__ne__', 'Lt': '__lt__', 'LtE': '__le__', 'Gt': '__gt__', 'GtE': '__ge__'}.get(type(e.ops[0]).__name__, type(e.ops[0]).__name__)
                return CmpV(opn, l.term, r.term)
            return Other(unparse(e))
        if isinstance(e, ast.Tuple):
            return TupV([self.eval(x, env) for x in e.elts])
        if isinstance(e, ast.IfExp):
            return Other(unparse(e))
        return Other(unparse(e))

    def _add(self, a, b):
        # the literal 1 added to a scaled quantity is one unit in the last place
        def ulpify(x, other):
            if x == ('k', 1):
                try:
                    if dim(other) == 1:
                        return ('ulp',)
                except DimError:
                    pass
            return x
        a2, b2 = ulpify(a, b), ulpify(b, a)
        return add(a2, b2)

    # -- conditions
    def cond_of(self, test, env):
        """returns (true_cond, false_cond, true_env_patch, false_env_patch, true_raises_only)"""
        if isinstance(test, ast.Call) and isinstance(test.func, ast.Name) and test.func.id == 'isinstance' \
                and len(test.args) == 2 and isinstance(test.args[0], ast.Name) and unparse(test.args[1]) == 'int':
            p = test.args[0].id
            return 'int', 'val', {p: Param(p, 'int')}, {p: Param(p, 'val')}
        if isinstance(test, ast.Attribute) and isinstance(test.value, ast.Name) and test.value.id in ('cls', 'self') + tuple(self.clsnames) \
                and test.attr == 'guard':
            return 'guard', 'noguard', {}, {}
        if isinstance(test, ast.BoolOp) and isinstance(test.op, ast.And) and len(test.values) == 2:
            vals = list(test.values)
            rems = [v for v in vals if isinstance(v, ast.Name) and isinstance(env.get(v.id), IntV)]
            ups = [v for v in vals if isinstance(v, ast.Compare) and len(v.ops) == 1 and isinstance(v.ops[0], ast.Eq)
                   and isinstance(v.left, ast.Name) and v.left.id == 'round' and const_str(v.comparators[0]) == 'up']
            if len(rems) == 1 and len(ups) == 1:
                return ('up', env[rems[0].id].term), 'noup', {}, {}
        if isinstance(test, ast.Compare) and len(test.ops) == 1 and isinstance(test.ops[0], ast.NotIn) \
                and isinstance(test.left, ast.Name) and test.left.id == 'round':
            vals = test.comparators[0]
            if isinstance(vals, ast.Tuple) and sorted(const_str(x) or '' for x in vals.elts) == ['down', 'up']:
                return 'badround', None, {}, {}
        return ('?', unparse(test)), ('?', 'not ' + unparse(test)), {}, {}

    # -- statements
    def run(self, stmts, env, conds, stores, outcomes):
        """execute stmts; returns list of (env, conds, stores) for the paths that fall through"""
        states = [(env, conds, stores)]
        for st in stmts:
            nxt = []
            for (env, conds, stores) in states:
                nxt += self.step(st, env, conds, stores, outcomes)
            states = nxt
            if not states:
                break
        return states

    def step(self, st, env, conds, stores, outcomes):
        if isinstance(st, ast.Expr):
            if isinstance(st.value, ast.Constant):
                return [(env, conds, stores)]
            return [(env, conds, stores)]
        if isinstance(st, ast.Return):
            v = self.eval(st.value, env) if st.value is not None else None
            outcomes.append(Outcome(conds, v, stores, st))
            return []
        if isinstance(st, ast.Raise):
            return []
        if isinstance(st, ast.If):
            tc, fc, tp, fp = self.cond_of(st.test, env)
            out = []
            if tc == 'badround':
                # argument validation: the True branch raises; the fall-through carries no condition
                body_out = self.run(st.body, dict(env), conds, list(stores), outcomes)
                if body_out:
                    raise AnalysisError('R21: rounding-argument validation does not raise (line %d)' % st.lineno)
                return self.run(st.orelse, dict(env), conds, list(stores), outcomes) if st.orelse else [(env, conds, stores)]
            e1 = dict(env)
            e1.update(tp)
            out += self.run(st.body, e1, conds + (tc,), list(stores), outcomes)
            e2 = dict(env)
            e2.update(fp)
            if st.orelse:
                out += self.run(st.orelse, e2, conds + (fc,), list(stores), outcomes)
            else:
                out.append((e2, conds + (fc,), list(stores)))
            return out
        if isinstance(st, (ast.Assign, ast.Return)) and isinstance(st.value, ast.IfExp):
            # `x = A if c else B` / `return A if c else B`: the same statement under an if
            mk = (lambda v_: ast.copy_location(ast.Assign(targets=st.targets, value=v_), st)) if isinstance(st, ast.Assign) \
                else (lambda v_: ast.copy_location(ast.Return(value=v_), st))
            syn = ast.copy_location(ast.If(test=st.value.test, body=[mk(st.value.body)], orelse=[mk(st.value.orelse)]), st)
            return self.step(syn, env, conds, stores, outcomes)
        if isinstance(st, ast.Assign) and len(st.targets) == 1:
            env = dict(env)
            stores = list(stores)
            self.assign(st.targets[0], self.eval(st.value, env), env, stores, st)
            return [(env, conds, stores)]
        if isinstance(st, ast.AugAssign):
            env = dict(env)
            stores = list(stores)
            load = ast.copy_location(ast.BinOp(left=_as_load(st.target), op=st.op, right=st.value), st)
            self.assign(st.target, self.eval(load, env), env, stores, st)
            return [(env, conds, stores)]
        if isinstance(st, ast.Pass):
            return [(env, conds, stores)]
        raise AnalysisError('R21: statement kind %s not modelled (line %d)' % (type(st).__name__, st.lineno))

    def assign(self, target, value, env, stores, st):
        if isinstance(target, ast.Name):
            if isinstance(value, Obj):
                env[target.id] = value      # aliasing: same abstract object
            else:
                env[target.id] = value
            return
        if isinstance(target, ast.Tuple):
            if isinstance(value, TupV) and len(value.items) == len(target.elts):
                for t, v in zip(target.elts, value.items):
                    self.assign(t, v, env, stores, st)
                return
            raise AnalysisError('R21: tuple assignment not understood (line %d)' % st.lineno)
        if isinstance(target, ast.Attribute) and target.attr == '_value':
            base = self.eval(target.value, env)
            term = self.term_of(value, 'store to _value')
            if isinstance(base, Obj):
                fresh = base.fresh
                nb = Obj(base.cls, term, fresh)
                for k in list(env):
                    if env[k] is base:          # every alias of the object sees the store
                        env[k] = nb
                stores.append((st, term, fresh, unparse(target.value)))
                return
            stores.append((st, term, False, unparse(target.value)))
            return
        raise AnalysisError('R21: assignment target `%s` not modelled (line %d)' % (unparse(target), st.lineno))


def _as_load(t):
    t2 = ast.parse(unparse(t), mode='eval').body
    return ast.copy_location(t2, t)


def summarise(cls, func, scale_attr, clsnames):
    """run the interpreter on one method; returns list of Outcome"""
    it = Interp(cls, scale_attr, clsnames)
    env = {}
    params = list(func.params)
    if func.is_classmethod:
        env[params[0]] = Other('class')
        it.clsnames = set(clsnames) | {params[0]}
        rest = params[1:]
    else:
        env[params[0]] = Obj(cls, ('in', 'self'), False)
        rest = params[1:]
    for p in rest:
        if p == 'round':
            env[p] = StrV('?round')
        elif p == 'setval':
            env[p] = Other('setval')
        else:
            env[p] = Param(p)
    outcomes = []
    body = func.node.body
    left = it.run(body, env, (), [], outcomes)
    for (e, c, s) in left:
        outcomes.append(Outcome(c, None, s, func.node))
    return outcomes
