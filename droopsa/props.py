"""Property -> rules table.  Each entry names the clauses decided and declined; the rule functions
are looked up lazily so that a missing rule module is an analysis error of that property only."""

from .rules import countflow as cf
from .rules import loops as lp
from .rules import batch as bt
from .rules import globalstate as gs
from .rules import interrupt as it
from .rules import optionrules as op
from .rules import recordrules as rr
from .rules import parser as ps
from .rules import values as va
from .rules import ties as ti
from .rules import gregory as gr
from .rules import meekrules as mk
from .rules import quota as qt
from .rules import names as nm

NOT_BEHAVIOUR = 'decides the listed structural clauses (necessary conditions); does not decide the behaviour itself'

PROPS = {}


RULE_TITLES = {
    'R00': 'the small helpers the other rules reason with (seatsLeftToFill, topCand, byVote, select, surplus, ...) are what their names say, modulo renaming',
    'R01': 'when count() returns nobody is hopeful',
    'R02': 'every elect site is justified by a quota test, a seat guard or a pending receiver',
    'R03': 'batch exclusions are capped by hopefuls - seats left and name nobody twice',
    'R03b': 'remaining hopefuls are defeated only when the seats are filled',
    'R03c': 'a single exclusion happens only while more hopefuls than open seats remain',
    'R04': 'every loop has a variant; every main-loop iteration makes progress',
    'R05': 'status fields are written only by Candidate; transitions start from the right status set; withdrawn never acted on',
    'R06': 'round numbers only increase',
    'R07': 'a transferred ballot is credited exactly once, to its next continuing candidate or to the non-transferable total',
    'R08': 'tallies are written only by the first count, transfer() and the resets; a reset follows the transfer of every ballot of that candidate',
    'R09': 'transfer value = old value x surplus / tally rounded down, then transfer(b), then tally := quota, on an elected candidate only',
    'R10': 'Meek distribution: every ballot value is split into kept parts and residual that add up',
    'R10b': 'after an exclusion zeroes a tally the votes are redistributed before the next action is recorded',
    'R10c': 'the keep / pass-on split never hands out more than it receives',
    'R11': 'keep factors: update form, zero on defeat before the next distribution',
    'R12': 'iteration exits: omega test, stable-state test, surplus and votes recomputed, elected status reported',
    'R13': 'quota form and election test agree with the exactness of the arithmetic; epsilon read only where it exists; quota computed before use',
    'R14': 'the election step precedes every exclusion and every choice of a surplus',
    'R15': 'the tie order is consulted only by breakTie; tie numbering is position in the listed order; default is ballot order',
    'R16': 'tied sets handed to breakTie are the arg-min / arg-max sets; Scottish prior-stage search equals the reference modulo renaming',
    'R17': 'a candidate acted on singly is the one breakTie returned; batches are not cut by position out of an id-ordered list',
    'R18': 'sure-loser tests are strict, use ALL untransferred surplus, and every extra bound term is a whole tally',
    'R19': 'the ballot multiplier is applied last and never enters a rounded operation',
    'R20': 'ballot loops only accumulate: no break/return, no shared-state store, no mutation of the walked list, no per-line counters',
    'R21': 'abstract interpretation of Fixed/Guarded operations: scale, rounding count and operand form equal the specification',
    'R22': 'Rational is a Fraction subclass whose operators return Rational; __new__ goes through Fraction.__new__',
    'R23': 'Guarded comparisons: difference below half a unit of precision is equality; derived operators agree with __cmp__',
    'R24': 'Guarded with guard 0 computes what Fixed computes; arithmetic-dependent option branches only supply defaults',
    'R25': 'printing: half-up rounding constants, sign-safe split, no state change, printed form never edited or special-cased by a renderer',
    'R26': 'candidate references are sanitised by getCid; withdrawn/undeclared/eligible sets only grow; per-candidate tables are complete',
    'R26d': 'tokenizer precedence: quotes, block comments, # comments; splitlines()',
    'R27': 'array item types can hold every candidate id of their branch (package-wide)',
    'R28': 'withdrawn candidates are stripped from every rank; a line is kept exactly when its ranking survives',
    'R29': 'ballot total and multipliers are written only at line construction; ballot-id lines count one; multiplier = int(token)',
    'R30': 'every accepted profile passed __validate (seats, ballots, duplicates)',
    'R31': 'no foreign exception escapes the reader: definite assignment with exception edges, partial operations enumerated, generators do not call next()',
    'R32': 'every parser loop consumes a token; loops over the declared candidate count run only after that many names were read',
    'R33': 'CLI handlers cover every package exception and end in sys.exit(non-zero)',
    'R34': 'getopt consults the layers in precedence order with no value-dependent fallback',
    'R35': 'statutory rules force their arithmetic; every option read on their behalf (own and inherited methods) is forced',
    'R36': 'construction order: profile options merged into the file layer before the rule, rule.options() before the arithmetic; the driver does not write the caller layer',
    'R37': 'status changes are logged by the method that makes them; tally snapshots are recorded only by the count itself',
    'R38': 'first and last action; results read after the end action; postCheck',
    'R39': 'record header fields',
    'R40': 'renderers read an action key only from actions that carry it',
    'R41': 'renderers take figures from the record, never from the live election, and do not modify the record',
    'R42b': 'dump and report render every recorded action (the whole list, one output per action)',
    'R42': 'dump rows have the header column count; every action yields a row/line',
    'R43': 'record key typestate under interruption',
    'R44': 'the action list is only appended to, by ElectionRecord.action, and the action is complete when appended',
    'R45': 'nothing swallows a KeyboardInterrupt; nothing is recorded in finally bodies / interrupt handlers',
    'R46': 'the driver catches the interrupt around the count, passes the flag to every rendering, and reads back only files written on every path',
    'R47': 'every class attribute the arithmetic reads is re-established by initialize(); epsilon consumers are guarded; no presence probing',
    'R48': 'nothing writes process-global state after import',
    'R49': 'per-election objects are fresh; the shared profile is never modified by a count, not even through an alias',
    'R50': 'stored integers of values are written only in freshly built objects (values are immutable)',
    'R51': 'no unbound local or free variable on the count path',
    'R52': 'optional source / comment strings are read whenever a quoted token follows',
    'R59': 'a rule option with a fixed set of spellings is tested by comparison with one of them, never for truth',
    'R58': 'int() only on tokens that matched a digits-only pattern; the ballot file is opened only by bltRead as utf-8-sig; the driver passes the path',
    'R57': 'every recorded key (quota, votes, surplus, residual, nt_votes, cstate fields ...) is read from the election field of that meaning',
    'R56': 'indexes inside range(len(xs) - k) loops of the counting rules stay inside the list',
    'R55': 'QPQ stage bookkeeping (tx, va, vc, tc, quotient, new weight, restart) equals Woodall 2.3-2.5 modulo renaming, in order',
    'R54': 'QPQ: an election by quotient re-weights the winner\'s ballots before the next action is recorded',
    'R53': 'every attribute read from the rule object outside the rules exists for every registered rule class',
}


def prop(pid, rules, explanation, decided, declined, assumptions=()):
    decided = list(decided)
    mentioned = ' '.join(decided)
    for rid, _fn in rules:
        if '(%s)' % rid not in mentioned and rid in RULE_TITLES:
            decided.append('%s (%s)' % (RULE_TITLES[rid], rid))
    PROPS[pid] = dict(rules=rules, explanation=explanation, decided=decided, declined=declined,
                      assumptions=list(assumptions))


prop('C09',
     [('R00', cf.r00_helper_semantics), ('R05', cf.r05_status_ownership), ('R06', cf.r06_round_monotone), ('R02', cf.r02_elect_sites), ('R03', bt.r03_batch_cap), ('R03c', bt.r03c_single_defeat_guard), ('R13', qt.r13_quota), ('R48', gs.r48_no_global_writer), ('R17', ti.r17_single_from_breaktie)],
     'Static analysis of /repo source. Status fields are written only inside Candidate; every elect/defeat/'
     'unpend/unelect receiver is drawn (candidate-derivation analysis through the rule-local helpers) from the '
     'status set the transition starts from; unelect only in QPQ on elected candidates; E.round only '
     'initialised and incremented; every elect site is justified by a quota test, a seat guard or a pending '
     'receiver. ' + NOT_BEHAVIOUR,
     ['status ownership and transition direction (R05)', 'round numbers only increase (R06)',
      'fill-remaining elections are seat-guarded (R02)', 'batch exclusions are capped (R03)'],
     ['staleness of a candidate list between its construction and its use (flow-insensitive provenance)',
      '"elected never exceed seats" for simultaneous quota elections (arithmetic)'])

prop('C01',
     [('R00', cf.r00_helper_semantics), ('R01', cf.r01_total_sweep), ('R02', cf.r02_elect_sites), ('R03', bt.r03_batch_cap), ('R03b', bt.r03b_defeat_remaining), ('R03c', bt.r03c_single_defeat_guard), ('R04', lp.r04_loops), ('R05', cf.r05_status_ownership),
      ('R38', rr.r38_first_and_last_action), ('R51', nm.r51_no_unbound_names), ('R28', ps.r28_strip_complete),
      # R13: the quota form is what keeps seats+1 candidates from all reaching the quota (more winners than seats);
      # R18: a sure-loser batch holds only candidates that cannot be elected (mpls caps it with the write-ins counted in, see F2(i))
      ('R13', qt.r13_quota), ('R18', ti.r18_sure_loser_strict), ('R12', mk.r12_iteration_exits), ('R53', nm.r53_rule_interface), ('R56', nm.r56_index_in_range), ('R48', gs.r48_no_global_writer)],
     'Static analysis of /repo source over the count() of every registered rule class (CFG path rules with a small '
     'path-sensitive fact domain, candidate-derivation dataflow): every path to the end of count() completes a total '
     'elect-or-defeat sweep; every elect site is justified by a quota test, a seat guard or a pending receiver; every batch '
     'exclusion is capped by hopefuls - seats left and names nobody twice; every while-loop has a variant (ballot walk, '
     'main-loop progress, decreasing Meek surplus, QPQ restart measure); only hopefuls/pendings receive actions; '
     'Election.count runs postCheck after the end action. ' + NOT_BEHAVIOUR,
     ['when count() returns nobody is hopeful (R01)', 'nobody elected without quota or seat guard (R02)',
      'batch exclusions capped and duplicate-free (R03)', 'remaining hopefuls are defeated only when the seats are filled (R03b)', 'every loop has a variant; every main-loop iteration makes progress (R04)',
      'only hopefuls/pendings are elected or defeated; withdrawn never (R05)', 'postCheck after the end action (R38)', 'no unbound local or free variable on the count path (R51)'],
     ['"exactly min(seats, electable) winners" as a number'])

prop('C20',
     [('R47', gs.r47_definite_reset), ('R48', gs.r48_no_global_writer), ('R49', gs.r49_per_election_objects)],
     'Static analysis of /repo source: every class-level attribute the arithmetic classes read is definitely '
     'assigned on the CFG of initialize() (or paired-guarded, or a constant); nothing else in the package writes '
     'process-global state after import (no global statements, no stores into class or module objects, no mutation '
     'of module- or class-level mutable objects, dynamic features inventoried); all other state is per-election '
     'objects built by Election.__init__, and the shared profile is never modified by a count. ' + NOT_BEHAVIOUR,
     ['class-level arithmetic configuration is re-established by initialize on every path (R47)',
      'no other process-global writer (R48)', 'per-election objects; shared profile never mutated (R49)'],
     ['byte equality of two records (a statement about two runs)',
      'callers that reuse one Options object across elections (outside the property\'s protocol)'])
prop('C19',
     [('R43', it.r43_key_typestate), ('R44', it.r44_append_only), ('R45', it.r45_nothing_swallows),
      ('R46', it.r46_interrupt_plumbing), ('R37', rr.r37_status_changes_logged), ('R42b', rr.r42b_every_action_rendered)],
     'Static analysis of /repo source: the renderers never subscript a record key that may not be stored yet '
     '(typestate of the lazily filled header); the action list is append-only and an action is appended complete, so '
     'what is rendered is a prefix; no handler in the package can swallow a KeyboardInterrupt; the driver catches it '
     'around the count and passes the flag to report, dump and json, which log the marker once. ' + NOT_BEHAVIOUR,
     ['renderers load only keys that are certainly stored (R43)', 'append-only, append-last action list (R44)',
      'nothing swallows the interrupt (R45)', 'driver plumbing of the interrupt flag (R46)'],
     ['determinism of the count (needed for "prefix of THE uninterrupted record"): see C20'])
prop('C17',
     [('R34', op.r34_layer_order), ('R35', op.r35_forced_closure), ('R36', op.r36_construction_order), ('R59', op.r59_enum_options)],
     'Static analysis of /repo source: Options.getopt and the recorded effective options consult the four layers in the '
     'order default < file < command < forced; setopt/update write the right layer; for each rule the property lists as '
     'fixed by statute, every option read by the rule or by its arithmetic class is forced by that rule with a constant; '
     'Election.__init__ merges file options as file options before the rule sees them and selects the arithmetic after. '
     + NOT_BEHAVIOUR,
     ['layer order in getopt and in the recorded effective options (R34)',
      'forced closure of statutory rules (R35)', 'construction order (R36)'],
     ['that the report text names unused/overridden options correctly'])
prop('C18',
     [('R37', rr.r37_status_changes_logged), ('R38', rr.r38_first_and_last_action), ('R39', rr.r39_tag_agreement),
      ('R40', rr.r40_action_key_flow), ('R41', rr.r41_renderers_read_record), ('R42', rr.r42_dump_arity),
      ('R03', bt.r03_duplicates), ('R05', cf.r05_status_ownership), ('R44', it.r44_append_only), ('R53', nm.r53_rule_interface), ('R57', rr.r57_recorded_sources), ('R25', va.r25_printing), ('R48', gs.r48_no_global_writer)],
     'Static analysis of /repo source: elect/defeat log themselves on every path; the first recorded action of every rule '
     'is begin/count/round and the end action is followed directly by the result assignment; tags agree between emitters, '
     'recorder and renderers; renderers and rule hooks read only action keys that the recorder stores for that kind of '
     'action and only configuration from the election object; dump hooks and rows agree with the header on arity; a batch '
     'of exclusions names nobody twice. ' + NOT_BEHAVIOUR,
     ['status changes log themselves (R37)', 'first action fills the header; end agrees with E.elected/defeated (R38)',
      'tag agreement (R39)', 'action-key flow recorder -> renderers (R40)', 'renderers read only the record (R41)',
      'dump rows have the header arity, one row/line per action (R42)', 'no duplicate exclusion in one step (R03 ii)',
      'status is changed only by Candidate.elect/defeat, which log (R05)'],
     ['textual agreement of report/dump/JSON figures (they print str() of the same stored object)'])
prop('C15',
     [('R26', ps.r26_cid_sanitiser), ('R26d', ps.r26d_tokenizer_precedence), ('R27', ps.r27_typecode_capacity), ('R28', ps.r28_strip_complete),
      ('R29', ps.r29_ballot_count_pairing), ('R30', ps.r30_validation), ('R52', ps.r52_optional_tail), ('R15', ti.r15_tie_funnel), ('R48', gs.r48_no_global_writer), ('R58', ps.r58_numbers_and_files)],
     'Static analysis of droop/profile.py: every candidate ID that enters a set, an order, a name table or a ranking '
     'flows (reaching definitions) from getCid or a 1..nCand range; the ranking array item type can hold every valid ID '
     'of its branch; the withdrawn strip tests every element; nBallots grows exactly on the paths that keep a line; the '
     'three validations run on every accepted profile. ' + NOT_BEHAVIOUR,
     ['IDs validated before use (R26)', 'storage capacity (R27)', 'complete strip of withdrawn candidates (R28)',
      'ballot total counts exactly the kept lines (R29)', 'validations on every accepted profile (R30)'],
     ['tokenizer correctness for quotes/comments/BOM, nickname-vs-number ambiguity, ballot-id accounting (behavioural)'])

prop('C16',
     [('R31', ps.r31_exception_escape), ('R32', ps.r32_loops_consume), ('R26', ps.r26_cid_sanitiser),
      ('R27', ps.r27_typecode_capacity), ('R33', ps.r33_cli_handlers), ('R30', ps.r30_validation), ('R53', nm.r53_rule_interface), ('R58', ps.r58_numbers_and_files), ('R48', gs.r48_no_global_writer)],
     'Static analysis of droop/profile.py and Droop.py: every partial operation reachable from ElectionProfile(data=...) '
     '(next, int, subscripts, local-name loads incl. exception edges, %-formatting, list.remove, array construction, raise) '
     'is discharged, so the escape set is {ElectionProfileError}; every parser loop consumes a token per iteration; accepted '
     'profiles carry only in-range IDs (what Election.__init__ indexes by); the CLI catches every package exception. '
     + NOT_BEHAVIOUR,
     ['exception-escape set of the parser is {ElectionProfileError} (R31)', 'parser loops consume input (R32)',
      'in-range IDs only (R26, R27)', 'CLI handler exhaustiveness (R33)'],
     ['"satisfies the invariants of a valid election" beyond R26-R30', 'MemoryError / RecursionError (resource exhaustion)'])
prop('C12',
     [('R21', va.r21_scale_rounding), ('R22', va.r22_closure), ('R47', gs.r47_definite_reset), ('R34', op.r34_layer_order)],
     'Abstract interpretation of the method bodies of Fixed (and Guarded) over the domain (scale dimension, number of '
     'rounding steps, operand form): every store to a stored integer has the dimension of a value; each operator and '
     'classmethod computes exactly the form the property prescribes (add/sub/neg/abs/x int exact; * / mul div muldiv one '
     'floor of the exact product/quotient at the class scale, +1 unit exactly under remainder != 0 and round == up); '
     'comparisons compare like with like; results are objects of the same class; Rational is a Fraction subclass whose '
     'wrapped operators cover every operator the package applies to values. ' + NOT_BEHAVIOUR,
     ['per-operation exactness / single floor / upward unit (R21)', 'closure of the value classes (R22)'],
     ['nothing of the algebra beyond trust in CPython int/divmod and fractions.Fraction'])

prop('C13',
     [('R23', va.r23_comparisons), ('R21', va.r21_scale_rounding), ('R24', va.r24_guard0_equivalence), ('R25', va.r25_printing), ('R47', gs.r47_definite_reset), ('R00', cf.r00_helper_semantics), ('R34', op.r34_layer_order)],
     'Static analysis of droop/values/guarded.py: the six comparisons are projections of one three-valued __cmp__ that '
     'returns 0 exactly under |a-b| < 10^guard // 2 (at least 1) and otherwise the sign of the stored difference '
     '(trichotomy follows); the guard == 0 summaries of every Guarded operation equal the Fixed summaries, operation by '
     'operation, and the guard-0 flags equal the Fixed flags. ' + NOT_BEHAVIOUR,
     ['tolerance law and trichotomy by construction (R23)', 'guard = 0 is Fixed, operation by operation (R24 + R21)'],
     ['"quasi-exact equals exact": a statement about two counts'])

prop('C14',
     [('R25', va.r25_printing), ('R50', va.r50_value_immutability), ('R41', rr.r41_renderers_read_record)],
     'Static analysis of the three __str__ methods and of every store to a stored integer: printing is pure; the '
     'rounding constant is half the dropped unit and is added before the floor; the integer/fraction split is applied to '
     'a magnitude with the sign prefixed; renderings use str() only; value objects are never mutated after '
     'construction. ' + NOT_BEHAVIOUR,
     ['__str__ purity, half-up constants, sign-safe split, str-only rendering (R25)', 'value immutability (R50)'],
     ['digit-exactness of the printed string for a given value (needs evaluation)'])
prop('C07',
     [('R00', cf.r00_helper_semantics), ('R15', ti.r15_tie_funnel), ('R16', ti.r16_extremum_polarity), ('R17', ti.r17_single_from_breaktie),
      ('R18', ti.r18_sure_loser_strict), ('R03', bt.r03_batch_cap), ('R55', gr.r55_qpq_stage), ('R59', op.r59_enum_options), ('R48', gs.r48_no_global_writer)],
     'Static analysis of /repo source: the tie order is consulted only inside the rules\' breakTie functions, which log '
     'every tie among several candidates and return the first in the declared order; the set handed to breakTie for an '
     'exclusion is the arg-min set of the tally over the hopefuls (within the surplus for Meek), for a surplus the arg-max '
     'set over the pending; every candidate acted on singly is the one breakTie returned; batches are capped and accepted '
     'only under a strict inequality; Scottish prior-stage polarity. ' + NOT_BEHAVIOUR,
     ['tie funnel: order read only at a logged tie, first listed wins (R15)', 'lowest/highest selection polarity (R16)',
      'single candidates come from breakTie (R17)', 'sure-loser strictness (R18)', 'batch caps (R03)'],
     ['that the sums used in a sure-loser test are the right sums for every profile',
      'the metamorphic statement about changing the tie order, beyond "no unlogged read of the order"'])

prop('C11',
     [('R15', ti.r15_tie_funnel), ('R17', ti.r17_single_from_breaktie), ('R05', cf.r05_status_ownership),
      ('R28', ps.r28_strip_complete), ('R26', ps.r26_cid_sanitiser), ('R16', ti.r16_extremum_polarity), ('R03b', bt.r03b_defeat_remaining), ('R00', cf.r00_helper_semantics), ('R48', gs.r48_no_global_writer)],
     'Static analysis of /repo source: candidates are singled out for a decision only through the declared tie order (never '
     'by position, id or ballot order); withdrawn candidates are never in a selection that receives an action; every '
     'withdrawn id is removed from every rank at parse time; only validated ids can be marked withdrawn. ' + NOT_BEHAVIOUR,
     ['single candidates chosen only via the tie order (R15, R17)', 'withdrawn never acted on (R05)',
      'withdrawn stripped completely (R28)', 'withdrawn ids validated (R26)'],
     ['equality of winners/tallies under renumbering and record equality with the candidate deleted (metamorphic, two runs)'])
prop('C06',
     [('R00', cf.r00_helper_semantics), ('R07', gr.r07_transfer_once), ('R08', gr.r08_reset_pairing), ('R09', gr.r09_reweighting), ('R21', va.r21_scale_rounding),
      ('R13', qt.r13_quota), ('R20', gr.r20_order_free_loops), ('R22', va.r22_closure), ('R48', gs.r48_no_global_writer), ('R17', ti.r17_single_from_breaktie)],   # R13: a surplus is non-negative only if the election test implies tally >= quota in the arithmetic's own order
     'Static analysis of the five Gregory-family rules: transfer() credits every ballot exactly once (candidate or '
     'non-transferable total) and walks to the next continuing candidate; tallies are written only by the first count, '
     'transfer() and the two resets, each reset preceded by the transfer of every ballot standing to that candidate; ballot '
     'values are written only by the surplus re-weighting old x (tally - quota) / tally of the same elected candidate, '
     'rounded down, followed by the transfer and the reset to the quota; excluded candidates\' ballots are not re-weighted. '
     + NOT_BEHAVIOUR,
     ['transfer credits exactly once (R07)', 'tally-writer inventory and reset pairing (R08)', 're-weighting form, '
      'rounding direction and context (R09 + R21)'],
     ['"tally = sum of ballot values" and "values stay in [0,1]" as runtime invariants'])

prop('C10',
     [('R19', gr.r19_multiplier_last), ('R20', gr.r20_order_free_loops), ('R21', va.r21_scale_rounding), ('R29', ps.r29_ballot_count_pairing),
      ('R26d', ps.r26d_tokenizer_precedence), ('R26', ps.r26_cid_sanitiser), ('R58', ps.r58_numbers_and_files), ('R00', cf.r00_helper_semantics), ('R55', gr.r55_qpq_stage), ('R49', gs.r49_per_election_objects), ('R48', gs.r48_no_global_writer)],
     'Static analysis: the ballot multiplier only ever multiplies a finished (already rounded) per-ballot quantity and the '
     'product only feeds additive accumulators; no weight or keep computation has the multiplier among its inputs; ballot '
     'loops only accumulate (no break/return, no plain store to shared state); additions are exact (R21), so neither the '
     'order of ballot lines nor the split of identical ballots into lines can change a sum. ' + NOT_BEHAVIOUR,
     ['multiplier applied last (R19)', 'order-free ballot loops (R20)', 'exact addition (R21)',
      'the ballot total is built line by line from the kept multipliers only (R29)'],
     ['equality of whole records under re-presentation (metamorphic)', 'tokenizer layout/comment/nickname behaviour'])
prop('C08',
     [('R00', cf.r00_helper_semantics), ('R10', mk.r10_residual_pairing), ('R10c', mk.r10c_keep_split), ('R11', mk.r11_keep_factors), ('R12', mk.r12_iteration_exits),
      ('R14', qt.r14_elect_before_exclude), ('R04', lp.r04_loops), ('R21', va.r21_scale_rounding), ('R29', ps.r29_ballot_count_pairing), ('R19', gr.r19_multiplier_last), ('R20', gr.r20_order_free_loops), ('R22', va.r22_closure), ('R57', rr.r57_recorded_sources), ('R59', op.r59_enum_options), ('R48', gs.r48_no_global_writer)],
     'Static analysis of meek.py and meek_prf.py: in every block of the distribution loops the expressions credited to a '
     'tally are exactly those debited from the ballot residual, residuals start at the multiplier and are summed once per '
     'ballot, tallies and the round residual are zeroed first (with exact add/sub, R21, votes + residual = ballots); keep '
     'factors are written only as 1 up front, 0 with a defeat, or kf x quota / vote rounded up twice for elected '
     'candidates; iterations end only on election, surplus <(=) omega, logged stable state or a non-empty sure-loser batch; '
     'exclusions only after such an end without election; the iteration has a decreasing variant (R04). ' + NOT_BEHAVIOUR,
     ['votes + residual bookkeeping is exact by construction (R10 + R21)', 'keep-factor writers (R11)',
      'iteration exits and their logging (R12)', 'exclusions only after an iteration end (R12, R14)', 'termination variant (R04)'],
     ['0 < kf <= 1 for elected candidates and non-negativity of tallies: numeric'])

prop('C04',
     [('R00', cf.r00_helper_semantics), ('R13', qt.r13_quota), ('R14', qt.r14_elect_before_exclude), ('R02', cf.r02_elect_sites), ('R12', mk.r12_iteration_exits),
      ('R21', va.r21_scale_rounding), ('R35', op.r35_forced_closure), ('R55', gr.r55_qpq_stage), ('R48', gs.r48_no_global_writer)],
     'Static analysis of every rule: each quota expression, canonicalised, equals the form the property prescribes for the '
     'branch it is on (exact / truncated + one unit / integer floor + 1 / Meek from the votes still credited / QPQ); the '
     'election comparison is > exactly on exact branches and >= otherwise; epsilon is read only where the arithmetic has '
     'one; in every round an election step over all hopefuls precedes every exclusion with no tally change in between; '
     'nobody is elected below quota except under a seat guard. ' + NOT_BEHAVIOUR,
     ['quota forms per branch (R13a)', 'comparison consistent with exactness (R13b)', 'epsilon guard (R13c)',
      'election step precedes exclusion (R14)', 'elect sites justified (R02)', 'Meek recomputes votes and quota (R12)'],
     ['numeric equality of the reported quota with the formula\'s value',
      'the Minneapolis defeat-before-election step is taken as the listed exception of R14'])

prop('C02',
     [('R00', cf.r00_helper_semantics), ('R07', gr.r07_transfer_once), ('R08', gr.r08_reset_pairing), ('R09', gr.r09_reweighting), ('R10', mk.r10_residual_pairing), ('R10b', mk.r10b_redistribute_before_record), ('R10c', mk.r10c_keep_split), ('R29', ps.r29_ballot_count_pairing),
      ('R19', gr.r19_multiplier_last), ('R21', va.r21_scale_rounding), ('R22', va.r22_closure), ('R37', rr.r37_status_changes_logged), ('R20', gr.r20_order_free_loops), ('R54', gr.r54_qpq_reweight), ('R55', gr.r55_qpq_stage), ('R57', rr.r57_recorded_sources), ('R05', cf.r05_status_ownership), ('R49', gs.r49_per_election_objects), ('R48', gs.r48_no_global_writer)],
     'Static analysis of the bookkeeping shape that conservation rests on: a transferred ballot is credited exactly once '
     '(candidate or non-transferable total); a tally is reset only after all its ballots were passed on; transfer values '
     'are old x surplus / tally rounded down (a transfer cannot create votes); Meek credits and residual debits are the same '
     'expressions; the multiplier is applied after rounding; add/sub are exact and products floor once (R21); `//` is not '
     'applied to values where rational arithmetic is possible (R22c). ' + NOT_BEHAVIOUR,
     ['credit exactly once (R07)', 'reset pairing (R08)', 'transfer values rounded down (R09 + R21)', 'Meek residual pairing (R10)', 'Meek: redistribution before the next recorded step after an exclusion (R10b)',
      'multiplier last (R19)', 'no value // value under rational (R22c)'],
     ['the inequality itself ("short by at most two units per ballot per transfer"), non-negativity, and the QPQ identity '
      'sum of weights = number elected: statements about runtime numbers'])

LEVEL_TEXT = ('Static analysis of the source of /repo (never executed): obligations are enumerated from the '
              'repository\'s own entities (rule classes, call sites, stores, loops, class attributes) and each is '
              'discharged by a path, dominance, def-use, provenance or abstract-interpretation argument, or reported '
              'with file:line, function, rule and instance. Holds for every input because it does not depend on one.')

NOT_APPLICABLE = {
    'C03': 'statutory conformance equates whole count histories with the execution of a legal text; its only '
           'code-visible mechanisms are comments and the forced arithmetic (decided under C17); no sound static clause',
    'C05': 'Droop proportionality is a theorem about outcomes as a function of the ballots; no structural necessary '
           'condition that is not already claimed under C01/C04/C06/C07',
}
