"""droopsa - repository-specific static analysis of jklundell/droop.

Pure stdlib (ast).  Nothing in this package imports or runs droop.
"""
