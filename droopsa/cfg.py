"""Statement-level control-flow graph for one function, plus the path queries the rules use.

Node kinds
  entry, exit (normal return / fall off the end), raise (exceptional exit)
  stmt   a simple statement (Assign, AugAssign, Expr, Return, Raise, Assert, Pass, ...)
  test   the condition of an `if` / `while`           (edges labelled True / False)
  iter   the head of a `for`                            (True = next element, False = exhausted)
  join   synthetic (loop exits, try joins)

Boolean short-circuit is not split.  Exception edges exist only for explicit `raise` and from
statements inside a `try` body to its handlers (label 'exc'); an implicit exception elsewhere is
not an edge (rules that care about those - R31 - enumerate partial operations instead).
"""
import ast
from .model import AnalysisError, need


class Node:
    __slots__ = ('id', 'kind', 'ast', 'succ', 'pred', 'loop')

    def __init__(self, nid, kind, node=None):
        self.id = nid
        self.kind = kind
        self.ast = node
        self.succ = []   # (Node, label)
        self.pred = []
        self.loop = None

    @property
    def line(self):
        return getattr(self.ast, 'lineno', 0)

    def __repr__(self):
        return '<%s#%d L%s>' % (self.kind, self.id, self.line)


def const_truth(expr):
    if isinstance(expr, ast.Constant):
        return bool(expr.value)
    return None


class CFG:
    def __init__(self, fnode):
        self.fnode = fnode
        self.nodes = []
        self.entry = self._new('entry')
        self.exit = self._new('exit')
        self.raise_exit = self._new('raise')
        self.of_stmt = {}    # ast stmt -> Node (head node for compound statements)
        self._loops = []     # stack of (continue target, break target)
        self._handlers = []  # stack of handler entry lists
        self._try_finally_depth = 0
        outs = self._body(fnode.body, [(self.entry, None)])
        for n, lab in outs:
            self._edge(n, self.exit, lab)

    # -- construction ----------------------------------------------------------
    def _new(self, kind, node=None):
        n = Node(len(self.nodes), kind, node)
        self.nodes.append(n)
        return n

    def _edge(self, a, b, label=None):
        a.succ.append((b, label))
        b.pred.append((a, label))

    def _connect(self, ins, node):
        for n, lab in ins:
            self._edge(n, node, lab)

    def _body(self, stmts, ins):
        for st in stmts:
            ins = self._stmt(st, ins)
        return ins

    def _exc_edges(self, node):
        if self._handlers:
            for h in self._handlers[-1]:
                self._edge(node, h, 'exc')

    def _stmt(self, st, ins):
        if isinstance(st, ast.If):
            t = self._new('test', st)
            self.of_stmt[st] = t
            self._connect(ins, t)
            self._exc_edges(t)
            ct = const_truth(st.test)
            outs = []
            if ct is not False:
                outs += self._body(st.body, [(t, True)])
            if ct is not True:
                outs += self._body(st.orelse, [(t, False)])
            return outs
        if isinstance(st, ast.While):
            t = self._new('test', st)
            t.loop = st
            self.of_stmt[st] = t
            self._connect(ins, t)
            self._exc_edges(t)
            brk = self._new('join', st)
            self._loops.append((t, brk))
            ct = const_truth(st.test)
            if ct is not False:
                outs = self._body(st.body, [(t, True)])
                self._connect(outs, t)
            self._loops.pop()
            if ct is not True:
                outs = self._body(st.orelse, [(t, False)])
                self._connect(outs, brk)
            return [(brk, None)]
        if isinstance(st, (ast.For, ast.AsyncFor)):
            t = self._new('iter', st)
            t.loop = st
            self.of_stmt[st] = t
            self._connect(ins, t)
            self._exc_edges(t)
            brk = self._new('join', st)
            self._loops.append((t, brk))
            outs = self._body(st.body, [(t, True)])
            self._connect(outs, t)
            self._loops.pop()
            outs = self._body(st.orelse, [(t, False)])
            self._connect(outs, brk)
            return [(brk, None)]
        if isinstance(st, ast.Break):
            n = self._new('stmt', st)
            self.of_stmt[st] = n
            self._connect(ins, n)
            need(self._loops, 'break outside loop')
            self._edge(n, self._loops[-1][1])
            return []
        if isinstance(st, ast.Continue):
            n = self._new('stmt', st)
            self.of_stmt[st] = n
            self._connect(ins, n)
            self._edge(n, self._loops[-1][0])
            return []
        if isinstance(st, ast.Return):
            n = self._new('stmt', st)
            self.of_stmt[st] = n
            self._connect(ins, n)
            self._exc_edges(n)
            need(self._try_finally_depth == 0, 'return inside try/finally not modelled (line %d)' % st.lineno)
            self._edge(n, self.exit)
            return []
        if isinstance(st, ast.Raise):
            n = self._new('stmt', st)
            self.of_stmt[st] = n
            self._connect(ins, n)
            if self._handlers:
                self._exc_edges(n)
                # may also propagate past the handlers (type not matched)
            self._edge(n, self.raise_exit, 'raise')
            return []
        if isinstance(st, ast.Try):
            need(not getattr(st, 'finalbody', None) or True, '')
            j = self._new('join', st)
            self.of_stmt[st] = j
            self._connect(ins, j)
            hentries = [self._new('join', h) for h in st.handlers]
            if st.finalbody:
                self._try_finally_depth += 1
            self._handlers.append(hentries)
            for h in hentries:
                self._edge(j, h, 'exc')     # exception in the first statement before it completes
            outs = self._body(st.body, [(j, None)])
            self._handlers.pop()
            outs = self._body(st.orelse, outs)
            for h, he in zip(st.handlers, hentries):
                outs += self._body(h.body, [(he, None)])
            if st.finalbody:
                self._try_finally_depth -= 1
                outs = self._body(st.finalbody, outs)
            return outs
        if isinstance(st, (ast.With, ast.AsyncWith)):
            n = self._new('stmt', st)
            self.of_stmt[st] = n
            self._connect(ins, n)
            self._exc_edges(n)
            return self._body(st.body, [(n, None)])
        if isinstance(st, ast.Match):
            raise AnalysisError('match statement not modelled (line %d)' % st.lineno)
        # simple statement (incl. nested def / class: a binding)
        n = self._new('stmt', st)
        self.of_stmt[st] = n
        self._connect(ins, n)
        self._exc_edges(n)
        return [(n, None)]

    # -- queries ---------------------------------------------------------------
    def reach(self, starts, avoid=(), edge_ok=None, include_start=False):
        """nodes reachable from the successors of `starts` (or from starts themselves when
        include_start) along feasible edges without entering a node in `avoid`"""
        avoid = set(avoid)
        seen = set()
        stack = []
        for s in starts:
            if include_start:
                if s not in avoid:
                    stack.append(s)
            else:
                for t, lab in s.succ:
                    if edge_ok is not None and not edge_ok(s, t, lab):
                        continue
                    if t not in avoid:
                        stack.append(t)
        while stack:
            n = stack.pop()
            if n in seen:
                continue
            seen.add(n)
            for t, lab in n.succ:
                if edge_ok is not None and not edge_ok(n, t, lab):
                    continue
                if t not in avoid and t not in seen:
                    stack.append(t)
        return seen

    def must_pass(self, a, b, through, edge_ok=None):
        """every path a ->+ b meets a node of `through` strictly between (or b unreachable)"""
        return b not in self.reach([a], avoid=through, edge_ok=edge_ok)

    def find_path(self, a, b, avoid=(), edge_ok=None):
        """a witness path a ->+ b avoiding `avoid` (list of nodes) or None"""
        avoid = set(avoid)
        prev = {}
        stack = []
        for t, lab in a.succ:
            if edge_ok is not None and not edge_ok(a, t, lab):
                continue
            if t not in avoid and t not in prev:
                prev[t] = a
                stack.append(t)
        while stack:
            n = stack.pop(0)
            if n is b:
                path = [n]
                while path[-1] is not a:
                    path.append(prev[path[-1]])
                    if len(path) > len(self.nodes) + 2:
                        break
                return list(reversed(path))
            for t, lab in n.succ:
                if edge_ok is not None and not edge_ok(n, t, lab):
                    continue
                if t not in avoid and t not in prev:
                    prev[t] = n
                    stack.append(t)
        return None

    def nodes_in(self, stmt):
        """all CFG nodes whose ast statement lies inside (or is) `stmt`"""
        inside = set()
        for sub in ast.walk(stmt):
            if sub in self.of_stmt:
                inside.add(self.of_stmt[sub])
        # join nodes of loops / try
        for n in self.nodes:
            if n.kind == 'join' and n.ast is not None:
                for sub in ast.walk(stmt):
                    if sub is n.ast:
                        inside.add(n)
                        break
        return inside

    def stmt_nodes(self):
        return [n for n in self.nodes if n.kind in ('stmt', 'test', 'iter')]

    def dominates(self, d, n, edge_ok=None):
        """d dominates n (every path entry -> n passes d)"""
        if d is n:
            return True
        return n not in self.reach([self.entry], avoid=[d], edge_ok=edge_ok, include_start=True)

    def describe_path(self, path):
        return ' -> '.join('L%s' % p.line if p.line else p.kind for p in path)


def binds_name(node, name):
    """does executing this CFG node (re)bind the local `name`?"""
    st = node.ast
    if node.kind == 'stmt':
        if isinstance(st, ast.Assign):
            return any(isinstance(x, ast.Name) and x.id == name and isinstance(x.ctx, ast.Store)
                       for t in st.targets for x in ast.walk(t))
        if isinstance(st, (ast.AugAssign, ast.AnnAssign)):
            return isinstance(st.target, ast.Name) and st.target.id == name
        if isinstance(st, (ast.FunctionDef, ast.ClassDef)):
            return st.name == name
    if node.kind == 'iter':
        return any(isinstance(x, ast.Name) and x.id == name and isinstance(x.ctx, ast.Store) for x in ast.walk(st.target))
    return False


def may_raise(node):
    """can executing this CFG node raise (conservatively: anything but moving names/constants around)?"""
    st = node.ast
    if node.kind == 'join':
        if isinstance(st, ast.Try):
            return bool(st.body) and _stmt_may_raise(st.body[0])
        return False
    if node.kind == 'test':
        return _expr_may_raise(st.test)
    if node.kind == 'iter':
        return True
    if node.kind == 'stmt':
        return _stmt_may_raise(st)
    return False


def _expr_may_raise(e):
    for sub in ast.walk(e):
        if isinstance(sub, (ast.Call, ast.Subscript, ast.BinOp, ast.Attribute, ast.Await, ast.Yield, ast.YieldFrom,
                            ast.UnaryOp, ast.Compare, ast.Starred, ast.ListComp, ast.GeneratorExp, ast.DictComp, ast.SetComp)):
            if isinstance(sub, ast.UnaryOp) and isinstance(sub.op, ast.Not):
                continue
            return True
    return False


def _stmt_may_raise(st):
    if isinstance(st, (ast.Pass, ast.Break, ast.Continue, ast.Global, ast.Nonlocal)):
        return False
    if isinstance(st, ast.Assign):
        if all(isinstance(t, ast.Name) for t in st.targets) and not _expr_may_raise(st.value):
            return False
        return True
    if isinstance(st, ast.Return):
        return st.value is not None and _expr_may_raise(st.value)
    if isinstance(st, ast.Expr):
        return _expr_may_raise(st.value)
    return True


def reaching_defs(cfg, name, at):
    """CFG nodes binding `name` whose binding may reach node `at` (plus 'entry' if unbound path)"""
    defs = [n for n in cfg.nodes if binds_name(n, name)]
    out = []
    for d in defs:
        others = [x for x in defs if x is not d and x is not at]
        if at in cfg.reach([d], avoid=others):
            out.append(d)
    if at in cfg.reach([cfg.entry], avoid=[x for x in defs if x is not at], include_start=True):
        out.append(cfg.entry)
    return out


_cfg_cache = {}


def cfg_of(func):
    key = id(func.node)
    if key not in _cfg_cache:
        _cfg_cache[key] = CFG(func.node)
    return _cfg_cache[key]


def expr_head(node):
    """the expression(s) evaluated *at* a CFG node (not the nested bodies of compound stmts)"""
    st = node.ast
    if node.kind == 'test':
        return [st.test]
    if node.kind == 'iter':
        return [st.iter]
    if node.kind == 'stmt':
        if isinstance(st, (ast.With, ast.AsyncWith)):
            return [it.context_expr for it in st.items]
        if isinstance(st, (ast.FunctionDef, ast.AsyncFunctionDef, ast.ClassDef)):
            return []
        return [st]
    return []


def calls_at(node):
    """Call nodes evaluated at this CFG node (incl. those inside comprehensions in it, but not
    inside nested function bodies / lambdas)"""
    out = []
    for e in expr_head(node):
        stack = [e]
        while stack:
            n = stack.pop()
            if isinstance(n, ast.Call):
                out.append(n)
            if isinstance(n, (ast.Lambda, ast.FunctionDef)):
                continue
            stack.extend(ast.iter_child_nodes(n))
    return out
