#!/usr/bin/env python3
"""Regenerate /verif/MANIFEST.json from droopsa/props.py (claimed checks) and the not-applicable table."""
import json, os, sys
HERE = os.path.dirname(os.path.abspath(__file__))
VERIF = os.path.dirname(HERE)
sys.path.insert(0, VERIF)
from droopsa.props import PROPS, NOT_APPLICABLE, LEVEL_TEXT   # noqa

ALL = ['C%02d' % i for i in range(1, 21)]
BASE = "cd /repo && /venv/bin/python -m pytest -ra -q -p no:cacheprovider --timeout=900 --continue-on-collection-errors"
checks = []
for pid in ALL:
    if pid not in PROPS:
        continue
    sp = PROPS[pid]
    checks.append(dict(
        property_id=pid,
        quick_cmd='./check %s --tier quick' % pid,
        thorough_cmd='./check %s --tier thorough' % pid,
        evidence_file='/verif/evidence/%s.json' % pid,
        replay_cmd_template='./check replay {path}',
        engine='droopsa',
        level_claimed=dict(category='other', text=LEVEL_TEXT + ' Clauses decided: ' + '; '.join(sp['decided']) + '.',
                           design_ref='DESIGN.md section 4 (%s) and section 3 (%s)' % (pid, ', '.join(r for r, _ in sp['rules']))),
        level_note='Decides the listed structural clauses of %s - necessary conditions visible in the shape of the code - '
                   'and does not decide the behaviour itself. Declined: %s. Trusted base: CPython ast parser; semantics of int, '
                   'divmod, // and fractions.Fraction; droopsa access-path conventions (self.E is the Election). '
                   'Exit 2 (ANALYSIS-ERROR) when an anchor vanished or an idiom is not recognised: never a silent pass.'
                   % (pid, '; '.join(sp['declined']) or 'nothing'),
        technique='static analysis (stdlib ast): ' + sp.get('technique', 'repo-specific CFG path rules, candidate-derivation '
                  'dataflow, ownership and sibling-agreement rules (%s)' % ', '.join(r for r, _ in sp['rules'])),
    ))
na = []
for pid in ALL:
    if pid in PROPS:
        continue
    na.append(dict(property_id=pid, reason=NOT_APPLICABLE.get(pid, 'check not built yet; not claimed in this round')))
man = dict(
    version=1,
    setup_cmd='./check --self-syntax',
    hooks=dict(guard='DROOP_VERIF', enable='none needed: static analysis reads the source; /repo carries no instrumentation',
               baseline_off_cmd=BASE, source_commits=[], add_only=True),
    engines=[dict(name='droopsa', path='/verif/droopsa', serves_properties=[c['property_id'] for c in checks],
                  kind_free_text='repository-specific static analyser over the stdlib ast: source model with closures and '
                                 'alias resolution, statement CFG with path-sensitive fact search, candidate-derivation '
                                 'dataflow, abstract interpretation of the arithmetic classes')],
    checks=checks,
    notes='Family: static analysis. Every check parses /repo afresh and never imports or runs droop. Exit 0 ok, 1 VIOLATION, '
          '2 ANALYSIS-ERROR. Known findings: /verif/known_findings.json. Self-test corpus: /verif/mutants/mutants.py '
          '(./check selftest).',
    not_applicable=na,
)
with open(os.path.join(VERIF, 'MANIFEST.json'), 'w') as f:
    json.dump(man, f, indent=1)
print('MANIFEST: %d checks, %d not applicable' % (len(checks), len(na)))
