#!/usr/bin/env python3
"""Write prompts for a round of behaviour-PRESERVING refactorings (benign twins written by independent authors) to
/tmp/benignprompt/<id>.txt.  usage: tools/benign_prompts.py <first n>"""
import json, os, sys
VERIF = os.path.dirname(os.path.dirname(os.path.abspath(__file__)))
n0 = int(sys.argv[1])
os.makedirs('/tmp/benignprompt', exist_ok=True)
for l in open(os.path.join(VERIF, 'properties.jsonl')):
    p = json.loads(l)
    pid = p['id']
    if pid in ('C03', 'C05'):
        continue
    txt = f"""You are helping evaluate a verification effort for the open-source project jklundell/droop (a pure-Python STV election counter). You have your own scratch git worktree of the project at /tmp/benign/{pid} (a detached checkout; work ONLY inside that directory; do not look at or touch /repo or /verif or any other directory outside /tmp/benign/{pid}). Python to use: /venv/bin/python . The test suite runs with: cd /tmp/benign/{pid} && /venv/bin/python -m pytest -q -p no:cacheprovider -x   (207 tests, about 10 seconds).

Here is one semantic property the project satisfies:

ID: {pid}
Title: {p['title']}
Statement: {p['statement']}
Code anchors: {json.dumps(p['anchors'])[:1200]}

TASK: write TWO different, independent, behaviour-PRESERVING changes (refactorings) to the project's source (not its tests), in the code that implements this property (the anchors above). Each change must
 (a) leave the behaviour of the package exactly as it is - every count, record, report, dump, json, every accepted/rejected input, every error message - for ALL inputs, not just the tests; the property above must of course still hold;
 (b) be the kind of refactoring a maintainer really does: extracting a helper function or method, inlining one, turning a loop into a comprehension or back, replacing an if/else chain by a table or early returns, renaming locals / helpers / private methods, reordering independent statements, introducing a local for a repeated sub-expression, replacing `x = x + y` by `x += y`, using `any()/all()/sum()/max()` instead of an explicit loop, swapping the branches of an if with a negated condition, moving a nested helper to a method (with all call sites), simplifying a boolean expression to an equivalent one, and so on;
 (c) be non-trivial: touch at least 8 lines of real code in the area relevant to the property (not comments, docstrings or help texts only), and change the SHAPE of the code, not only names;
 (d) compile and pass the whole existing test suite, unedited.

For each change i in ({n0}, {n0 + 1}) produce, in the directory /tmp/benign/{pid}/out/ (create it):
  change<i>.diff  - a unified diff made with `git diff` from the worktree root, applying to the ORIGINAL checkout with `git apply` (each change independent of the other).
  equiv<i>.py     - a stand-alone script: `/venv/bin/python equiv<i>.py <original tree> <changed tree>` that runs BOTH trees (each in a subprocess with that tree first on sys.path) over a broad corpus relevant to the property - at least: every .blt file under <tree>/test/blt (recursively) with every rule name that accepts it and several arithmetic / option combinations, plus a few dozen inputs you generate yourself that exercise the refactored code (edge cases included) - and compares everything observable (report, dump, json, exceptions and their messages). Exit 0 if all outputs are byte-identical, exit 1 (printing the first differences) otherwise. It must finish within three minutes.
  note<i>.txt     - 5-15 lines: what you refactored and where, and your argument why it cannot change behaviour for any input.

Before you finish, for each change verify yourself: git apply works on a clean checkout; the full test suite passes with the change; equiv<i>.py exits 0 comparing the original checkout (make a pristine copy with `git worktree`-free means, e.g. `git stash`/`cp -r` into /tmp/benign/{pid}/orig) with the changed tree. Leave the worktree clean (git checkout -- . ; out/ and orig/ may stay untracked; remove any test/out directory or __pycache__ your runs created). Report briefly what the two refactorings are and the verification results. Do not ask questions; decide yourself."""
    open('/tmp/benignprompt/%s.txt' % pid, 'w').write(txt)
print('benign prompts written')
