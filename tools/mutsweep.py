#!/usr/bin/env python3
"""Systematic mutation sweep (development / discovery tool, not a registered check).

Generates first-order mutants of the analysed sources with generic AST operators (comparison flips,
and/or swap, statement deletion, min/max swap, +1/-1 on small constants, 'up'/'down' swap, break/continue
removal), runs every claimed property's rules on a scratch copy of each, and - for the mutants no check
flags - runs the pinned test suite.  Survivors (not flagged, tests pass) are written to the output file
for manual triage: each is either behaviour-preserving / outside every property, or a gap in the rules.

usage: tools/mutsweep.py [--files glob,...] [--jobs 16] [--out sweep.json] [--no-tests] [--limit N]
"""
import ast
import copy
import fnmatch
import json
import multiprocessing
import os
import shutil
import subprocess
import sys
import tempfile
import time

VERIF = os.path.dirname(os.path.dirname(os.path.abspath(__file__)))
sys.path.insert(0, VERIF)
REPO = os.environ.get('DROOP_REPO', '/repo')
PY = '/venv/bin/python'
OPS2 = '--ops2' in sys.argv      # second operator set: selector swaps, V0/V1, dropped not / operands, adjacent statement swaps, E.quota/E.surplus

FLIP = {ast.Lt: ast.LtE, ast.LtE: ast.Lt, ast.Gt: ast.GtE, ast.GtE: ast.Gt, ast.Eq: ast.NotEq, ast.NotEq: ast.Eq,
        ast.In: ast.NotIn, ast.NotIn: ast.In, ast.Is: ast.IsNot, ast.IsNot: ast.Is}
DIR = {ast.Lt: ast.Gt, ast.Gt: ast.Lt, ast.LtE: ast.GtE, ast.GtE: ast.LtE}


def targets(files):
    out = []
    for dp, dns, fns in os.walk(os.path.join(REPO, 'droop')):
        dns[:] = [d for d in dns if d != '__pycache__']
        for fn in sorted(fns):
            if fn.endswith('.py'):
                rel = os.path.relpath(os.path.join(dp, fn), REPO)
                if not files or any(fnmatch.fnmatch(rel, g) for g in files):
                    out.append(rel)
    for d in ['Droop.py']:
        if not files or any(fnmatch.fnmatch(d, g) for g in files):
            out.append(d)
    return out


def in_docstring_or_help(node, parents):
    for p in parents:
        if isinstance(p, ast.FunctionDef) and p.name in ('helps', 'usage', 'makehelp', 'tag', 'info', '__repr__'):
            return True
    return False


def gen_mutants(rel):
    """yield (description, lineno, new_source)"""
    path = os.path.join(REPO, rel)
    src = open(path, encoding='utf-8').read()
    tree = ast.parse(src)
    # number nodes in walk order so that a fresh parse can be mutated at the same index
    nodes = list(ast.walk(tree))
    parents = {}
    for n in nodes:
        for c in ast.iter_child_nodes(n):
            parents[c] = n

    def chain(n):
        out = []
        while n in parents:
            n = parents[n]
            out.append(n)
        return out
    plans = []
    for i, n in enumerate(nodes):
        ch = chain(n)
        if in_docstring_or_help(n, ch):
            continue
        ln = getattr(n, 'lineno', 0)
        if isinstance(n, ast.Compare):
            for k, op in enumerate(n.ops):
                if type(op) in FLIP:
                    plans.append(('cmp-flip %s->%s' % (type(op).__name__, FLIP[type(op)].__name__), ln, i, ('cmp', k, FLIP[type(op)])))
                if type(op) in DIR:
                    plans.append(('cmp-dir %s->%s' % (type(op).__name__, DIR[type(op)].__name__), ln, i, ('cmp', k, DIR[type(op)])))
        elif isinstance(n, ast.BoolOp):
            plans.append(('boolop-swap', ln, i, ('boolop',)))
        elif isinstance(n, (ast.Expr, ast.Assign, ast.AugAssign)) and not (isinstance(n, ast.Expr) and isinstance(n.value, ast.Constant)):
            par = parents.get(n)
            if isinstance(par, (ast.FunctionDef, ast.If, ast.For, ast.While, ast.Try, ast.With, ast.ExceptHandler)):
                plans.append(('delete-stmt', ln, i, ('delete',)))
        elif isinstance(n, (ast.Break, ast.Continue)):
            plans.append(('delete-%s' % type(n).__name__.lower(), ln, i, ('delete',)))
        elif isinstance(n, ast.Name) and n.id in ('min', 'max') and isinstance(n.ctx, ast.Load):
            plans.append(('%s->%s' % (n.id, 'max' if n.id == 'min' else 'min'), ln, i, ('name', 'max' if n.id == 'min' else 'min')))
        elif isinstance(n, ast.Constant) and isinstance(n.value, str) and n.value in ('up', 'down'):
            plans.append(('round %s->%s' % (n.value, 'down' if n.value == 'up' else 'up'), ln, i, ('const', 'down' if n.value == 'up' else 'up')))
        elif isinstance(n, ast.Constant) and isinstance(n.value, int) and not isinstance(n.value, bool) and n.value in (0, 1, 2):
            par = parents.get(n)
            if isinstance(par, (ast.BinOp, ast.Compare, ast.Subscript, ast.Slice, ast.Call, ast.Return, ast.Assign, ast.AugAssign)):
                plans.append(('const %d->%d' % (n.value, n.value + 1), ln, i, ('const', n.value + 1)))
        elif isinstance(n, ast.BinOp) and isinstance(n.op, (ast.Add, ast.Sub)):
            plans.append(('binop %s->%s' % (type(n.op).__name__, 'Sub' if isinstance(n.op, ast.Add) else 'Add'), ln, i,
                          ('binop', ast.Sub if isinstance(n.op, ast.Add) else ast.Add)))
        elif isinstance(n, ast.If) and n.orelse == [] and not isinstance(parents.get(n), ast.If):
            plans.append(('if-always', ln, i, ('iftrue',)))
    if OPS2:
        plans = []
        SEL = {'hopeful': ['pending', 'elected'], 'pending': ['hopeful', 'elected'], 'elected': ['hopeful', 'pending'], 'eligible': ['hopeful']}
        for i, n in enumerate(nodes):
            ch = chain(n)
            if in_docstring_or_help(n, ch):
                continue
            ln = getattr(n, 'lineno', 0)
            if isinstance(n, ast.Attribute) and n.attr in SEL and isinstance(parents.get(n), ast.Call) and parents[n].func is n:
                for alt in SEL[n.attr]:
                    plans.append(('selector %s->%s' % (n.attr, alt), ln, i, ('attr', alt)))
            elif isinstance(n, ast.Name) and n.id in ('V0', 'V1') and isinstance(n.ctx, ast.Load):
                plans.append(('%s->%s' % (n.id, 'V1' if n.id == 'V0' else 'V0'), ln, i, ('name', 'V1' if n.id == 'V0' else 'V0')))
            elif isinstance(n, ast.UnaryOp) and isinstance(n.op, ast.Not):
                plans.append(('drop-not', ln, i, ('dropnot',)))
            elif isinstance(n, ast.BoolOp) and len(n.values) >= 2:
                for k in range(len(n.values)):
                    plans.append(('drop-operand %d of %s' % (k, type(n.op).__name__), ln, i, ('dropoperand', k)))
            elif isinstance(n, (ast.FunctionDef, ast.For, ast.While, ast.If, ast.With, ast.Try)):
                for fld in ('body', 'orelse'):
                    b = getattr(n, fld, None)
                    if isinstance(b, list):
                        for k in range(len(b) - 1):
                            if isinstance(b[k], (ast.Assign, ast.AugAssign, ast.Expr)) and isinstance(b[k + 1], (ast.Assign, ast.AugAssign, ast.Expr)) \
                                    and not (isinstance(b[k], ast.Expr) and isinstance(b[k].value, ast.Constant)):
                                plans.append(('swap-stmts %s[%d,%d]' % (fld, k, k + 1), getattr(b[k], 'lineno', ln), i, ('swap', fld, k)))
            elif isinstance(n, ast.Attribute) and n.attr in ('vote', 'weight', 'kf', 'quota', 'surplus') and isinstance(n.ctx, ast.Load) \
                    and isinstance(n.value, ast.Name) and n.value.id in ('E',) and n.attr in ('quota', 'surplus'):
                plans.append(('E.%s->E.%s' % (n.attr, 'surplus' if n.attr == 'quota' else 'quota'), ln, i, ('attr', 'surplus' if n.attr == 'quota' else 'quota')))
    for desc, ln, i, plan in plans:
        t2 = ast.parse(src)
        ns = list(ast.walk(t2))
        n = ns[i]
        pm = {}
        for x in ns:
            for c in ast.iter_child_nodes(x):
                pm[c] = x
        try:
            if plan[0] == 'cmp':
                n.ops[plan[1]] = plan[2]()
            elif plan[0] == 'boolop':
                n.op = ast.Or() if isinstance(n.op, ast.And) else ast.And()
            elif plan[0] == 'delete':
                par = pm[n]
                for fld in ('body', 'orelse', 'finalbody'):
                    b = getattr(par, fld, None)
                    if isinstance(b, list) and n in b:
                        b[b.index(n)] = ast.copy_location(ast.Pass(), n)
            elif plan[0] == 'name':
                n.id = plan[1]
            elif plan[0] == 'const':
                n.value = plan[1]
            elif plan[0] == 'binop':
                n.op = plan[1]()
            elif plan[0] == 'iftrue':
                n.test = ast.copy_location(ast.Constant(value=True), n.test)
            elif plan[0] == 'attr':
                n.attr = plan[1]
            elif plan[0] == 'dropnot':
                par = pm[n]
                for fld, val in ast.iter_fields(par):
                    if val is n:
                        setattr(par, fld, n.operand)
                    elif isinstance(val, list) and any(v is n for v in val):
                        val[[k for k, v in enumerate(val) if v is n][0]] = n.operand
            elif plan[0] == 'dropoperand':
                del n.values[plan[1]]
                if len(n.values) == 1:
                    par = pm[n]
                    for fld, val in ast.iter_fields(par):
                        if val is n:
                            setattr(par, fld, n.values[0])
                        elif isinstance(val, list) and any(v is n for v in val):
                            val[[k for k, v in enumerate(val) if v is n][0]] = n.values[0]
            elif plan[0] == 'swap':
                b = getattr(n, plan[1])
                b[plan[2]], b[plan[2] + 1] = b[plan[2] + 1], b[plan[2]]
            new = ast.unparse(t2)
            compile(new, rel, 'exec')
        except Exception:
            continue
        yield desc, ln, new


def _copy(dst):
    shutil.copytree(os.path.join(REPO, 'droop'), os.path.join(dst, 'droop'), ignore=shutil.ignore_patterns('__pycache__', '*.pyc'))
    for d in ['Droop.py', 'irv.py', 'mpls.py', 'oscar.py', 'scotland.py']:
        if os.path.exists(os.path.join(REPO, d)):
            shutil.copy(os.path.join(REPO, d), os.path.join(dst, d))


def _work(job):
    rel, desc, ln, new, run_tests = job
    from droopsa.cli import run_property
    from droopsa.props import PROPS
    tmp = tempfile.mkdtemp(prefix='sweep-')
    res = dict(file=rel, line=ln, op=desc)
    try:
        _copy(tmp)
        with open(os.path.join(tmp, rel), 'w', encoding='utf-8') as f:
            f.write(new)
        from droopsa.cli import run_all_once
        flagged, errors = run_all_once(tmp)
        res['flagged'] = flagged
        res['refused'] = errors
        if not flagged and not errors and run_tests:
            # run the pinned suite against the mutant: tests import droop from the cwd
            tdir = os.path.join(tmp, 'test')
            shutil.copytree(os.path.join(REPO, 'test'), tdir, ignore=shutil.ignore_patterns('__pycache__', '*.pyc', 'out'))
            p = subprocess.run([PY, '-m', 'pytest', '-q', '-x', '-p', 'no:cacheprovider', '--timeout=300'], cwd=tmp,
                               stdout=subprocess.PIPE, stderr=subprocess.STDOUT, text=True, timeout=1800)
            res['tests_pass'] = p.returncode == 0
        return res
    except Exception as e:
        res['exception'] = repr(e)
        return res
    finally:
        shutil.rmtree(tmp, ignore_errors=True)


def main():
    args = sys.argv[1:]
    files = None
    jobs = 16
    out = 'sweep.json'
    run_tests = True
    limit = None
    i = 0
    while i < len(args):
        if args[i] == '--files':
            files = args[i + 1].split(',')
            i += 2
        elif args[i] == '--jobs':
            jobs = int(args[i + 1])
            i += 2
        elif args[i] == '--out':
            out = args[i + 1]
            i += 2
        elif args[i] == '--no-tests':
            run_tests = False
            i += 1
        elif args[i] == '--limit':
            limit = int(args[i + 1])
            i += 2
        else:
            i += 1
    work = []
    for rel in targets(files):
        for desc, ln, new in gen_mutants(rel):
            work.append((rel, desc, ln, new, run_tests))
    if limit:
        work = work[::max(1, len(work) // limit)][:limit]
    print('mutants:', len(work), flush=True)
    t0 = time.time()
    results = []
    with multiprocessing.Pool(jobs) as pool:
        for k, r in enumerate(pool.imap_unordered(_work, work, chunksize=2)):
            results.append(r)
            if (k + 1) % 100 == 0:
                print('%d/%d  %.0fs' % (k + 1, len(work), time.time() - t0), flush=True)
    flagged = [r for r in results if r.get('flagged')]
    refused = [r for r in results if not r.get('flagged') and r.get('refused')]
    killed = [r for r in results if not r.get('flagged') and not r.get('refused') and r.get('tests_pass') is False]
    survivors = [r for r in results if not r.get('flagged') and not r.get('refused') and r.get('tests_pass') is not False]
    summary = dict(mutants=len(results), flagged_by_checks=len(flagged), refused_only=len(refused), killed_by_tests_only=len(killed),
                   survivors=len(survivors), wall_s=round(time.time() - t0, 1))
    print(json.dumps(summary))
    with open(out, 'w') as f:
        json.dump(dict(summary=summary, survivors=sorted(survivors, key=lambda r: (r['file'], r['line'])),
                       killed_by_tests_only=sorted(killed, key=lambda r: (r['file'], r['line'])),
                       refused=sorted(refused, key=lambda r: (r['file'], r['line']))), f, indent=1)


if __name__ == '__main__':
    main()
