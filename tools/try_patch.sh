#!/bin/sh
# usage: tools/try_patch.sh <patch.diff> [Cnn ...]   - run the checks against a scratch worktree of /repo with the patch applied
# (development helper; /repo itself is not touched; DROOP_REPO points the analyser at the scratch tree)
set -u
P="$(readlink -f "$1")"; shift
WT="$(mktemp -d -u /tmp/trypatch-XXXXXX)"
git -C /repo worktree add -q --detach "$WT" HEAD || exit 2
( cd "$WT" && git apply "$P" ) || { echo "patch does not apply"; git -C /repo worktree remove --force "$WT"; exit 2; }
cd /verif
if [ $# -eq 0 ]; then set -- all; fi
DROOP_REPO="$WT" VERIF_NOWRITE=1 ./check "$@" 2>&1 | grep -v conda | grep -E "VIOLATION|ANALYSIS-ERROR|\[R[0-9]+[a-z]?\]" | cut -c1-330
git -C /repo worktree remove --force "$WT"
