#!/bin/sh
# usage: tools/try_patch.sh <patch.diff> [Cnn ...]   - apply a patch to /repo, run the checks, undo it
# (development helper; never leaves /repo modified)
set -u
P="$1"; shift
cd /repo || exit 2
if ! git diff --quiet; then echo "refusing: /repo has uncommitted changes"; exit 2; fi
git apply "$P" || { echo "patch does not apply"; exit 2; }
cd /verif
if [ $# -eq 0 ]; then set -- all; fi
VERIF_NOWRITE=1 ./check "$@" 2>&1 | grep -v conda | grep -E "VIOLATION|ANALYSIS-ERROR|\[R[0-9]+\]" | cut -c1-330
git -C /repo checkout -- .
git -C /repo status --short | head -3
