#!/usr/bin/env python3
"""Confirm an independently written behaviour-preserving refactoring and file it under /verif/benign/<id>-<n>/.

usage: tools/ingest_benign.py <property id> <agent out dir> <n>

In fresh scratch worktrees of /repo under /tmp (removed afterwards): the patch applies and byte-compiles, the pinned test suite passes
with it, and the author's equivalence script reports identical outputs for the original and the changed tree.  Then every claimed
property's check is run on the changed tree (DROOP_REPO): anything reported that is not a recorded finding is a FALSE ALARM of the
checker; exit 2 is a refusal.  Result: benign/<id>-<n>/{patch.diff, equiv.py, note.txt, meta.json}."""
import json, os, shutil, subprocess, sys, tempfile
PY = '/venv/bin/python'
VERIF = os.path.dirname(os.path.dirname(os.path.abspath(__file__)))


def sh(cmd, cwd=None, timeout=1200):
    p = subprocess.run(cmd, shell=True, cwd=cwd, stdout=subprocess.PIPE, stderr=subprocess.STDOUT, text=True, timeout=timeout)
    return p.returncode, '\n'.join(l for l in p.stdout.splitlines() if 'conda' not in l)


def main():
    pid, outdir, n = sys.argv[1], sys.argv[2], sys.argv[3]
    diff, eq, note = (os.path.join(outdir, '%s%s.%s' % (a, n, b)) for a, b in (('change', 'diff'), ('equiv', 'py'), ('note', 'txt')))
    for p in (diff, eq):
        if not os.path.exists(p):
            print('missing', p)
            return 2
    wo, wc = tempfile.mkdtemp(prefix='benorig-'), tempfile.mkdtemp(prefix='benchg-')
    os.rmdir(wo), os.rmdir(wc)
    sh('git -C /repo worktree add -q --detach %s HEAD' % wo)
    sh('git -C /repo worktree add -q --detach %s HEAD' % wc)
    meta = dict(property=pid, n=int(n), source='independent sub-agent asked for a behaviour-preserving refactoring of the code behind the property')
    try:
        rc, o = sh('git apply %s' % os.path.abspath(diff), cwd=wc)
        if rc:
            print('patch does not apply', o)
            return 1
        rcC, oC = sh('git diff --name-only', cwd=wc)
        files = [f for f in oC.split() if f.endswith('.py')]
        comp = all(sh('%s -m py_compile %s' % (PY, f), cwd=wc)[0] == 0 for f in files)
        rcT, oT = sh('%s -m pytest -q -p no:cacheprovider -x 2>&1 | tail -3' % PY, cwd=wc)
        tests_ok = rcT == 0 and 'failed' not in oT and 'error' not in oT.lower()
        sh('find . -name __pycache__ -prune -exec rm -rf {} +; rm -rf test/out', cwd=wc)
        rcE, oE = sh('%s %s %s %s' % (PY, os.path.abspath(eq), wo, wc), timeout=900)
        stat = sh('git diff --shortstat', cwd=wc)[1].strip()
        meta.update(files=files, compiles=comp, tests_pass_with_change=tests_ok, equivalence_exit=rcE, equivalence_tail=oE[-400:], diffstat=stat,
                    confirmed=comp and tests_ok and rcE == 0)
        rc, o = sh('DROOP_REPO=%s VERIF_NOWRITE=1 ./check all' % wc, cwd=VERIF, timeout=900)
        alarms, refusals = [], []
        cur = None
        for line in o.splitlines():
            if ' [R' in line and '] ' in line:
                cur = line[:300]
            elif line.startswith('VIOLATION property='):
                alarms.append((line.split('property=')[1].split()[0], cur))
            elif line.startswith('ANALYSIS-ERROR'):
                refusals.append(line[:300])
        meta['checker_exit'] = rc
        meta['false_alarms'] = [dict(property=p_, report=r_) for p_, r_ in alarms]
        meta['refusals'] = refusals
    finally:
        sh('git -C /repo worktree remove --force %s' % wo)
        sh('git -C /repo worktree remove --force %s' % wc)
        shutil.rmtree(wo, ignore_errors=True), shutil.rmtree(wc, ignore_errors=True)
    dst = os.path.join(VERIF, 'benign', '%s-%s' % (pid, n))
    os.makedirs(dst, exist_ok=True)
    shutil.copy(diff, os.path.join(dst, 'patch.diff'))
    shutil.copy(eq, os.path.join(dst, 'equiv.py'))
    if os.path.exists(note):
        shutil.copy(note, os.path.join(dst, 'note.txt'))
        meta['note'] = open(note).read().strip()[:1500]
    json.dump(meta, open(os.path.join(dst, 'meta.json'), 'w'), indent=1)
    print('%s-%s confirmed=%s (%s) false_alarms=%s refusals=%d' % (pid, n, meta.get('confirmed'), meta.get('diffstat'),
          sorted(set((a['property'], (a['report'] or '').split('[')[-1].split(']')[0]) for a in meta['false_alarms'])), len(meta['refusals'])))
    return 0


if __name__ == '__main__':
    sys.exit(main())
