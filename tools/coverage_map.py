#!/usr/bin/env python3
"""Development aid: which statements of the analysed sources are never the anchor of an obligation of any claimed property?
(An unanchored statement is not necessarily unchecked - path rules quantify over statements they do not anchor at - but it is
where to look for blind spots.)  usage: tools/coverage_map.py [file glob ...]"""
import ast, fnmatch, os, sys
VERIF = os.path.dirname(os.path.dirname(os.path.abspath(__file__)))
sys.path.insert(0, VERIF)
os.environ['VERIF_NOWRITE'] = '1'
from droopsa.cli import run_property
from droopsa.props import PROPS
from droopsa.model import REPO
anch = {}
for pid in sorted(PROPS):
    code, ctx, v, k, e = run_property(pid, 'quick', only=None, repo_root=None, quiet=True, write=False)
    for o in ctx.obligations:
        anch.setdefault(o.file, set()).add(o.line)
globs = sys.argv[1:] or ['droop/rules/*.py']
for dp, dn, fns in os.walk(os.path.join(REPO, 'droop')):
    for fn in sorted(fns):
        rel = os.path.relpath(os.path.join(dp, fn), REPO)
        if not fn.endswith('.py') or not any(fnmatch.fnmatch(rel, g) for g in globs):
            continue
        src = open(os.path.join(REPO, rel)).read()
        t = ast.parse(src)
        lines = src.splitlines()
        un = []
        tot = 0
        for n in ast.walk(t):
            if isinstance(n, ast.stmt) and not isinstance(n, (ast.FunctionDef, ast.ClassDef, ast.Import, ast.ImportFrom, ast.Pass)) \
                    and not (isinstance(n, ast.Expr) and isinstance(n.value, ast.Constant)):
                tot += 1
                span = range(n.lineno, (n.end_lineno or n.lineno) + 1) if not hasattr(n, 'body') else [n.lineno]
                if not any(l in anch.get(rel, ()) for l in span):
                    un.append(n)
        print('== %s: %d of %d statements are not an anchor' % (rel, len(un), tot))
        for n in sorted(un, key=lambda x: x.lineno):
            print('   %4d  %s' % (n.lineno, lines[n.lineno - 1].strip()[:110]))
