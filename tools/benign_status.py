#!/usr/bin/env python3
"""One line per benign refactoring: which rules still alarm / refuse on it (all claimed properties).  usage: tools/benign_status.py [-v]"""
import json, multiprocessing, os, shutil, subprocess, sys, tempfile
VERIF = os.path.dirname(os.path.dirname(os.path.abspath(__file__)))
sys.path.insert(0, VERIF)


def work(name):
    from droopsa.cli import run_property
    from droopsa.props import PROPS
    from droopsa.selftest import _copy_repo
    from droopsa.report import load_known
    tmp = tempfile.mkdtemp(prefix='benst-')
    try:
        _copy_repo(tmp)
        r = subprocess.run(['patch', '-p1', '-s', '-d', tmp, '-i', os.path.join(VERIF, 'benign', name, 'patch.diff')], stdout=subprocess.PIPE, stderr=subprocess.STDOUT)
        if r.returncode:
            return name, None, None
        alarms, refs = {}, {}
        for pid in sorted(PROPS):
            code, ctx, violations, known, error = run_property(pid, 'quick', only=None, repo_root=tmp, quiet=True, write=False)
            for o in violations:
                alarms.setdefault(o.rule, set()).add('%s:%s %s' % (o.file, o.line, o.how[:150]))
            if code == 2:
                refs.setdefault((error or '?')[:160], set()).add(pid)
        return name, alarms, refs
    finally:
        shutil.rmtree(tmp, ignore_errors=True)


if __name__ == '__main__':
    names = sorted(n for n in os.listdir(os.path.join(VERIF, 'benign')) if os.path.exists(os.path.join(VERIF, 'benign', n, 'meta.json')))
    with multiprocessing.Pool(12, maxtasksperchild=3) as pool:
        res = pool.map(work, names, chunksize=1)
    silent = refused = alarm = 0
    for name, alarms, refs in res:
        if alarms is None:
            print(name, 'PATCH FAILED')
            continue
        st = 'ALARM' if alarms else ('refused' if refs else 'silent')
        silent += st == 'silent'
        refused += st == 'refused'
        alarm += st == 'ALARM'
        print('%-7s %-8s %s %s' % (name, st, ' '.join('%s(%d)' % (r, len(v)) for r, v in sorted(alarms.items())), ('| refusals: %d' % len(refs)) if refs else ''))
        if '-v' in sys.argv:
            for r, v in sorted(alarms.items()):
                for x in sorted(v)[:3]:
                    print('        %s %s' % (r, x))
            for e, ps in refs.items():
                print('        REFUSED %s: %s' % (','.join(sorted(ps)), e))
    print('%d benign refactorings: %d silent, %d refused only, %d with false alarms' % (len(res), silent, refused, alarm))
