#!/usr/bin/env python3
"""Write the prompts for one round of independent seeded changes to /tmp/seedprompt/<id>.txt.

usage: tools/seed_prompts.py <first n> [--focus]      (n, n+1 are the change numbers of the round)

A prompt contains only: the property (id, title, statement, quantifier, anchors) from properties.jsonl, the task, the
first sentences of the notes of earlier seeds for that property (so that the author goes elsewhere), and - with --focus -
a list of files that earlier rounds touched least.  Nothing about /verif's checks is given to the authors."""
import glob
import json
import os
import sys
from collections import Counter

VERIF = os.path.dirname(os.path.dirname(os.path.abspath(__file__)))
n0 = int(sys.argv[1])
focus = '--focus' in sys.argv
os.makedirs('/tmp/seedprompt', exist_ok=True)
cnt = Counter()
for p in glob.glob(os.path.join(VERIF, 'seeded', '*', 'meta.json')):
    for f in json.load(open(p)).get('files', []):
        cnt[f] += 1
ALL = ['droop/rules/qpq.py', 'droop/rules/meek_prf.py', 'droop/rules/scotland.py', 'droop/rules/mpls.py', 'droop/rules/cfer.py', 'droop/rules/wigm_prf.py',
       'droop/rules/electionrule.py', 'droop/rules/electionmethods.py', 'droop/candidate.py', 'droop/candidates.py', 'droop/options.py',
       'droop/values/rational.py', 'droop/values/__init__.py', 'droop/common.py', 'droop/__init__.py', 'droop/droop.py', 'droop/record.py',
       'droop/values/guarded.py', 'droop/values/fixed.py', 'droop/election.py', 'droop/rules/wigm.py', 'droop/rules/meek.py', 'droop/profile.py', 'Droop.py']
least = sorted(ALL, key=lambda f: cnt[f])[:14]
for l in open(os.path.join(VERIF, 'properties.jsonl')):
    p = json.loads(l)
    pid = p['id']
    if pid in ('C03', 'C05'):
        continue
    prior = []
    for d in sorted(glob.glob(os.path.join(VERIF, 'seeded', '%s-*' % pid))):
        try:
            prior.append('- ' + ' '.join(open(d + '/note.txt').read().split())[:230])
        except OSError:
            pass
    foc = ''
    if focus:
        foc = ('\nFILE FOCUS for this round: the faulty edit of each of your changes should be in one of these files, which earlier rounds '
               'touched least (use one that is relevant to the property; if truly none is, say so in the note and use another file): '
               + ', '.join(least) + '.\n')
    txt = f"""You are helping evaluate a verification effort for the open-source project jklundell/droop (a pure-Python STV election counter). You have your own scratch git worktree of the project at /tmp/seed/{pid} (a detached checkout; work ONLY inside that directory; do not look at or touch /repo or /verif or any other directory outside /tmp/seed/{pid}). Python to use: /venv/bin/python . The test suite runs with: cd /tmp/seed/{pid} && /venv/bin/python -m pytest -q -p no:cacheprovider -x   (207 tests, about 10 seconds).

Here is one semantic property the project is meant to satisfy:

ID: {pid}
Title: {p['title']}
Statement: {p['statement']}
Quantifier: {p['quantifier']['text']}
Code anchors: {json.dumps(p['anchors'])[:1200]}

TASK: write TWO different, independent changes to the project's source (not its tests), each of which
 (a) BREAKS this property for some input/configuration,
 (b) still byte-compiles and still passes the whole existing test suite, unedited,
 (c) looks like something a maintainer might realistically do (a refactor, optimisation, tidy-up, 'bug fix', feature) - not sabotage, not a random operator flip,
 (d) needs something specific to manifest (a particular ballot shape, option combination, arithmetic, rule name, interrupt timing...), i.e. it is not visible on every run.
{foc}
Earlier rounds already produced the ideas listed below for this property; yours must be DIFFERENT from all of them in mechanism and in location. Prefer changes whose edited statements each look locally correct, where the fault lies in the interaction with code elsewhere. Also consider clauses of the property statement that none of the earlier ideas attacks:
{chr(10).join(prior)}

For each change i in ({n0}, {n0 + 1}) produce, in the directory /tmp/seed/{pid}/out/ (create it):
  change<i>.diff  - a unified diff made with `git diff` from the worktree root, applying to the ORIGINAL checkout with `git apply` (each change independent of the other: make change {n0}, save diff, `git checkout -- .`, then make change {n0 + 1}).
  demo<i>.py      - a stand-alone script: `/venv/bin/python demo<i>.py <path to a droop source tree>` inserts that tree at the front of sys.path, builds the specific input in memory or in a temp file, runs droop, and exits 0 if the property HOLDS on that input and exits 1 (printing what went wrong) if the property is VIOLATED. It must exit 0 on the original checkout and exit 1 on the checkout with your change applied. It must not depend on anything outside the given tree and the standard library, and must finish within a minute.
  note<i>.txt     - 5-15 lines: what you changed and where, why it looks innocent, what exactly is needed for it to manifest, and what a user would observe.

Before you finish, for each change verify yourself: git apply works on a clean checkout; the full test suite passes with the change; demo exits 0 without and 1 with the change. Leave the worktree clean (git checkout -- . ; out/ is untracked and stays; remove any test/out directory or __pycache__ your runs created). Report briefly what the two changes are and the verification results. Do not ask questions; decide yourself."""
    open('/tmp/seedprompt/%s.txt' % pid, 'w').write(txt)
print('prompts written for changes %d,%d; focus files: %s' % (n0, n0 + 1, least if focus else 'none'))
