#!/usr/bin/env python3
"""Confirm an independently written breaking change and file it under /verif/seeded/.

usage: tools/ingest_seed.py <property id> <agent out dir> <n> [--keep-anyway]

Steps (all in a fresh scratch worktree of /repo under /tmp, removed afterwards):
  1. demo on the clean tree must exit 0
  2. patch applies; every touched file byte-compiles
  3. the pinned test suite passes with the patch
  4. demo on the patched tree must exit 1
Then the patch is applied to /repo itself, `./check all` is run without writing evidence, and /repo is
restored (git checkout -- .).  Result: /verif/seeded/<id>-<n>/{patch.diff,demo.py,note.txt,meta.json}.
"""
import json
import os
import shutil
import subprocess
import sys
import tempfile

PY = '/venv/bin/python'
VERIF = os.path.dirname(os.path.dirname(os.path.abspath(__file__)))


def sh(cmd, cwd=None, timeout=900):
    p = subprocess.run(cmd, shell=True, cwd=cwd, stdout=subprocess.PIPE, stderr=subprocess.STDOUT, text=True, timeout=timeout)
    out = '\n'.join(l for l in p.stdout.splitlines() if 'conda' not in l)
    return p.returncode, out


def main():
    pid, outdir, n = sys.argv[1], sys.argv[2], sys.argv[3]
    diff = os.path.join(outdir, 'change%s.diff' % n)
    demo = os.path.join(outdir, 'demo%s.py' % n)
    note = os.path.join(outdir, 'note%s.txt' % n)
    for p in (diff, demo):
        if not os.path.exists(p):
            print('missing', p)
            return 2
    ran = []
    wt = tempfile.mkdtemp(prefix='seedwt-')
    os.rmdir(wt)
    rc, out = sh('git -C /repo worktree add -q --detach %s HEAD' % wt)
    if rc:
        print(out)
        return 2
    meta = dict(property=pid, source='independent sub-agent given only the property text and a scratch worktree', n=int(n))
    try:
        rc0, o0 = sh('%s %s %s' % (PY, demo, wt), timeout=300)
        ran.append('demo on clean tree -> exit %d' % rc0)
        rc, o = sh('git apply %s' % os.path.abspath(diff), cwd=wt)
        ran.append('git apply -> %d' % rc)
        if rc:
            print('patch does not apply:', o)
            return 1
        rcC, oC = sh('git diff --name-only', cwd=wt)
        files = [f for f in oC.split() if f.endswith('.py')]
        comp_ok = True
        for f in files:
            r, o = sh('%s -m py_compile %s' % (PY, f), cwd=wt)
            comp_ok = comp_ok and r == 0
        ran.append('py_compile of %s -> %s' % (files, 'ok' if comp_ok else 'FAILED'))
        rcT, oT = sh('%s -m pytest -q -p no:cacheprovider -x -q 2>&1 | tail -3' % PY, cwd=wt, timeout=1200)
        passed = ' passed' in oT or ('failed' not in oT and 'error' not in oT.lower())
        ran.append('pinned test suite with the change -> %s' % oT.strip().splitlines()[-1] if oT.strip() else 'no output')
        tests_ok = rcT == 0 and 'failed' not in oT and 'error' not in oT.lower()
        rc1, o1 = sh('%s %s %s' % (PY, demo, wt), timeout=300)
        ran.append('demo on changed tree -> exit %d' % rc1)
        confirmed = rc0 == 0 and rc1 == 1 and comp_ok and tests_ok
        meta.update(files=files, demo_clean_exit=rc0, demo_changed_exit=rc1, tests_pass_with_change=tests_ok, compiles=comp_ok,
                    confirmed=confirmed, demo_output_changed=o1[-600:])
        if not confirmed and '--keep-anyway' not in sys.argv:
            print('NOT CONFIRMED', json.dumps(meta, indent=1)[:1500])
            return 1
    finally:
        sh('git -C /repo worktree remove --force %s' % wt)
        shutil.rmtree(wt, ignore_errors=True)
    # run the checks against a scratch copy of /repo with the change applied (DROOP_REPO points the analyser at it;
    # equivalent to `git -C /repo apply` + checks + `git -C /repo checkout -- .`, without touching /repo while
    # background runs are reading it)
    caught = {}
    wt2 = tempfile.mkdtemp(prefix='seedwt-')
    os.rmdir(wt2)
    rc, o = sh('git -C /repo worktree add -q --detach %s HEAD' % wt2)
    try:
        rc, o = sh('git apply %s' % os.path.abspath(diff), cwd=wt2)
        if rc:
            print('does not apply', o)
            return 2
        rc, o = sh('DROOP_REPO=%s VERIF_NOWRITE=1 ./check all' % wt2, cwd=VERIF, timeout=600)
        cur = None
        for line in o.splitlines():
            if '] ' in line and ' [R' in line:
                rule = line.split(' [R', 1)[1].split(']', 1)[0]
                cur = ('R' + rule, line[:260])
            elif line.startswith('VIOLATION property='):
                p = line.split('property=')[1].split()[0]
                if cur:
                    caught.setdefault(p, [])
                    if cur not in caught[p]:
                        caught[p].append(cur)
            elif line.startswith('ANALYSIS-ERROR'):
                p = line.split('property=')[1].split()[0] if 'property=' in line else '?'
                caught.setdefault(p, []).append(('ANALYSIS-ERROR', line[:260]))
        ran.append('./check all with the change applied (scratch worktree via DROOP_REPO) -> exit %d' % rc)
    finally:
        sh('git -C /repo worktree remove --force %s' % wt2)
        shutil.rmtree(wt2, ignore_errors=True)
    meta['caught_by'] = {p: [dict(rule=r, report=t) for r, t in v] for p, v in caught.items()}
    meta['caught_by_own_property'] = pid in caught and any(r != 'ANALYSIS-ERROR' for r, _ in caught[pid])
    meta['what_ran'] = ran
    if os.path.exists(note):
        meta['needs_to_manifest'] = open(note).read().strip()
    dst = os.path.join(VERIF, 'seeded', '%s-%s' % (pid, n))
    os.makedirs(dst, exist_ok=True)
    shutil.copy(diff, os.path.join(dst, 'patch.diff'))
    shutil.copy(demo, os.path.join(dst, 'demo.py'))
    if os.path.exists(note):
        shutil.copy(note, os.path.join(dst, 'note.txt'))
    with open(os.path.join(dst, 'meta.json'), 'w') as f:
        json.dump(meta, f, indent=1)
    print('%s-%s confirmed=%s caught_by=%s own=%s' % (pid, n, meta.get('confirmed'), {p: sorted(set(r for r, _ in v)) for p, v in caught.items()},
                                                       meta['caught_by_own_property']))
    return 0


if __name__ == '__main__':
    sys.exit(main())
