#!/usr/bin/env python3
"""Print the markdown table of /verif/seeded/*/meta.json for DESIGN.md section 11."""
import json, os, glob
VERIF = os.path.dirname(os.path.dirname(os.path.abspath(__file__)))
rows = []
for mp in sorted(glob.glob(os.path.join(VERIF, 'seeded', '*', 'meta.json'))):
    m = json.load(open(mp))
    name = os.path.basename(os.path.dirname(mp))
    note = (m.get('needs_to_manifest') or '').replace('\n', ' ')
    first = note.split('. ')[0][:150]
    own = m['property']
    cb = m.get('caught_by', {})
    ownr = ','.join(sorted(set(x['rule'] for x in cb.get(own, [])))) or '-'
    others = '; '.join('%s:%s' % (p, ','.join(sorted(set(x['rule'] for x in v)))) for p, v in sorted(cb.items()) if p != own) or '-'
    fc = m.get('first_contact_own')
    rows.append('| %s | %s | %s | %s | %s | %s |' % (name, ', '.join(m.get('files', [])), first, {True: 'yes', False: 'no', None: 'n/k'}[fc], ownr, others))
print('| seed | file(s) | change (first sentence of the author\'s note) | own property at first contact | now caught under its own property by | also reported under |')
print('|---|---|---|---|---|---|')
print('\n'.join(rows))
