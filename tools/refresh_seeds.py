#!/usr/bin/env python3
"""Re-run every claimed property's check on each confirmed seed (scratch copy + patch) and refresh `caught_by` in
seeded/*/meta.json.  The outcome at ingestion time is kept once in `first_contact_own` (was the seed reported under its
own property by the checks as they stood when it arrived)."""
import json
import multiprocessing
import os
import shutil
import subprocess
import sys
import tempfile

VERIF = os.path.dirname(os.path.dirname(os.path.abspath(__file__)))
sys.path.insert(0, VERIF)


def work(name):
    from droopsa.cli import run_property
    from droopsa.props import PROPS
    from droopsa.selftest import _copy_repo
    d = os.path.join(VERIF, 'seeded', name)
    tmp = tempfile.mkdtemp(prefix='seedref-')
    try:
        _copy_repo(tmp)
        r = subprocess.run(['patch', '-p1', '-s', '-d', tmp, '-i', os.path.join(d, 'patch.diff')], stdout=subprocess.PIPE, stderr=subprocess.STDOUT, text=True)
        if r.returncode:
            return name, None
        caught = {}
        for pid in sorted(PROPS):
            code, ctx, violations, known, error = run_property(pid, 'quick', only=None, repo_root=tmp, quiet=True, write=False)
            if violations:
                caught[pid] = [dict(rule=o.rule, report=('%s:%s %s -- %s' % (o.file, o.line, o.what, o.how))[:260]) for o in violations[:4]]
            elif code == 2:
                caught[pid] = [dict(rule='ANALYSIS-ERROR', report=(error or '')[:260])]
        return name, caught
    finally:
        shutil.rmtree(tmp, ignore_errors=True)


def main():
    names = sorted(n for n in os.listdir(os.path.join(VERIF, 'seeded')) if os.path.exists(os.path.join(VERIF, 'seeded', n, 'meta.json')))
    with multiprocessing.Pool(int(os.environ.get('JOBS', '8')), maxtasksperchild=4) as pool:
        res = pool.map(work, names, chunksize=1)
    own = 0
    for name, caught in res:
        p = os.path.join(VERIF, 'seeded', name, 'meta.json')
        meta = json.load(open(p))
        if caught is None:
            print(name, 'patch does not apply')
            continue
        if 'first_contact_own' not in meta:
            meta['first_contact_own'] = bool(meta.get('caught_by_own_property'))
        meta['caught_by'] = caught
        pid = meta['property']
        meta['caught_by_own_property'] = pid in caught and any(x['rule'] != 'ANALYSIS-ERROR' for x in caught[pid])
        own += meta['caught_by_own_property']
        json.dump(meta, open(p, 'w'), indent=1)
    print('%d seeds, %d reported under their own property' % (len(res), own))


if __name__ == '__main__':
    main()
