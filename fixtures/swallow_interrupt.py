"""Positive fixture for R45 (never imported, only parsed): four constructs that swallow a
KeyboardInterrupt.  The detector must report all four on every run."""
import contextlib


def a(E):
    try:
        E.count()
    except:                      # 1: bare except
        pass


def b(E):
    try:
        E.count()
    except BaseException:        # 2
        return None


def c(E):
    for _ in range(3):
        try:
            E.count()
        finally:
            continue             # 3: discards the exception in flight


def d(E):
    with contextlib.suppress(KeyboardInterrupt):   # 4
        E.count()


def ok(E):
    try:
        E.count()
    except BaseException:
        E.log('cleanup')
        raise                    # re-raised: not a swallower
